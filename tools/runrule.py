#!/usr/bin/env python3
"""Developer helper: run one rule function against a root and print its instances.

  tools/runrule.py fsm:rule_gkf [--root /repo] [--all] [--nocache]

Uses a pickle cache of the exported facts under /tmp keyed by a hash of the source
tree (developer convenience only; ./check never uses it)."""
import argparse, hashlib, importlib, os, pickle, sys, time
HERE = os.path.dirname(os.path.abspath(__file__))
sys.path.insert(0, os.path.join(HERE, "..", "sa"))
sys.path.insert(0, os.path.join(HERE, "..", "sa", "rules"))
import facts as F, engine


def tree_hash(root):
    h = hashlib.sha256()
    for top in ("lib", "src", "scripts", "xml", "CMakeLists.txt"):
        p = os.path.join(root, top)
        if os.path.isfile(p):
            h.update(open(p, "rb").read()); continue
        for d, ds, fs in sorted(os.walk(p)):
            ds.sort()
            for f in sorted(fs):
                fp = os.path.join(d, f)
                h.update(fp.encode()); h.update(open(fp, "rb").read())
    for f in ("sa/instantiate_all.cpp", "sa/facts.py", "bin/gamafacts"):
        h.update(open(os.path.join(HERE, "..", f), "rb").read())
    return h.hexdigest()[:16]


def load_facts(root, nocache=False):
    os.makedirs("/tmp/gamafacts_cache", exist_ok=True)
    p = "/tmp/gamafacts_cache/%s.pkl" % tree_hash(root)
    if not nocache and os.path.exists(p):
        return pickle.load(open(p, "rb"))
    fx = F.export(root=root)
    sys.setrecursionlimit(100000)
    pickle.dump(fx, open(p, "wb"))
    return fx


def main():
    ap = argparse.ArgumentParser()
    ap.add_argument("rule", help="module:function")
    ap.add_argument("--root", default="/repo")
    ap.add_argument("--all", action="store_true", help="print holding instances too")
    ap.add_argument("--nocache", action="store_true")
    a = ap.parse_args()
    t = time.time()
    fx = load_facts(a.root, a.nocache)
    mod, fn = a.rule.split(":")
    m = importlib.import_module(mod)
    ctx = engine.Ctx(fx, a.root, "DEV", "quick")
    try:
        getattr(m, fn)(ctx)
    except F.AnalysisBroken as e:
        print("ANALYSIS-BROKEN:", e); return 2
    bad = [i for i in ctx.instances if not i.ok]
    for i in ctx.instances:
        if a.all or not i.ok:
            print("%s %s  %s  %s  %s" % ("ok " if i.ok else "BAD", i.key, i.where, i.fn, i.msg))
    print("instances=%d bad=%d floors=%s  (%.1fs)" % (len(ctx.instances), len(bad), ctx.floors, time.time() - t))
    return 1 if bad else 0


if __name__ == "__main__":
    sys.exit(main())
