#!/bin/bash
# try_patch.sh <patch.diff> [Cxx ...] : apply a patch to a scratch copy of /repo's sources (outside /repo and /verif),
# run the quick checks (all claimed, or the ones named) against it with --root, remove the copy.
P=$(readlink -f "$1"); shift
T=$(mktemp -d /tmp/gama_try_XXXX)
trap 'rm -rf "$T"' EXIT
(cd /repo && git ls-files -z | grep -zv '^tests/' | xargs -0 cp --parents -t "$T" 2>/dev/null)
(cd "$T" && git init -q . 2>/dev/null; git -C "$T" apply --exclude='tests/*' "$P") || { echo "patch does not apply"; exit 3; }
cd /verif
if [ $# -eq 0 ]; then set -- $(python3 -c "import json;print(' '.join(c['property_id'] for c in json.load(open('/verif/MANIFEST.json'))['checks']))"); fi
for p in "$@"; do
  out=$(./check $p --root "$T" 2>&1); rc=$?
  if [ $rc -eq 0 ]; then echo "$p rc=0"; else echo "$p rc=$rc"; echo "$out" | grep -E "ANALYSIS-BROKEN|^  R-|^  [A-Z]" | cut -c1-300 | head -6; fi
done
