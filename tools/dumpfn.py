#!/usr/bin/env python3
"""Developer helper: print the simplified AST (and optionally CFG) of functions.

  tools/dumpfn.py 'AdjEnvelope::lindep' [--cfg] [--root /repo] [--json]
The argument is a substring of the function key."""
import argparse, json, os, sys
HERE = os.path.dirname(os.path.abspath(__file__))
sys.path.insert(0, HERE)
import runrule
import facts as F


def show(n, ind=0, label=""):
    if n is None:
        return
    attrs = []
    for k in ("op", "member", "owner", "callee", "ctor", "v", "label", "castKind", "castTo", "array", "excT", "objT"):
        if k in n:
            attrs.append("%s=%r" % (k, n[k]))
    if "ref" in n:
        r = n["ref"]
        attrs.append("ref=%s:%s%s" % (r.get("dk"), r.get("qn", r.get("name")), ("#%s" % r["decl"]) if "decl" in r else ""))
    t = n.get("t", "")
    print("%s%s#%d %s %s  [%s] L%s" % ("  " * ind, label, n["id"], n["k"], " ".join(attrs), t[:60], n.get("line")))
    if n["k"] == "DeclStmt":
        for d in n.get("decls", []):
            print("%s  decl %s #%s : %s" % ("  " * ind, d.get("name"), d.get("decl"), d.get("t")))
            show(d.get("init"), ind + 2, "init: ")
        return
    for key in F._CHILD_KEYS:
        if isinstance(n.get(key), dict):
            show(n[key], ind + 1, key + ": ")
    for c in n.get("c", []) or []:
        show(c, ind + 1)


def main():
    ap = argparse.ArgumentParser()
    ap.add_argument("pat")
    ap.add_argument("--cfg", action="store_true")
    ap.add_argument("--json", action="store_true")
    ap.add_argument("--root", default="/repo")
    a = ap.parse_args()
    fx = runrule.load_facts(a.root)
    for key, fn in sorted(fx.functions.items()):
        if a.pat in key:
            print("=" * 100)
            print(key, " ", fn.file, fn.line, "class=%s virtual=%s overrides=%s" % (
                fn.cls, fn.rec.get("virtual"), [o["class"] for o in fn.rec.get("overrides", [])]))
            print("params:", fn.params)
            if a.json:
                print(json.dumps(fn.rec, indent=1)); continue
            for i in fn.rec.get("inits", []) or []:
                print(" ctor-init", i.get("field") or i.get("base")); show(i.get("init"), 2)
            show(fn.body)
            if a.cfg:
                c = fn.rec["cfg"]
                print("CFG entry=%s exit=%s" % (c["entry"], c["exit"]))
                for b in c["blocks"]:
                    print("  B%s el=%s succ=%s term=%s cond=%s label=%s" % (
                        b["id"], b["el"], b["succ"], b.get("termK"), b.get("cond"), b.get("label")))


if __name__ == "__main__":
    main()
