#!/usr/bin/env python3
"""Regenerate /verif/MANIFEST.json from the table below (claimed = present in sa/props.py)."""
import json
import os
import sys

HERE = os.path.dirname(os.path.abspath(__file__))
sys.path.insert(0, os.path.join(HERE, "..", "sa"))
sys.path.insert(0, os.path.join(HERE, "..", "sa", "rules"))
import props  # noqa: E402

NA = {
    "C06": "convergence of the approximate-coordinate strategies and of iterated linearisation is a property of "
           "numerical trajectories; no clause of it is a shape of the code, and no sound static argument bounds it",
    "C08": "an invariance of numerical results across constraint subsets; the only structural part (the subset "
           "reaches the solver and invalidates cached results) is decided under C01/C04",
    "C17": "accuracy and monotonicity of numerical approximations of distribution functions; nothing structural to decide",
}

PENDING = "static check under construction in this session (DESIGN.md section 5); not claimed until its rule engine is committed"

TEXT = {
    "C01": ("structural clauses of 'every solver returns the weighted least-squares minimiser': permutation "
            "discipline on the solution path (index-space typing), homogenisation/weights on every path to a solver, "
            "regularisation subset reaches the solver; optimality itself is not decided",
            "static analysis: index-space qualifier inference + CFG must-pass-through (dominance) rules"),
    "C02": ("sibling clauses of 'the four algorithms give the same adjustment': identical override sets, every query "
            "guarded in every solver (typestate), each solver can signal an unresolvable regularisation, algorithm-name "
            "tables agree, nothing downstream branches on the concrete solver; numerical agreement is not decided",
            "static analysis: sibling-agreement, typestate abstract interpretation, table agreement over AST facts"),
    "C03": ("index-space clause of 'reported cofactors are the generalised inverse': every index handed to a factor, "
            "cofactor store or cache in the cofactor queries is in the numbering that slot expects; the algebraic "
            "identities are not decided",
            "static analysis: index-space qualifier inference over the resolved AST"),
    "C04": ("typestate clauses of 'answers do not depend on query order or history': no public query of the solver "
            "classes can read a cached result in a state where it is not valid (guard dominance incl. polarity), "
            "every method that changes an input invalidates the dependent results on every exit, the flag invariant "
            "is inductive; bitwise reproducibility of floating point results is not decided",
            "static analysis: typestate by abstract interpretation of flag valuations over the clang CFG"),
    "C05": ("shape clauses of 'linearised equations equal the Jacobian and misclosure': bounded coefficient arrays, "
            "translation invariance of coefficient sums (formal), angular right-hand sides reduced to the half circle, "
            "mm/cc scale factors agree between sibling handlers and visitors; equality with the true partial "
            "derivatives is not decided",
            "static analysis: formal-sum normalisation of AST expressions, units-of-measure inference, CFG path bounds"),
    "C07": ("the mirroring clause only: every writer restores the y sign that remove_inconsistency() flips, sibling "
            "visit(Y*)/visit(Ydiff*) agree; the other input equivalences are relations between runs and are not decided",
            "static analysis: taint-style flow of y-carrying values to output sinks"),
    "C10": ("the rejection clause: all four finish_* handlers check the covariance dimension against the cluster and "
            "positive definiteness before accepting it, cov-mat bounds dominate the allocation; numerical equivalence "
            "with the whitened problem is not decided",
            "static analysis: sibling agreement + CFG dominance"),
    "C11": ("structural necessary conditions of 'any input is adjusted or refused with a located diagnostic, safely': "
            "parser automata have no silent or escaping error transition and a depth discipline, no stale scratch state "
            "between elements, numeric conversions are guarded, wrap loops terminate on input-facing values, new/delete "
            "pairing, exception funnel in main; absence of all undefined behaviour is not decided",
            "static analysis: automaton extraction by constant propagation over the clang CFG, dominance rules"),
    "C12": ("well-formedness and vocabulary clauses: no identifier/description/message reaches a markup sink "
            "unescaped, the escaping function maps the five special characters correctly, element vocabulary of "
            "writer, reader and XSD agree, mm/cc scale and y-sign in the writer; read-back without loss as structure: every element and "
            "attribute the writer emits is stored by the reader in a field of its own with the matching conversion, record scratch is "
            "reset per record, consumers read only stored fields, the covariance rows are addressed consistently; observation / unknown "
            "index spaces in the writers; gon units forced before the writers; printed precision and numeric equality are not decided",
            "static analysis: taint tracking to markup sinks, table agreement, writer/reader effect extraction over the parser automaton, "
            "index-space typing, must-pass-through"),
    "C13": ("writer/reader agreement of --export: attributes written are accepted by the parser and every stored "
            "attribute is written back, parsed values reach the model, identifiers are escaped, y sign restored; "
            "the numeric fixed point is not decided",
            "static analysis: attribute-table extraction, def-use flow, taint tracking"),
    "C14": ("reporting completeness: every deactivation of a point is paired with removed(id, code) of the right axis "
            "class, every reason code has a message in every listing, observations are partitioned into revised/removed; "
            "equality with the reduced input is not decided",
            "static analysis: CFG pairing (post-dominance) + table agreement"),
    "C15": ("two structural clauses of the matrix library: non-conforming operands throw before any element is "
            "touched (dimension check dominates access) and copies never alias their source (MemRep ownership); "
            "the algebraic identities are not decided",
            "static analysis: CFG dominance of dimension checks, ownership rule on MemRep"),
    "C16": ("permutation consistency: index spaces in ordering/envelope construction, inverse permutation computed "
            "after every ordering, bounded copy sizes in sparse transpose/replicate; index spaces inside the sparse kernels (row / column / "
            "entry position / adjacency position / permuted position / profile position / block / queue position), position counters "
            "and pointers walking storage in lock-step, scratch re-initialised per run; numerical equality with dense LDL' is not decided",
            "static analysis: index-space qualifier inference, must-pass-through, control-dependence classification of position counters"),
    "C18": ("table agreement (ellipsoid enumerators, captions, ids, name lookup and parameter switch agree) and the "
            "literal-format clause: the languages accepted by the character-level recognisers IsFloat/IsInteger equal the "
            "documented formats (automata read off the CFG, product construction); round trips are numerical and are not decided",
            "static analysis: table agreement over AST facts; automaton extraction from the CFG of the recognisers and "
            "language-equivalence check against the documented format"),
    "C19": ("structural clauses for gama-g3: every g3 visitor covers all observation types, typestate of g3::Model and "
            "Adj, algorithm tables, DataParser automaton, escaping in the g3 writers, new/delete pairing; adjusted "
            "coordinates are not decided",
            "static analysis: exhaustiveness, typestate, automaton extraction, taint tracking"),
    "C09": ("the homogeneity and selector clauses of 'reported statistics are consistent': with the a priori reference "
            "deviation as a formal unit, every number reported by the XML, text, HTML, Octave and SQL writers and every "
            "statistics accessor of LocalNetwork has the power of that unit the property demands (standard deviations, "
            "covariances, confidence limits, ellipses: 0; v'Pv: 2; m0: 1), sums and comparisons are homogeneous, m_0() enters a "
            "standard deviation exactly once, and the reference-deviation type selects Normal/Student and the value consistently; "
            "which cofactor, which quantile and the arithmetic identities themselves are not decided",
            "static analysis: dimensional (units-of-measure) abstract interpretation over the CFG with the reference deviation as the unit; "
            "branch-polarity rule for the type selector"),
    "C20": ("index-space and sibling clauses of 'ill-posed networks are diagnosed identically': the index given to "
            "every lindep implementation is an unknown number in the space its store expects, every solver signals a "
            "bad regularisation, null_space handles exactly that exception, run counters are reset per run; the non-finite clause: every "
            "division / log / sqrt whose operand is a statistic that is legitimately zero or negative at a boundary case (dof, v'Pv, "
            "a posteriori m0, redundancy, zero distance) is guarded on every path; rank correctness is not decided",
            "static analysis: index-space qualifier inference, error-state consumption rule, abstract interpretation of may-be-zero "
            "provenance with guard recognition on the CFG"),
}


def main():
    ids = [json.loads(l)["id"] for l in open(os.path.join(HERE, "..", "properties.jsonl"))]
    claimed = [p for p in ids if p in props.PROPS]
    checks = []
    for p in claimed:
        text, tech = TEXT[p]
        checks.append({
            "property_id": p,
            "quick_cmd": "./check %s --tier quick" % p,
            "thorough_cmd": "./check %s --tier thorough" % p,
            "evidence_file": "evidence/%s.json" % p,
            "replay_cmd_template": "./check %s --replay {path}" % p,
            "engine": "gamafacts+rules",
            "level_claimed": {
                "category": "other",
                "text": "static rules over facts exported from the current sources (clang 14 AST + CFG, templates "
                        "instantiated) decide " + text + ". thorough additionally validates the checker on seeded "
                        "defects and benign edits applied to a scratch copy of the sources (parsed, never run).",
                "design_ref": "DESIGN.md section 5 " + p,
            },
            "level_note": "trusted: clang 14 front end and CFG construction; the frozen role/verdict tables in "
                          "sa/tables (each entry read and justified); for XML vocabulary the .xsd files; expat's "
                          "well-nestedness guarantee. Clauses, not run-time behaviour, are decided.",
            "technique": tech,
        })
    na = [{"property_id": k, "reason": v} for k, v in NA.items()]
    for p in ids:
        if p not in claimed and p not in NA:
            na.append({"property_id": p, "reason": PENDING})
    m = {
        "version": 1,
        "setup_cmd": "make -C /verif/sa",
        "hooks": {
            "guard": "GAMA_VERIF",
            "enable": "none needed: the checks parse /repo's sources with clang and instrument nothing",
            "baseline_off_cmd": "cmake --build /repo/_build -j16 && ctest --test-dir /repo/_build -j8 --timeout 900",
            "source_commits": [],
            "add_only": True,
        },
        "engines": [{
            "name": "gamafacts+rules", "path": "sa/", "serves_properties": claimed,
            "kind_free_text": "libTooling fact exporter (typed AST + clang CFG of every function of the build, template "
                              "instantiations included, 93 translation units derived from CMakeLists.txt) and Python "
                              "rule engines over the exported facts; exit 0 holds / 1 VIOLATION / 2 analysis broken",
        }],
        "checks": checks,
        "not_applicable": sorted(na, key=lambda x: x["property_id"]),
        "notes": "All checks are static (nothing of gama is executed). Known/fixed findings: known_findings.txt; "
                 "design, per-property clauses and what is not decided: DESIGN.md.",
    }
    json.dump(m, open(os.path.join(HERE, "..", "MANIFEST.json"), "w"), indent=1)
    print("claimed:", claimed)


if __name__ == "__main__":
    main()
