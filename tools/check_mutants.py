#!/usr/bin/env python3
"""List mutants whose edit anchors no longer occur exactly once in /repo (fast, no export)."""
import glob, json, os, sys
root = sys.argv[1] if len(sys.argv) > 1 else "/repo"
bad = 0
for p in sorted(glob.glob("/verif/sa/mutants/*/*.json")):
    m = json.load(open(p))
    for e in m["edits"]:
        f = os.path.join(root, e["file"])
        n = open(f, errors="surrogateescape").read().count(e["old"]) if os.path.exists(f) else -1
        if n != 1:
            bad += 1
            print("STALE %-60s %s occurs %d" % (os.path.relpath(p, "/verif/sa/mutants"), e["file"], n))
print("stale edits:", bad)
