#!/usr/bin/env python3
"""run_mutant.py <sa/mutants/x/y.json>... : apply one mutant to a scratch copy, run the rule lists of the
properties it names, print the new BAD keys (development aid; the thorough tier does the same for all)."""
import json, os, shutil, sys
sys.path.insert(0, os.path.join(os.path.dirname(os.path.abspath(__file__)), "..", "sa"))
import mutants, props, facts as F
for path in sys.argv[1:]:
    m = json.load(open(path))
    for prop in m["properties"]:
        if prop not in props.PROPS:
            continue
        spec = props.PROPS[prop]
        tmp = mutants.make_scratch("/repo")
        try:
            err = mutants.apply_edits(tmp, m)
            if err:
                print(path, prop, "STALE", err); continue
            base, _ = mutants.run_rules("/repo", prop, spec)
            try:
                bad, n = mutants.run_rules(tmp, prop, spec)
            except F.AnalysisBroken as e:
                print(path, prop, "BROKEN" + (" (expected)" if m.get("expect_broken") else ""), e); continue
            new = sorted(bad - base)
            missing = [e for e in m.get("expect", []) if not any(e in k for k in new)]
            verdict = ("FALSE-ALARM" if new else "ok-silent") if m.get("benign") else ("MISSED" if missing or not new else "ok-detected")
            print(path, prop, verdict, new[:6])
        finally:
            shutil.rmtree(tmp, ignore_errors=True)
