#!/usr/bin/env python3-vt
import json, sys, glob, jsonschema
m = json.load(open('/verif/MANIFEST.json'))
jsonschema.validate(m, json.load(open('/root/.vp/MANIFEST.schema.json')))
es = json.load(open('/root/.vp/EVIDENCE.schema.json'))
for c in m['checks']:
    try:
        jsonschema.validate(json.load(open('/verif/' + c['evidence_file'])), es)
    except Exception as e:
        print('EVIDENCE INVALID', c['property_id'], str(e)[:300])
props = [json.loads(l)['id'] for l in open('/verif/properties.jsonl')]
claimed = {c['property_id'] for c in m['checks']}
na = {n['property_id'] for n in m.get('not_applicable', [])}
for p in props:
    if (p in claimed) == (p in na):
        print('property', p, 'claimed' if p in claimed else 'missing', 'and' if p in na else '', 'n/a' if p in na else '')
print('manifest ok: claimed', sorted(claimed))
