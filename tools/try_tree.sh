#!/bin/bash
# try_tree.sh <root> : run every claimed property's quick check against a source tree and list exit codes
ROOT=${1:-/repo}
cd /verif
for p in $(python3 -c "import json;print(' '.join(c['property_id'] for c in json.load(open('/verif/MANIFEST.json'))['checks']))"); do
  out=$(./check $p --root $ROOT 2>&1); rc=$?
  if [ $rc -eq 0 ]; then echo "$p rc=0"; else echo "$p rc=$rc"; echo "$out" | grep -E "ANALYSIS-BROKEN|^  R-|^  [A-Z]" | cut -c1-300 | head -6; fi
done
