#!/bin/bash
# sweep_seeded.sh : run the seeded property's quick check against every seeded change (scratch copy), table to stdout
cd /verif
for d in seeded/C*; do
  id=$(basename $d); prop=${id%%-*}
  exp=$(python3 -c "import json;print(json.load(open('$d/meta.json')).get('lead_confirmation',{}).get('detected_by_check'))")
  out=$(tools/try_patch.sh $d/patch.diff $prop 2>&1 | head -4 | tr '\n' ' ' | cut -c1-160)
  echo "$id expected_detected=$exp :: $out"
done
