#!/bin/bash
# confirm_seed.sh <Cxx> [<tag>] : confirm a seeded change delivered in /tmp/seed/<Cxx>.out against the
# scratch worktree /tmp/seed/<Cxx> (patch applied there) and the clean /repo, run the property's check
# on it, and keep it under /verif/seeded/<tag>.
P=$1; TAG=${2:-$P}
SD=${SEEDDIR:-/tmp/seed}
W=$SD/$P; O=$SD/$P.out
[ -f $O/patch.diff ] || { echo "no patch in $O"; exit 2; }
cd $W || exit 2
# the worktree must contain exactly the patch
git -C $W diff > $SD/$P.current.diff
if ! diff -q <(grep '^[-+]' $O/patch.diff | grep -v '^[-+][-+]') <(grep '^[-+]' $SD/$P.current.diff | grep -v '^[-+][-+]') >/dev/null; then
  echo "worktree differs from patch.diff: resetting worktree to patch"; git -C $W checkout -- . ; git -C $W apply $O/patch.diff || { echo "patch does not apply"; exit 2; }
fi
[ -d $W/_build ] || cmake -G Ninja -S $W -B $W/_build -DCMAKE_BUILD_TYPE=RelWithDebInfo >/dev/null
cmake --build $W/_build -j16 > $SD/$P.build.log 2>&1 || { tail -5 $SD/$P.build.log; echo "BUILD FAILED"; exit 2; }
echo "--- test suite with the change"
ctest --test-dir $W/_build -j8 --timeout 900 --output-junit $SD/$P.junit.xml > $SD/$P.ctest.log 2>&1 || \
ctest --test-dir $W/_build -j1 --timeout 900 --output-junit $SD/$P.junit.xml > $SD/$P.ctest.log 2>&1
python3 - $P $SD/$P.junit.xml <<'PY'
import json, sys, xml.etree.ElementTree as ET
stable = {s.split('::')[0] for s in json.load(open('/root/.vp/BASELINE.json'))['stable_pass']}
res = {}
for tc in ET.parse(sys.argv[2]).getroot().iter('testcase'):
    res[tc.get('name')] = tc.get('status') == 'run' and tc.find('failure') is None
bad = sorted(n for n in stable if not res.get(n, False))
print("stable tests passing with the change: %d/%d" % (len(stable)-len(bad), len(stable)), bad[:5])
sys.exit(1 if bad else 0)
PY
SUITE=$?
echo "--- demo on the changed tree (expect non-zero)"
bash $O/run_demo.sh $W > $SD/$P.demo_changed.log 2>&1; D1=$?; tail -3 $SD/$P.demo_changed.log
echo "--- demo on clean /repo (expect 0)"
bash $O/run_demo.sh /repo > $SD/$P.demo_clean.log 2>&1; D0=$?; tail -2 $SD/$P.demo_clean.log
echo "suite_ok=$((1-SUITE)) demo_changed_rc=$D1 demo_clean_rc=$D0"
echo "--- ./check $P on the changed tree"
cd /verif && ./check $P --root $W > $SD/$P.check.log 2>&1; C=$?
grep -E "VIOLATION|ANALYSIS-BROKEN|KNOWN" $SD/$P.check.log | cut -c1-200 | head -5
grep -B1 "^VIOLATION" $SD/$P.check.log | grep -v "^VIOLATION\|^--" | cut -c1-260 | head -4
echo "check_rc=$C"
if [ $SUITE -eq 0 ] && [ $D1 -ne 0 ] && [ $D0 -eq 0 ]; then
  mkdir -p /verif/seeded/$TAG && cp -r $O/* /verif/seeded/$TAG/ && rm -rf /verif/seeded/$TAG/_build /verif/seeded/$TAG/*.o 2>/dev/null
  echo "CONFIRMED -> /verif/seeded/$TAG (check_rc=$C)"
else
  echo "NOT CONFIRMED"
fi
