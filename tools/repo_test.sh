#!/bin/sh
# Build /repo (or $1) with the pinned configuration and run its test suite.
# A first failing run is repeated once: a few tests read files other tests write.
R=${1:-/repo}
cmake --build $R/_build -j16 > /tmp/repo_build.log 2>&1 || { tail -20 /tmp/repo_build.log; echo BUILD-FAILED; exit 1; }
ctest --test-dir $R/_build -j8 --timeout 900 > /tmp/repo_ctest.log 2>&1 || \
ctest --test-dir $R/_build -j8 --timeout 900 > /tmp/repo_ctest.log 2>&1
grep -E "tests passed|tests failed" /tmp/repo_ctest.log
grep -E "\(Failed\)|\(Timeout\)" /tmp/repo_ctest.log | head
grep -q "100% tests passed" /tmp/repo_ctest.log
