#!/bin/sh
# Build /repo (or $1) with the pinned configuration and run its test suite;
# succeed iff every test of BASELINE.json's stable_pass list passes.
R=${1:-/repo}
cmake --build $R/_build -j16 > /tmp/repo_build.log 2>&1 || { tail -20 /tmp/repo_build.log; echo BUILD-FAILED; exit 1; }
ctest --test-dir $R/_build -j8 --timeout 900 --output-junit /tmp/repo_junit.xml > /tmp/repo_ctest.log 2>&1 || \
ctest --test-dir $R/_build -j1 --timeout 900 --output-junit /tmp/repo_junit.xml > /tmp/repo_ctest.log 2>&1  # the suite has order races under -j
grep -E "tests passed|tests failed" /tmp/repo_ctest.log
python3 - <<'PY'
import json, sys, xml.etree.ElementTree as ET
stable = {s.split('::')[0] for s in json.load(open('/root/.vp/BASELINE.json'))['stable_pass']}
res = {}
for tc in ET.parse('/tmp/repo_junit.xml').getroot().iter('testcase'):
    res[tc.get('name')] = tc.get('status') == 'run' and tc.find('failure') is None
bad = sorted(n for n in stable if not res.get(n, False))
print("stable tests: %d, passing: %d" % (len(stable), len(stable) - len(bad)))
for b in bad[:20]: print("  STABLE TEST FAILED:", b)
sys.exit(1 if bad else 0)
PY
