// Driver translation unit: explicit instantiation of gama's header-only class
// templates so that members no executable happens to use are analysed too.
// Compiled (front end only) against /repo's *current* headers on every run;
// if it stops compiling the check exits 2 (analysis broken).

#include <matvec/matvec.h>
#include <matvec/svd.h>
#include <matvec/pinv.h>
#include <matvec/gso.h>
#include <matvec/covmat.h>
#include <matvec/bandmat.h>
#include <matvec/symmat.h>
#include <matvec/choldec.h>
#include <matvec/array.h>
#include <matvec/sortvec.h>
#include <gnu_gama/adj/adj.h>
#include <gnu_gama/adj/adj_envelope.h>
#include <gnu_gama/adj/adj_chol.h>
#include <gnu_gama/adj/adj_gso.h>
#include <gnu_gama/adj/adj_svd.h>
#include <gnu_gama/adj/envelope.h>
#include <gnu_gama/adj/homogenization.h>
#include <gnu_gama/sparse/smatrix.h>
#include <gnu_gama/sparse/smatrix_graph.h>
#include <gnu_gama/sparse/smatrix_ordering.h>
#include <gnu_gama/sparse/sbdiagonal.h>
#include <gnu_gama/sparse/svector.h>
#include <gnu_gama/sparse/intlist.h>
#include <gnu_gama/movetofront.h>

namespace GNU_gama {
  typedef Exception::matvec E_;
  template class MemRep<double, int, E_>;
  template class MatVecBase<double, int, E_>;
  template class MatBase<double, int, E_>;
  template class VecBase<double, int, E_>;
  template class Vec<double, int, E_>;
  template class Mat<double, int, E_>;
  template class SymMat<double, int, E_>;
  template class CovMat<double, int, E_>;
  template class BandMat<double, int, E_>;
  template class SVD<double, int, E_>;
  template class GSO<double, int, E_>;
  template class Array<int, int, E_>;

  template class AdjEnvelope<double, int, E_>;
  template class AdjCholDec<double, int, E_>;
  template class AdjGSO<double, int, E_>;
  template class AdjSVD<double, int, E_>;
  template class Envelope<double, int>;
  template class Homogenization<double, int>;
  template class SparseMatrix<double, int>;
  template class SparseVector<double, int>;
  template class BlockDiagonal<double, int>;
  template class UpperBlockDiagonal<double, int>;
  template class IntegerList<int>;
  template class Adjacency<int>;
  template class SparseMatrixGraph<double, int>;
  template class SparseMatrixOrdering<int>;
  template class ReverseCuthillMcKee<int>;
  template class MoveToFront<3, int, int>;
}

// free function templates: referenced so that they are instantiated
namespace {
  using namespace GNU_gama;
  void use_free_templates()
  {
    Mat<> A(2,2), B(2,2); Vec<> u(2), v(2);
    SymMat<> S(2); CovMat<> C(2,1); BandMat<> Bm(2,1);
    Mat<> M1 = A*B;  Vec<> w1 = A*v;  Mat<> T1 = trans(A);
    Mat<> M2 = A+B;  Mat<> M3 = A-B;  Vec<> w2 = u+v; Vec<> w3 = u-v;
    double d = trans(u)*v; (void)d;
    Mat<> M4 = inv(A); Mat<> M5 = pinv(A);
    Vec<> w4 = S*v; Vec<> w5 = C*v; Vec<> w6 = Bm*v;
    Mat<> M6 = S*A; Mat<> M7 = A*S;
    SymMat<> S2 = S+S; SymMat<> S3 = S-S;
    Mat<> M8 = trans(A)*B; Mat<> M9 = A*trans(B); Vec<> w7 = trans(A)*v;
    (void)M1;(void)w1;(void)T1;(void)M2;(void)M3;(void)w2;(void)w3;(void)M4;(void)M5;
    (void)w4;(void)w5;(void)w6;(void)M6;(void)M7;(void)S2;(void)S3;(void)M8;(void)M9;(void)w7;
  }
}

// ---- added for R-DIM / R-PAIR (task dim): operators and members nobody in the build instantiates
#include <gnu_gama/adj/icgs.h>
namespace GNU_gama {
  typedef Mat<double, int, E_>      M_;
  typedef MatBase<double, int, E_>  MB_;
  typedef Vec<double, int, E_>      V_;
  typedef SymMat<double, int, E_>   S_;
  typedef TransMat<double, int, E_> TM_;
  typedef TransVec<double, int, E_> TV_;
  template class TransVec<double, int, E_>;
  template TM_ TM_::operator+(const TM_&) const;
  template TM_ TM_::operator-(const TM_&) const;
  template M_  operator+ <double, int, E_>(const MB_&, const MB_&);
  template M_  operator- <double, int, E_>(const MB_&, const MB_&);
  template S_  operator+ <double, int, E_>(const S_&, const S_&);
  template S_  operator- <double, int, E_>(const S_&, const S_&);
  template S_& operator+=<double, int, E_>(S_&, const S_&);
  template S_& operator-=<double, int, E_>(S_&, const S_&);
  template S_  operator* <double, int, E_>(const S_&, const S_&);
  template M_  operator+ <double, int, E_>(const M_&, const TM_&);
  template M_  operator- <double, int, E_>(const M_&, const TM_&);
  template M_  operator+ <double, int, E_>(const TM_&, const M_&);
  template M_  operator- <double, int, E_>(const TM_&, const M_&);
  template TV_ operator* <double, int, E_>(const V_&, const TM_&);
  template M_  operator* <double, int, E_>(const TM_&, const TM_&);
  template M_  trans     <double, int, E_>(const TM_&);
  template TV_ operator* <double, int, E_>(const TV_&, const MB_&);
  template TV_ operator* <double, int, E_>(const TV_&, const M_&);
  template std::istream& operator>> <double, int, E_>(std::istream&, VecBase<double, int, E_>&);
  template void ICGS::reset<M_>(const M_&, int, int);
  template void ICGS::getMat<M_>(M_&) const;
}
