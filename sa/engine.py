"""Check driver core: rule context, instance bookkeeping, known findings, evidence, exit codes."""
import json
import os
import re
import sys
import time

import facts as F

HERE = os.path.dirname(os.path.abspath(__file__))
VERIF = os.path.dirname(HERE)
TABLES = os.path.join(HERE, "tables")
KNOWN_FILE = os.path.join(VERIF, "known_findings.txt")
EVIDENCE_DIR = os.path.join(VERIF, "evidence")
REPLAY_DIR = os.path.join(EVIDENCE_DIR, "replay")


def load_table(name):
    with open(os.path.join(TABLES, name)) as fh:
        return json.load(fh)


def jsonable(x, depth=0):
    """Details handed to the evidence writer by rules may contain tuples as keys, sets or fact objects."""
    if depth > 8:
        return str(x)
    if isinstance(x, dict):
        return {str(k): jsonable(v, depth + 1) for k, v in x.items()}
    if isinstance(x, (list, tuple, set, frozenset)):
        seq = list(x)
        if isinstance(x, (set, frozenset)):
            seq = sorted(seq, key=str)
        return [jsonable(v, depth + 1) for v in seq]
    if isinstance(x, (str, int, float, bool)) or x is None:
        return x
    return str(getattr(x, "key", x))


class Instance:
    __slots__ = ("rule", "key", "ok", "where", "fn", "msg", "detail")

    def __init__(self, rule, key, ok, where="", fn="", msg="", detail=None):
        self.rule, self.key, self.ok = rule, key, ok
        self.where, self.fn, self.msg, self.detail = where, fn, msg, detail

    def to_json(self):
        d = {"rule": self.rule, "key": self.key, "ok": self.ok, "where": self.where}
        if self.fn:
            d["function"] = self.fn
        if self.msg:
            d["message"] = self.msg
        if self.detail is not None:
            d["detail"] = jsonable(self.detail)
        return d


class Ctx:
    """What a rule sees: the fact base, the root being analysed, and a sink for instances."""

    def __init__(self, facts, root, prop, tier="quick"):
        self.facts = facts
        self.root = root
        self.prop = prop
        self.tier = tier
        self.instances = []
        self.counts = {}      # rule -> instances evaluated
        self.floors = {}      # rule -> (minimum, measured)
        self.notes = []
        self.analysed_functions = set()

    # -- reporting
    def ok(self, rule, key, where="", fn="", msg="", detail=None):
        self.instances.append(Instance(rule, "%s:%s" % (rule, key), True, where, fn, msg, detail))

    def bad(self, rule, key, where="", fn="", msg="", detail=None):
        self.instances.append(Instance(rule, "%s:%s" % (rule, key), False, where, fn, msg, detail))

    def report(self, rule, key, ok, where="", fn="", msg="", detail=None):
        (self.ok if ok else self.bad)(rule, key, where, fn, msg, detail)

    def floor(self, rule, minimum, measured, what):
        """A rule that matches fewer instances than were confirmed by hand is broken (exit 2)."""
        self.floors[rule + ":" + what] = (minimum, measured)
        if measured < minimum:
            raise F.AnalysisBroken("%s: only %d %s found, floor confirmed by hand is %d"
                                   % (rule, measured, what, minimum))

    def saw(self, fn):
        self.analysed_functions.add(fn.key if hasattr(fn, "key") else str(fn))

    def note(self, text):
        self.notes.append(text)

    def run_rule(self, rule):
        """Run one rule; a rule whose analysis breaks (vanished anchor, floor, unmodelled construct) does not
        stop the others - what the other rules report stays valid.  Returns the rule's extra dict or None."""
        try:
            return rule(self)
        except F.AnalysisBroken as e:
            if not hasattr(self, "broken"):
                self.broken = []
            self.broken.append("%s: %s" % (getattr(rule, "__name__", "rule"), e))
            return None


# --------------------------------------------------------------------------- known findings

def load_known(prop):
    """known_findings.txt lines:
         known: property=<id> key=<instance key> -- <what fails>
         fixed: property=<id> <commit> key=<instance key> -- <what failed>
       Only `known:` lines suppress; `fixed:` lines are documentation."""
    known = {}
    if not os.path.exists(KNOWN_FILE):
        return known
    for line in open(KNOWN_FILE):
        line = line.strip()
        if not line.startswith("known:"):
            continue
        m = re.match(r"known:\s+property=(\S+)\s+key=(\S+)\s+--\s+(.*)$", line)
        if not m:
            continue
        if m.group(1) == prop:
            known[m.group(2)] = m.group(3)
        elif m.group(2) not in known:
            # recorded under another property: the same instance seen through the anchor view
            known[m.group(2)] = "(recorded under %s) %s" % (m.group(1), m.group(3))
    return known


# --------------------------------------------------------------------------- run

def write_evidence(prop, tier, ctx, violations, known_hits, wall, explanation, extra=None,
                   level="other"):
    os.makedirs(EVIDENCE_DIR, exist_ok=True)
    insts = ctx.instances
    keys = sorted({i.key for i in insts})
    by_rule = {}
    for i in insts:
        by_rule.setdefault(i.rule, []).append(i)
    samples = []
    for r, lst in sorted(by_rule.items()):
        for i in lst[:3]:
            samples.append(i.to_json())
    # always show the violating / known instances as samples too
    for i in insts:
        if not i.ok and len(samples) < 60:
            j = i.to_json()
            if j not in samples:
                samples.append(j)
    cov = {
        "evaluations": len(insts),
        "distinct_nontrivial": len(keys),
        "rule": "one evaluation = one rule instance (a function, call site, field, state or table "
                "entry the rule has an obligation on), enumerated from facts exported from the current "
                "sources; distinct = distinct semantic instance keys; instances with an empty obligation "
                "are not recorded",
        "samples": samples,
        "obligations": len(insts),
        "discharged": sum(1 for i in insts if i.ok),
        "known_findings": len(known_hits),
        "explanation": explanation,
        "rules": {r: {"instances": len(lst), "holding": sum(1 for i in lst if i.ok)}
                  for r, lst in sorted(by_rule.items())},
        "floors": {k: {"minimum": v[0], "measured": v[1]} for k, v in sorted(ctx.floors.items())},
        "units_analysed": len(ctx.facts.units) if ctx.facts else 0,
        "functions_in_fact_base": len(ctx.facts.functions) if ctx.facts else 0,
        "functions_analysed_by_rules": len(ctx.analysed_functions),
        "checker_cmd": "./check %s --tier %s" % (prop, tier),
        "trusted_base": ["clang 14 front end (AST, template instantiation, CFG construction)",
                         "the frozen role/verdict tables under /verif/sa/tables",
                         "xml/*.xsd as the documented grammar",
                         "/verif/sa rule engines (validated against seeded mutants in the thorough tier)"],
        "exhaustive": True,
        "notes": ctx.notes,
    }
    if extra:
        cov.update(jsonable(extra))
    ev = {
        "property_id": prop,
        "tier": tier,
        "seed": int(os.environ.get("VERIF_SEED", "0") or 0),
        "level": level,
        "coverage": cov,
        "assumptions": [
            "the clause decided is a structural necessary condition of the property, not the behaviour itself",
            "path rules are intra-procedural over the clang CFG; calls are followed through resolved callees "
            "inside the class, its bases and member sub-objects",
            "exception edges are not modelled (AddEHEdges off); a throwing path ends at the CFG exit",
        ],
        "wall_s": round(wall, 2),
        "violations": len(violations),
    }
    path = os.path.join(EVIDENCE_DIR, "%s.json" % prop)
    with open(path, "w") as fh:
        json.dump(ev, fh, indent=1, sort_keys=True)
    return path


def finish(prop, tier, ctx, t0, explanation, extra=None, replay_key=None):
    """Print the verdict lines, write evidence and replay files, return the exit code."""
    known = load_known(prop)
    violations, known_hits = [], []
    for i in ctx.instances:
        if i.ok:
            continue
        if replay_key is not None and i.key != replay_key:
            continue
        if i.key in known:
            known_hits.append(i)
        else:
            violations.append(i)
    # de-duplicate by key (one report per instance)
    seen = set()
    uniq = []
    for v in violations:
        if v.key not in seen:
            seen.add(v.key)
            uniq.append(v)
    violations = uniq
    seen = set()
    for k in known_hits:
        if k.key in seen:
            continue
        seen.add(k.key)
        print("KNOWN-FINDING: property=%s %s at %s: %s" % (prop, k.key, k.where, known[k.key]))
    stale = [k for k in known if not known[k].startswith("(recorded under") and k not in {i.key for i in ctx.instances if not i.ok}]
    for k in stale:
        print("note: known finding %s is no longer reported by its rule (repaired or instance gone)" % k)
    ev = write_evidence(prop, tier, ctx, violations, known_hits, time.time() - t0, explanation, extra)
    by_rule = {}
    for i in ctx.instances:
        by_rule.setdefault(i.rule, [0, 0])
        by_rule[i.rule][0] += 1
        by_rule[i.rule][1] += 1 if i.ok else 0
    for r, (n, okn) in sorted(by_rule.items()):
        print("rule %-10s instances=%-4d holding=%-4d" % (r, n, okn))
    print("analysed: %d units, %d functions in fact base, %d functions used by rules; evidence %s"
          % (len(ctx.facts.units) if ctx.facts else 0,
             len(ctx.facts.functions) if ctx.facts else 0, len(ctx.analysed_functions), ev))
    if violations:
        os.makedirs(REPLAY_DIR, exist_ok=True)
        for n, v in enumerate(violations):
            path = os.path.join(REPLAY_DIR, "%s-%d.json" % (prop, n))
            with open(path, "w") as fh:
                json.dump({"property": prop, "instance": v.to_json()}, fh, indent=1)
            print("  %s  %s  %s" % (v.key, v.where, v.msg))
            print("VIOLATION property=%s replay=%s" % (prop, path))
        return 1
    return 0
