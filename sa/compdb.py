"""Derive the list of translation units of the pinned build from CMakeLists.txt.

The list is recomputed on every run from the *current* CMakeLists.txt of the
analysed root, so a source added to the build is analysed and one removed from it
is not.  When <root>/_build/build.ninja exists the result is cross-checked against
`ninja -t compdb` and differences are returned for printing.
"""
import json
import os
import re
import subprocess

FLAGS = ["-std=gnu++14", "-UNDEBUG", "-Wno-everything"]


def _set_block(text, name):
    m = re.search(r"set\s*\(\s*%s\b(.*?)\)" % re.escape(name), text, re.S)
    if not m:
        return []
    body = re.sub(r"#.*", "", m.group(1))
    return body.split()


def translation_units(root):
    """root-relative .cpp files compiled by the pinned CMake build (lib + executables)."""
    path = os.path.join(root, "CMakeLists.txt")
    text = open(path, encoding="utf-8", errors="replace").read()
    units = []
    for f in _set_block(text, "SRC_GAMA"):
        if f.endswith(".cpp") and not f.startswith(("lib/expat", "lib/yaml-cpp")):
            units.append(f)
    for m in re.finditer(r"add_executable\s*\(\s*(\S+)(.*?)\)", text, re.S):
        name = m.group(1)
        if "yaml2gkf" in name:  # built only when lib/yaml-cpp exists
            if not os.path.isdir(os.path.join(root, "lib/yaml-cpp")):
                continue
        for f in m.group(2).split():
            if f.endswith(".cpp") and f not in units:
                units.append(f)
    units = [u for u in units if os.path.exists(os.path.join(root, u))]
    return units


def flags(root):
    return ["-I" + os.path.join(root, "lib")] + FLAGS


def crosscheck_ninja(root, units):
    """Return (missing_in_ours, extra_in_ours) vs ninja's database, or None."""
    bdir = os.path.join(root, "_build")
    if not os.path.exists(os.path.join(bdir, "build.ninja")):
        return None
    try:
        out = subprocess.run(["ninja", "-C", bdir, "-t", "compdb"], capture_output=True,
                             text=True, timeout=60).stdout
        db = json.loads(out)
    except Exception:
        return None
    theirs = set()
    for e in db:
        f = e["file"]
        if not f.endswith(".cpp"):
            continue
        rel = os.path.relpath(f, root)
        if rel.startswith(("lib/", "src/", "scripts/")):
            theirs.add(rel)
    ours = set(units)
    return sorted(theirs - ours), sorted(ours - theirs)


if __name__ == "__main__":
    import sys
    r = sys.argv[1] if len(sys.argv) > 1 else "/repo"
    u = translation_units(r)
    print(len(u), "units")
    print(crosscheck_ninja(r, u))
