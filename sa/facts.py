"""Fact export orchestration and loader (functions, classes, enums, AST, CFG, dominators)."""
import concurrent.futures
import json
import os
import re
import shutil
import subprocess
import tempfile

import compdb

HERE = os.path.dirname(os.path.abspath(__file__))
VERIF = os.path.dirname(HERE)
GAMAFACTS = os.path.join(VERIF, "bin", "gamafacts")
DRIVER_TU = os.path.join(HERE, "instantiate_all.cpp")


class AnalysisBroken(Exception):
    """The analysis itself cannot be trusted (exit 2): never a pass, never a violation."""


# --------------------------------------------------------------------------- names

def strip_targs(name):
    """Remove balanced <...> template argument lists: A<x, B<y>>::f -> A::f."""
    out = []
    depth = 0
    i = 0
    n = len(name)
    while i < n:
        c = name[i]
        if c == "<" and not name.startswith("operator<", max(0, i - 8), i + 1):
            depth += 1
        elif c == ">" and depth > 0:
            depth -= 1
        elif depth == 0:
            out.append(c)
        i += 1
    return "".join(out)


def short(name):
    """Drop the GNU_gama:: / local:: / g3:: namespace prefixes for display and tables."""
    s = strip_targs(name)
    s = s.replace("GNU_gama::local::", "local::").replace("GNU_gama::g3::", "g3::")
    s = s.replace("GNU_gama::", "")
    return s


# --------------------------------------------------------------------------- AST helpers

_CHILD_KEYS = ("init", "condvar", "cond", "then", "else", "inc", "body", "value", "sub",
               "rangeStmt", "beginStmt", "endStmt", "loopVar")


def children(node):
    """Direct child nodes of a simplified-AST node, in source order."""
    if node is None:
        return
    if node.get("k") == "DeclStmt":
        for d in node.get("decls", []):
            if d.get("init") is not None:
                yield d["init"]
        return
    for key in _CHILD_KEYS:
        ch = node.get(key)
        if isinstance(ch, dict):
            yield ch
    for ch in node.get("c", []) or []:
        if isinstance(ch, dict):
            yield ch


def walk(node):
    """Pre-order traversal of a subtree."""
    if node is None:
        return
    stack = [node]
    while stack:
        n = stack.pop()
        yield n
        stack.extend(reversed(list(children(n))))


def is_call(n):
    return n.get("k") in ("CallExpr", "CXXMemberCallExpr", "CXXOperatorCallExpr",
                          "CXXConstructExpr", "CXXTemporaryObjectExpr")


def call_args(n):
    """Argument nodes of a call (object of a member call excluded; for a member
    operator call the object is args[0])."""
    k = n.get("k")
    c = n.get("c", []) or []
    if k in ("CXXConstructExpr", "CXXTemporaryObjectExpr"):
        return c
    return c[1:]


def call_object(n):
    """Receiver expression of a member call, or None."""
    k = n.get("k")
    c = n.get("c", []) or []
    if k == "CXXMemberCallExpr" and c and c[0].get("k") == "MemberExpr":
        cc = c[0].get("c") or []
        return cc[0] if cc else None
    if k == "CXXOperatorCallExpr" and n.get("memberOp") and len(c) > 1:
        return c[1]
    return None


def is_this_field(n, name=None):
    """MemberExpr on (implicit or explicit) this referring to a field."""
    if n.get("k") != "MemberExpr" or n.get("mk") != "field":
        return False
    c = n.get("c") or []
    if not c or c[0].get("k") != "CXXThisExpr":
        return False
    return name is None or n.get("member") == name


def expr_text(n, depth=0):
    """Compact, position-free rendering of an expression for reports/keys."""
    if n is None:
        return ""
    if depth > 12:
        return "..."
    k = n.get("k")
    c = n.get("c") or []
    if k == "DeclRefExpr":
        return n["ref"].get("name", "?")
    if k == "MemberExpr":
        base = expr_text(c[0], depth + 1) if c else ""
        if base in ("this", ""):
            return n.get("member", "?")
        return base + ("->" if n.get("arrow") else ".") + n.get("member", "?")
    if k == "CXXThisExpr":
        return "this"
    if k in ("IntegerLiteral", "FloatingLiteral", "CXXBoolLiteralExpr", "CharacterLiteral"):
        return str(n.get("v"))
    if k == "StringLiteral":
        return json.dumps(n.get("v"))
    if k in ("BinaryOperator", "CompoundAssignOperator") and len(c) == 2:
        return "%s %s %s" % (expr_text(c[0], depth + 1), n.get("op"), expr_text(c[1], depth + 1))
    if k == "UnaryOperator" and c:
        if n.get("postfix"):
            return expr_text(c[0], depth + 1) + n.get("op", "")
        return n.get("op", "") + expr_text(c[0], depth + 1)
    if k == "CXXMemberCallExpr":
        return "%s(%s)" % (expr_text(c[0], depth + 1) if c else "?",
                           ", ".join(expr_text(a, depth + 1) for a in c[1:]))
    if k == "CXXOperatorCallExpr":
        op = n.get("op", "?")
        args = c[1:]
        if op == "()" and args:
            return "%s(%s)" % (expr_text(args[0], depth + 1),
                               ", ".join(expr_text(a, depth + 1) for a in args[1:]))
        if op == "[]" and len(args) == 2:
            return "%s[%s]" % (expr_text(args[0], depth + 1), expr_text(args[1], depth + 1))
        if len(args) == 2:
            return "%s %s %s" % (expr_text(args[0], depth + 1), op, expr_text(args[1], depth + 1))
        if len(args) == 1:
            return op + expr_text(args[0], depth + 1)
    if k == "CallExpr":
        return "%s(%s)" % (expr_text(c[0], depth + 1) if c else "?",
                           ", ".join(expr_text(a, depth + 1) for a in c[1:]))
    if k in ("CXXConstructExpr", "CXXTemporaryObjectExpr"):
        if len(c) == 1 and n.get("copyOrMove"):
            return expr_text(c[0], depth + 1)
        return "%s(%s)" % (short(n.get("ctor", "?")), ", ".join(expr_text(a, depth + 1) for a in c))
    if k == "ArraySubscriptExpr" and len(c) == 2:
        return "%s[%s]" % (expr_text(c[0], depth + 1), expr_text(c[1], depth + 1))
    if k == "ConditionalOperator" and len(c) == 3:
        return "%s ? %s : %s" % tuple(expr_text(x, depth + 1) for x in c)
    if k in ("CXXStaticCastExpr", "CStyleCastExpr", "CXXFunctionalCastExpr", "ImplicitCastExpr",
             "CXXReinterpretCastExpr", "CXXConstCastExpr", "CXXDynamicCastExpr"):
        inner = expr_text(c[0], depth + 1) if c else ""
        if k == "ImplicitCastExpr":
            return inner
        return "(%s)%s" % (n.get("castTo", n.get("t", "")), inner)
    if c:
        return "%s(%s)" % (k, ", ".join(expr_text(x, depth + 1) for x in c))
    return k or "?"


# --------------------------------------------------------------------------- function wrapper

class Fn:
    """One exported function: AST index, CFG, dominators."""

    def __init__(self, rec):
        self.rec = rec
        self.key = rec["key"]
        self.qn = strip_targs(rec["qn"])
        self.name = rec["name"]
        self.cls = rec.get("class")
        self.file = rec["file"]
        self.line = rec["line"]
        self.body = rec.get("body")
        self.params = rec.get("params", [])
        self._nodes = None
        self._parent = None
        self._cfg = None

    # -- naming
    @property
    def short(self):
        return short(self.rec["qn"])

    @property
    def sig(self):
        """short qualified name plus parameter types; the stable instance-key part."""
        return short(self.key)

    def where(self, node=None):
        if node is not None and node.get("line"):
            return "%s:%d" % (self.file, node["line"])
        return "%s:%d" % (self.file, self.line)

    # -- AST index
    def _index(self):
        self._nodes = {}
        self._parent = {}
        roots = []
        if self.body is not None:
            roots.append(self.body)
        for init in self.rec.get("inits", []) or []:
            if init.get("init") is not None:
                roots.append(init["init"])
        for r in roots:
            stack = [(r, None)]
            while stack:
                n, p = stack.pop()
                self._nodes[n["id"]] = n
                self._parent[n["id"]] = p
                for ch in children(n):
                    stack.append((ch, n["id"]))

    @property
    def nodes(self):
        if self._nodes is None:
            self._index()
        return self._nodes

    def parent(self, node):
        if self._parent is None:
            self._index()
        p = self._parent.get(node["id"])
        return self.nodes.get(p) if p is not None else None

    def ancestors(self, node):
        p = self.parent(node)
        while p is not None:
            yield p
            p = self.parent(p)

    def walk(self):
        if self.body is not None:
            yield from walk(self.body)
        for init in self.rec.get("inits", []) or []:
            yield from walk(init.get("init"))

    def calls(self):
        for n in self.walk():
            if is_call(n):
                yield n

    # -- CFG
    @property
    def cfg(self):
        if self._cfg is None:
            self._cfg = CFG(self)
        return self._cfg


class CFG:
    """clang CFG of a function with dominator / post-dominator queries on AST node ids."""

    def __init__(self, fn):
        raw = fn.rec.get("cfg")
        if not raw:
            raise AnalysisBroken("no CFG for %s" % fn.key)
        self.fn = fn
        self.entry = raw["entry"]
        self.exit = raw["exit"]
        self.blocks = {b["id"]: b for b in raw["blocks"]}
        self.succ = {}
        self.pred = {b: [] for b in self.blocks}
        for bid, b in self.blocks.items():
            ss = []
            for s in b.get("succ", []):
                if s is None or s < 0:
                    continue  # edge pruned by a constant condition
                ss.append(s)
            self.succ[bid] = ss
        for b, ss in self.succ.items():
            for s in ss:
                self.pred[s].append(b)
        # node id -> (block, position)
        self.pos = {}
        for bid, b in self.blocks.items():
            for i, e in enumerate(b.get("el", [])):
                if isinstance(e, int) and e not in self.pos:
                    self.pos[e] = (bid, i)
        self.reach = self._reachable(self.entry, self.succ)
        self._dom = None
        self._pdom = None

    @staticmethod
    def _reachable(start, edges):
        seen = {start}
        stack = [start]
        while stack:
            b = stack.pop()
            for s in edges.get(b, []):
                if s not in seen:
                    seen.add(s)
                    stack.append(s)
        return seen

    @staticmethod
    def _dominators(start, nodes, pred):
        nodes = list(nodes)
        full = set(nodes)
        dom = {n: set(full) for n in nodes}
        dom[start] = {start}
        changed = True
        while changed:
            changed = False
            for n in nodes:
                if n == start:
                    continue
                ps = [p for p in pred.get(n, []) if p in full]
                if ps:
                    new = set.intersection(*(dom[p] for p in ps)) | {n}
                else:
                    new = {n}
                if new != dom[n]:
                    dom[n] = new
                    changed = True
        return dom

    @property
    def dom(self):
        if self._dom is None:
            self._dom = self._dominators(self.entry, self.reach, self.pred)
        return self._dom

    @property
    def pdom(self):
        """Post-dominators w.r.t. the exit block (throwing paths go to exit in clang's CFG)."""
        if self._pdom is None:
            back = self._reachable(self.exit, self.pred)
            self._pdom = self._dominators(self.exit, back, self.succ)
        return self._pdom

    def block_of(self, node):
        """Block/position of an AST node; falls back to the nearest ancestor or first
        descendant that the CFG lists (statements like CompoundStmt are not elements)."""
        nid = node["id"] if isinstance(node, dict) else node
        if nid in self.pos:
            return self.pos[nid]
        n = self.fn.nodes.get(nid)
        if n is not None:
            for d in walk(n):
                if d["id"] in self.pos:
                    return self.pos[d["id"]]
        return None

    def dominates(self, a, b):
        """AST node a is executed on every path from entry to node b (strictly before it)."""
        pa, pb = self.block_of(a), self.block_of(b)
        if pa is None or pb is None:
            return False
        if pa[0] == pb[0]:
            return pa[1] < pb[1]
        return pb[0] in self.dom and pa[0] in self.dom[pb[0]]

    def postdominates(self, a, b):
        """Every path from node b to the exit passes node a (after b)."""
        pa, pb = self.block_of(a), self.block_of(b)
        if pa is None or pb is None:
            return False
        if pa[0] == pb[0]:
            return pa[1] > pb[1]
        return pb[0] in self.pdom and pa[0] in self.pdom[pb[0]]

    def reachable_blocks_from(self, bid):
        return self._reachable(bid, self.succ)

    def paths_avoiding(self, src_block, avoid_blocks, targets):
        """True if some target block is reachable from src_block without entering avoid_blocks."""
        seen = set()
        stack = [src_block]
        while stack:
            b = stack.pop()
            if b in seen or b in avoid_blocks:
                continue
            seen.add(b)
            if b in targets:
                return True
            stack.extend(self.succ.get(b, []))
        return False


# --------------------------------------------------------------------------- fact base

class Facts:
    def __init__(self):
        self.functions = {}     # key -> Fn
        self.by_qn = {}         # stripped qualified name -> [Fn]
        self.classes = {}       # stripped qualified name -> class record (first seen; inst preferred)
        self.class_insts = {}   # qnt -> class record
        self.enums = {}         # stripped qn -> enum record
        self.globals = {}       # qn -> record
        self.units = []         # translation units analysed
        self.root = None

    def add(self, data):
        for rec in data.get("functions", []):
            k = rec["key"]
            old = self.functions.get(k)
            if old is not None:
                if old.file == rec["file"]:
                    continue            # the same (header) definition seen from another unit
                # a different function with the same signature (main, file-local helpers)
                k = "%s@%s" % (k, rec["file"])
                if k in self.functions:
                    continue
            fn = Fn(rec)
            fn.ukey = k
            self.functions[k] = fn
            self.by_qn.setdefault(fn.qn, []).append(fn)
        for rec in data.get("classes", []):
            self.class_insts.setdefault(rec["qnt"], rec)
            q = strip_targs(rec["qn"])
            old = self.classes.get(q)
            if old is None or (rec.get("inst") and not old.get("inst")):
                self.classes[q] = rec
        for rec in data.get("enums", []):
            self.enums.setdefault(strip_targs(rec["qn"]), rec)
        for rec in data.get("globals", []):
            self.globals.setdefault(rec["qn"], rec)

    # -- lookups
    def fns(self, qn):
        """Functions by template-stripped qualified name (with or without GNU_gama:: prefix)."""
        r = self.by_qn.get(qn)
        if r is None and not qn.startswith("GNU_gama::"):
            r = self.by_qn.get("GNU_gama::" + qn)
        return r or []

    def fn(self, qn, nparams=None, file=None):
        """Exactly one function by stripped qualified name (optionally by arity / defining file);
        exit 2 if absent."""
        c = self.fns(qn)
        if nparams is not None:
            c = [f for f in c if len(f.params) == nparams]
        if file is not None:
            c = [f for f in c if f.file == file]
        if not c:
            raise AnalysisBroken("anchor function %s%s not found in the analysed sources"
                                 % (qn, "" if nparams is None else "/%d" % nparams))
        return c[0]

    def methods_of(self, cls):
        """All exported functions whose class (template-stripped) is cls."""
        if not cls.startswith("GNU_gama::"):
            cls = "GNU_gama::" + cls
        return [f for f in self.functions.values() if f.cls and strip_targs(f.cls) == cls]

    def cls(self, qn):
        r = self.classes.get(qn) or self.classes.get("GNU_gama::" + qn)
        if r is None:
            raise AnalysisBroken("anchor class %s not found in the analysed sources" % qn)
        return r

    def bases_of(self, qn, transitive=True):
        """Template-stripped names of the (transitive) bases.  The walk follows the *instantiated*
        base names (qnt), so Accept<Distance, Observation> and Accept<g3::Angle, ..> are kept apart."""
        out = []
        seen = set()
        start = qn if qn.startswith("GNU_gama::") or qn in self.classes else "GNU_gama::" + qn
        rec0 = self.classes.get(start)
        if rec0 is None:
            rec0 = self.class_insts.get(qn)
        todo = [rec0] if rec0 else []
        seen_recs = set()
        while todo:
            rec = todo.pop()
            if id(rec) in seen_recs:
                continue
            seen_recs.add(id(rec))
            for b in rec.get("bases", []):
                bq = strip_targs(b.get("qn", b.get("t", "")))
                if bq and bq not in seen:
                    seen.add(bq)
                    out.append(bq)
                if transitive:
                    brec = self.class_insts.get(b.get("qnt", "")) or self.classes.get(bq)
                    if brec is not None:
                        todo.append(brec)
        return out

    def derived_from(self, base):
        if not base.startswith("GNU_gama::") and ("GNU_gama::" + base) in self.classes:
            base = "GNU_gama::" + base
        return [c for c in self.classes if base in self.bases_of(c)]

    def enum(self, qn):
        r = self.enums.get(qn) or self.enums.get("GNU_gama::" + qn)
        if r is None:
            raise AnalysisBroken("anchor enum %s not found" % qn)
        return r


# --------------------------------------------------------------------------- export

def _run_one(args):
    root, unit, out, ffilter, flags = args
    src = unit if os.path.isabs(unit) else os.path.join(root, unit)
    cmd = [GAMAFACTS, "--froot=" + root, "--fout=" + out, "--ffilter=" + ffilter, src, "--"] + flags
    p = subprocess.run(cmd, capture_output=True, text=True)
    return unit, p.returncode, (p.stderr or "")[-2000:]


def export(root="/repo", units=None, ffilter=".*", driver=True, jobs=16, keep=None):
    """Run the exporter over `units` (root-relative; None = every TU of the build) plus
    the driver TU and load the merged facts.  Scratch output goes to a temp dir that is
    removed before returning."""
    if not os.path.exists(GAMAFACTS):
        raise AnalysisBroken("exporter binary missing: run MANIFEST.setup_cmd (make -C /verif/sa)")
    all_units = compdb.translation_units(root)
    if not all_units:
        raise AnalysisBroken("no translation units derived from %s/CMakeLists.txt" % root)
    if units is None:
        units = list(all_units)
    else:
        missing = [u for u in units if u not in all_units]
        if missing:
            raise AnalysisBroken("translation unit(s) no longer part of the build: %s" % missing)
    flags = compdb.flags(root)
    tmp = tempfile.mkdtemp(prefix="gamafacts_")
    facts = Facts()
    facts.root = root
    try:
        jobs_list = []
        for i, u in enumerate(units):
            jobs_list.append((root, u, os.path.join(tmp, "u%d.json" % i), ffilter, flags))
        if driver:
            jobs_list.append((root, DRIVER_TU, os.path.join(tmp, "driver.json"), ffilter, flags))
        with concurrent.futures.ThreadPoolExecutor(max_workers=jobs) as ex:
            results = list(ex.map(_run_one, jobs_list))
        for (unit, rc, err), job in zip(results, jobs_list):
            if rc != 0:
                raise AnalysisBroken("exporter failed on %s (rc=%d): %s" % (unit, rc, err.strip()[-600:]))
            with open(job[2]) as fh:
                data = json.load(fh)
            if data.get("errors"):
                raise AnalysisBroken("front-end errors in %s" % unit)
            facts.add(data)
            facts.units.append(unit if not os.path.isabs(unit) else "verif:" + os.path.basename(unit))
        if keep:
            shutil.copytree(tmp, keep, dirs_exist_ok=True)
    finally:
        shutil.rmtree(tmp, ignore_errors=True)
    return facts


if __name__ == "__main__":
    import sys
    import time
    t = time.time()
    f = export(units=None if len(sys.argv) < 2 else sys.argv[1:])
    print("%d functions, %d classes, %d enums, %d globals from %d units in %.1fs"
          % (len(f.functions), len(f.classes), len(f.enums), len(f.globals), len(f.units), time.time() - t))
