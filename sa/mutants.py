"""Thorough tier: validate the checkers themselves against seeded defects and benign edits.

Every mutant under sa/mutants/*/*.json that names the property is applied to a scratch
copy of the sources (outside /repo and /verif, removed afterwards), the facts are
re-exported from the scratch copy and the property's rules are re-run.  A seeded defect
must make the expected instance(s) BAD; a benign (behaviour-preserving) edit must not add
any BAD instance.  Anything else means the *checker* is broken (exit 2).
Nothing is compiled to an executable and nothing is run: the scratch copy is only parsed.
"""
import glob
import json
import os
import shutil
import tempfile
import time

import engine
import facts as F

HERE = os.path.dirname(os.path.abspath(__file__))
MUTANTS = os.path.join(HERE, "mutants")
COPY = ["lib", "src", "scripts", "xml", "CMakeLists.txt"]


def load(prop):
    out = []
    for p in sorted(glob.glob(os.path.join(MUTANTS, "*", "*.json"))):
        try:
            m = json.load(open(p))
        except Exception as e:
            raise F.AnalysisBroken("mutant file %s is not valid JSON: %s" % (p, e))
        if prop in m.get("properties", []):
            m["_path"] = os.path.relpath(p, MUTANTS)
            out.append(m)
    return out


def make_scratch(root):
    tmp = tempfile.mkdtemp(prefix="gama_mut_")
    for c in COPY:
        src = os.path.join(root, c)
        dst = os.path.join(tmp, c)
        if os.path.isdir(src):
            shutil.copytree(src, dst, symlinks=True)
        elif os.path.exists(src):
            shutil.copy2(src, dst)
    return tmp


def apply_edits(tmp, m):
    for e in m["edits"]:
        p = os.path.join(tmp, e["file"])
        s = open(p, encoding="utf-8", errors="surrogateescape").read()
        n = s.count(e["old"])
        if n != 1:
            return "edit anchor occurs %d times in %s (mutant needs refreshing): %r" % (n, e["file"], e["old"][:60])
        s = s.replace(e["old"], e["new"])
        open(p, "w", encoding="utf-8", errors="surrogateescape").write(s)
    return None


def run_rules(root, prop, spec):
    fx = F.export(root=root)
    ctx = engine.Ctx(fx, root, prop, "mutant")
    for rule in spec["rules"]:
        ctx.run_rule(rule)
    bad = {i.key for i in ctx.instances if not i.ok}
    broken = getattr(ctx, "broken", [])
    if broken and not bad:
        raise F.AnalysisBroken("; ".join(broken))
    run_rules.last_broken = broken
    return bad, len(ctx.instances)


def self_validate(prop, spec, root="/repo", base_bad=None):
    muts = load(prop)
    if base_bad is None:
        base_bad, _ = run_rules(root, prop, spec)
    results = []
    broken = []
    t0 = time.time()
    for m in muts:
        tmp = make_scratch(root)
        try:
            err = apply_edits(tmp, m)
            if err:
                results.append({"mutant": m["_path"], "status": "stale", "detail": err})
                broken.append("%s: %s" % (m["_path"], err))
                continue
            try:
                bad, n = run_rules(tmp, prop, spec)
            except F.AnalysisBroken as e:
                # a mutant may legitimately trip an exit-2 guard (vanished anchor / floor); it counts as
                # detected only if the mutant says so
                if m.get("expect_broken"):
                    results.append({"mutant": m["_path"], "status": "detected-as-analysis-broken"})
                    continue
                results.append({"mutant": m["_path"], "status": "exporter-or-rule-failed", "detail": str(e)[:300]})
                broken.append("%s: %s" % (m["_path"], str(e)[:200]))
                continue
            new = sorted(bad - base_bad)
            part = getattr(run_rules, "last_broken", [])
            if part and (m.get("benign") or not new):
                # a rule that cannot run on a behaviour-preserving edit is a checker failure (exit 2 for the user)
                results.append({"mutant": m["_path"], "status": "exporter-or-rule-failed", "detail": "; ".join(part)[:300]})
                broken.append("%s: %s" % (m["_path"], "; ".join(part)[:200]))
                continue
            if m.get("benign"):
                if new:
                    results.append({"mutant": m["_path"], "status": "FALSE-ALARM", "new_bad": new[:10]})
                    broken.append("%s: benign edit reported %s" % (m["_path"], new[:3]))
                else:
                    results.append({"mutant": m["_path"], "status": "benign-silent"})
            else:
                missing = [e for e in m.get("expect", []) if not any(e in k for k in new)]
                if not new or missing:
                    results.append({"mutant": m["_path"], "status": "MISSED", "new_bad": new[:10],
                                    "expected": m.get("expect")})
                    broken.append("%s: seeded defect not reported (expected %s, got %s)"
                                  % (m["_path"], m.get("expect"), new[:3]))
                else:
                    results.append({"mutant": m["_path"], "status": "detected", "new_bad": new[:6]})
        finally:
            shutil.rmtree(tmp, ignore_errors=True)
    extra = {
        "self_validation": {
            "mutants": sum(1 for m in muts if not m.get("benign")),
            "mutants_detected": sum(1 for r in results if r["status"].startswith("detected")),
            "benign_edits": sum(1 for m in muts if m.get("benign")),
            "benign_silent": sum(1 for r in results if r["status"] == "benign-silent"),
            "wall_s": round(time.time() - t0, 1),
            "results": results,
        }
    }
    for r in results:
        print("self-validation %-28s %s" % (r["status"], r["mutant"]))
    if broken:
        raise F.AnalysisBroken("checker self-validation failed: " + "; ".join(broken))
    return extra
