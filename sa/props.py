"""Property -> rules mapping."""
import sys, os
sys.path.insert(0, os.path.join(os.path.dirname(os.path.abspath(__file__)), "rules"))
import fsm
import lazy


def _c11_fsm(ctx):
    fsm.rule_gkf(ctx)


def _c04(ctx):
    lazy.rule_lazy_solvers(ctx)
    lazy.rule_lazy_adj(ctx)
    lazy.rule_lazy_cascade(ctx)
    lazy.rule_lazy_chain(ctx)


PROPS = {
    "C04": {
        "rules": [_c04],
        "explanation": "R-LAZY: abstract interpretation of the lazy-evaluation flags (sets of complete flag valuations, "
                       "path-sensitive on flag tests, inter-procedural on `this`, virtual calls bound to the concrete solver) "
                       "over facts exported from the current sources decides two typestate clauses for every public query of "
                       "AdjEnvelope, AdjCholDec, AdjGSO, AdjSVD, SVD, Adj: L1 a cached result is never read in a state where its "
                       "validity predicate can be false (guard dominance with polarity), L2 a method that writes an input leaves "
                       "the dependent results invalidated on every normal exit, plus inductiveness of the flag invariant. "
                       "For LocalNetwork and g3::Model the invalidation cascade (update(stage) resets that and all later flags) and the stage chain "
                       "(every stage function runs the previous stage when it is not established and marks its own stage done; consumers run "
                       "their stage first) are decided. The roles (flag -> fields) are frozen in sa/tables/lazy.json. History independence of the numbers "
                       "themselves is not decided - only that no query can observe a stale or not-yet-computed field.",
    },
    "C11": {
        "rules": [_c11_fsm],
        "explanation": "Structural necessary conditions of 'any input is adjusted or refused with a located "
                       "diagnostic, safely', decided on facts exported from the current sources (clang AST+CFG): "
                       "R-FSM rebuilds the parser automata by value-partitioned constant propagation of the state "
                       "field and checks that no reachable (state,tag)/(state,end) transition enters the error state "
                       "without the error function that records message and line, that the error state is absorbing, "
                       "and that every state has one nesting depth. The clauses, not the run-time behaviour, are decided.",
    },
}
