"""Property -> rules mapping."""
import sys, os
sys.path.insert(0, os.path.join(os.path.dirname(os.path.abspath(__file__)), "rules"))
import fsm


def _c11_fsm(ctx):
    fsm.rule_gkf(ctx)


PROPS = {
    "C11": {
        "rules": [_c11_fsm],
        "explanation": "Structural necessary conditions of 'any input is adjusted or refused with a located "
                       "diagnostic, safely', decided on facts exported from the current sources (clang AST+CFG): "
                       "R-FSM rebuilds the parser automata by value-partitioned constant propagation of the state "
                       "field and checks that no reachable (state,tag)/(state,end) transition enters the error state "
                       "without the error function that records message and line, that the error state is absorbing, "
                       "and that every state has one nesting depth. The clauses, not the run-time behaviour, are decided.",
    },
}
