"""Property -> rules mapping."""
import sys, os
sys.path.insert(0, os.path.join(os.path.dirname(os.path.abspath(__file__)), "rules"))
import fsm
import lazy
import idx
import mpt
import sib


def _c11_fsm(ctx):
    fsm.rule_gkf(ctx)


def _c04(ctx):
    lazy.rule_lazy_solvers(ctx)
    lazy.rule_lazy_adj(ctx)
    lazy.rule_lazy_cascade(ctx)
    lazy.rule_lazy_chain(ctx)


PROPS = {
    "C01": {
        "rules": [idx.rule_idx_c01, mpt.rule_mpt_c01],
        "explanation": "R-IDX: index-space qualifier inference (U original unknown, P permuted position, O observation row, ...) over "
                       "the solution path of all four solvers (AdjEnvelope::solve_*, Envelope::set, AdjCholDec::solve, AdjGSO/AdjSVD::solve, "
                       "SVD::solve/min_subset_x): no integer variable or API slot receives two different index spaces. R-MPT: CFG "
                       "dominance/post-dominance: the homogenisation step and all of AdjInputData precede every solver reset in "
                       "LocalNetwork::project_equations, min_x(n, list) follows every reset on every path, the ordering is computed before "
                       "the envelope is laid out and factorised before it is solved. Optimality and the arithmetic of the factorisations "
                       "are not decided.",
    },
    "C02": {
        "rules": [sib.rule_solver_siblings, sib.rule_badreg_signalled, sib.rule_error_counters_consumed, lazy.rule_lazy_solvers],
        "explanation": "R-SIB: the four AdjBase implementations implement every pure virtual of the interface; R-ERR: each solver's "
                       "solve path reaches a throw of Exception::BadRegularization and the ICGS error counter is consumed; R-LAZY L1/L2 "
                       "for every query of every solver (same typestate obligations for the four siblings). Numerical agreement of the "
                       "four algorithms is not decided.",
    },
    "C03": {
        "rules": [idx.rule_idx_c03],
        "explanation": "R-IDX restricted to the cofactor queries and their helpers (q_xx, q0_xx, q_bb, q_bx, T_row, T, dot) of the four "
                       "solvers and Adj::q_bb, plus the cache rule: every MoveToFront cache object is looked up with keys of one index space. "
                       "The algebraic identities of the generalised inverse are not decided.",
    },
    "C10": {
        "rules": [sib.rule_finish_siblings, mpt.rule_mpt_c10],
        "explanation": "R-SIB(b): each of GKFparser::finish_obs/hdiffs/coords/vectors compares the declared covariance dimension with "
                       "the number of observations of the cluster before the matrix is filled (CFG dominance) and factorises a copy "
                       "under try/catch -> error(); process_cov accepts only dim >= 1 and 0 <= band < dim. R-MPT: homogenisation / "
                       "covariance blocks precede every solver reset. Numerical equivalence with the whitened problem is not decided.",
    },
    "C14": {
        "rules": [sib.rule_removed_pairing, sib.rule_obs_partition, mpt.rule_mpt_c14],
        "explanation": "R-PAIR P1: every set_unused_xy/z in LocalNetwork is post-dominated by removed(id, code) with a reason code of the "
                       "same axis class; partition: revision_observations puts every observation on exactly one of the used / removed "
                       "lists, cleared first, and counts the used list; R-MPT: remove_huge_abs_terms re-triggers the revision after "
                       "deactivating observations. Equality of results with the reduced input is not decided.",
    },
    "C16": {
        "rules": [idx.rule_idx_c16, mpt.rule_mpt_c16],
        "explanation": "R-IDX over SparseMatrixOrdering/ReverseCuthillMcKee/Envelope::set (perm: P->U, invp: U->P, graph nodes U, "
                       "envelope rows P); R-MPT: inverse_permutaion() follows algorithm() on every path of SparseMatrixOrdering::reset, "
                       "the ordering precedes Envelope::set, cholDec precedes solve. Numerical equality with dense LDL' is not decided.",
    },
    "C20": {
        "rules": [idx.rule_idx_c20, sib.rule_badreg_signalled, sib.rule_error_counters_consumed, sib.rule_nullspace_catch],
        "explanation": "R-IDX on the four lindep implementations (the index handed to the factor / permutation / singular-value "
                       "store is in the space that store expects); R-ERR: every solver can signal an unresolvable regularisation and "
                       "LocalNetwork::null_space() handles exactly Exception::BadRegularization, rethrows everything else, and removes "
                       "the flagged unknown's point with a reason. That the flagged set has a full-rank complement is not decided.",
    },
    "C04": {
        "rules": [_c04],
        "explanation": "R-LAZY: abstract interpretation of the lazy-evaluation flags (sets of complete flag valuations, "
                       "path-sensitive on flag tests, inter-procedural on `this`, virtual calls bound to the concrete solver) "
                       "over facts exported from the current sources decides two typestate clauses for every public query of "
                       "AdjEnvelope, AdjCholDec, AdjGSO, AdjSVD, SVD, Adj: L1 a cached result is never read in a state where its "
                       "validity predicate can be false (guard dominance with polarity), L2 a method that writes an input leaves "
                       "the dependent results invalidated on every normal exit, plus inductiveness of the flag invariant. "
                       "For LocalNetwork and g3::Model the invalidation cascade (update(stage) resets that and all later flags) and the stage chain "
                       "(every stage function runs the previous stage when it is not established and marks its own stage done; consumers run "
                       "their stage first) are decided. The roles (flag -> fields) are frozen in sa/tables/lazy.json. History independence of the numbers "
                       "themselves is not decided - only that no query can observe a stale or not-yet-computed field.",
    },
    "C11": {
        "rules": [_c11_fsm],
        "explanation": "Structural necessary conditions of 'any input is adjusted or refused with a located "
                       "diagnostic, safely', decided on facts exported from the current sources (clang AST+CFG): "
                       "R-FSM rebuilds the parser automata by value-partitioned constant propagation of the state "
                       "field and checks that no reachable (state,tag)/(state,end) transition enters the error state "
                       "without the error function that records message and line, that the error state is absorbing, "
                       "and that every state has one nesting depth. The clauses, not the run-time behaviour, are decided.",
    },
}
