"""Property -> rules mapping."""
import sys, os
sys.path.insert(0, os.path.join(os.path.dirname(os.path.abspath(__file__)), "rules"))
import fsm
import lazy
import idx
import mpt
import sib
import dim
import pair
import lin
import tab
import fsm2
import esc
import attr
import dead
import rec
import hom
import step
import rb
import idx2
import fin
import prog
import repl
import guard
import engine as _engine


def _c11_fsm(ctx):
    ctx.run_rule(fsm.rule_gkf)
    ctx.run_rule(fsm2.rule_gkf_escape)
    ctx.run_rule(fsm2.rule_xsd_gkf)
    ctx.run_rule(fsm2.rule_dataparser)
    ctx.run_rule(fsm2.rule_lnar)


def _c11_rest(ctx):
    ctx.run_rule(attr.rule_attr_scratch)
    ctx.run_rule(attr.rule_numconv)
    ctx.run_rule(attr.rule_main_funnel)
    ctx.run_rule(lin.rule_wrap_w2)
    ctx.run_rule(lin.rule_bnd)
    ctx.run_rule(pair.rule_newdelete)
    ctx.run_rule(sib.rule_finish_siblings)
    ctx.run_rule(rec.rule_recognisers)
    ctx.run_rule(rec.rule_stream_validators)
    ctx.run_rule(scratch_rule)
    ctx.run_rule(fin.rule_fin_c11)
    ctx.run_rule(pair.rule_no_use_after_handover)


def _c04(ctx):
    ctx.run_rule(lazy.rule_lazy_solvers)
    ctx.run_rule(lazy.rule_lazy_adj)
    ctx.run_rule(lazy.rule_lazy_cascade)
    ctx.run_rule(lazy.rule_lazy_chain)
    ctx.run_rule(lazy.rule_lazy_caches)
    ctx.run_rule(lazy.rule_lazy_preserve)
    ctx.run_rule(lazy.rule_lazy_latch)
    ctx.run_rule(lazy.rule_lazy_conditional_fields)
    ctx.run_rule(scratch_rule)
    ctx.run_rule(pair.rule_shadow)
    ctx.run_rule(pair.rule_newdelete)
    ctx.run_rule(pair.rule_ownership_handover)
    ctx.run_rule(pair.rule_no_use_after_handover)


def _filtered(rule, keep):
    """Run a rule whose inventory spans several properties and keep the instances that belong to this one
    (floors, notes and analysed functions are kept whole: a broken inventory is broken for every property)."""
    def run(ctx):
        sub = _engine.Ctx(ctx.facts, ctx.root, ctx.prop, ctx.tier)
        r = rule(sub)
        for i in sub.instances:
            if keep(ctx.prop, i):
                ctx.instances.append(i)
        ctx.floors.update(sub.floors)
        ctx.notes.extend(sub.notes)
        ctx.analysed_functions |= sub.analysed_functions
        return r
    run.__name__ = rule.__name__
    return run


def _keep_step(prop, inst):
    anchors = (inst.detail or {}).get("anchors") if isinstance(inst.detail, dict) else None
    k = inst.key
    for pat, props in (("Homogenization", ("C10",)), ("min_x", ("C20",)), ("minx", ("C20",))):
        if pat in k and prop in props:
            return True
    if prop == "C14" and ("activeCov" in k or "Cluster::" in k):
        return True          # see below: the covariance block of the surviving observations
    if anchors:
        return prop in anchors
    # sibling pairs / groups: g3 regularisation list under C19, min_x_ and ind[] fills under C01/C10, writer summaries under C12
    if "g3::" in k:
        return prop == "C19"
    if "activeCov" in k or "Cluster" in k:
        # the covariance block of the observations that survive revision: C10 (sub-matrix of the remaining ones)
        # and C14 (excluding an observation of a correlated cluster equals deleting it)
        return prop in ("C10", "C14")
    if "summary" in k:
        return prop == "C12"
    return prop in ("C01",)


_SCRATCH_HOME = [
    ("ICGS", ("C01", "C02", "C04", "C20")),
    ("local::GKFparser", ("C10", "C11")),
    ("DataParser", ("C19", "C11")),
    ("g3::", ("C19",)),
    ("local::LocalNetwork", ("C14", "C04", "C01", "C05")),
    ("Homogenization", ("C10", "C01", "C04")),
    ("Envelope", ("C16", "C04", "C20", "C01")),
    ("SparseMatrix", ("C16",)),
    ("SymMat", ("C16", "C15")),
    ("SVD", ("C01", "C04", "C15")),
    ("Adj", ("C01", "C03", "C04")),
]


def _keep_scratch(prop, inst):
    k = inst.key.split(":", 1)[1]
    for pat, props in _SCRATCH_HOME:
        if k.startswith(pat):
            return prop in props
    return prop == "C04"


step_rule = _filtered(step.rule_step, _keep_step)
scratch_rule = _filtered(step.rule_scratch, _keep_scratch)


PROPS = {
    "C01": {
        "rules": [idx.rule_idx_c01, mpt.rule_mpt_c01, lazy.rule_lazy_preserve, step_rule, scratch_rule, idx2.rule_idx2_network_c01],
        "explanation": "R-IDX: index-space qualifier inference (U original unknown, P permuted position, O observation row, ...) over "
                       "the solution path of all four solvers (AdjEnvelope::solve_*, Envelope::set, AdjCholDec::solve, AdjGSO/AdjSVD::solve, "
                       "SVD::solve/min_subset_x): no integer variable or API slot receives two different index spaces. R-MPT: CFG "
                       "dominance/post-dominance: the homogenisation step and all of AdjInputData precede every solver reset in "
                       "LocalNetwork::project_equations, min_x(n, list) follows every reset on every path, the ordering is computed before "
                       "the envelope is laid out and factorised before it is solved. R-LAZY PRESERVE: reset() of every solver leaves the regularisation subset untouched (it may be set before or after reset). Optimality and the arithmetic of the factorisations "
                       "are not decided.",
    },
    "C02": {
        "rules": [sib.rule_solver_siblings, sib.rule_badreg_signalled, sib.rule_error_counters_consumed, lazy.rule_lazy_solvers,
                  tab.rule_algorithms, tab.rule_who_depends, lazy.rule_lazy_rethrow, lazy.rule_lazy_preserve, scratch_rule],
        "explanation": "R-SIB: the four AdjBase implementations implement every pure virtual of the interface; R-ERR: each solver's "
                       "solve path reaches a throw of Exception::BadRegularization and the ICGS error counter is consumed; R-LAZY L1/L2 "
                       "for every query of every solver (same typestate obligations for the four siblings). R-ERR rethrow: queries made inside null_space()'s handler (lindep, defect) cannot throw BadRegularization again from any flag state in which a solver throws it; R-LAZY PRESERVE; R-TAB T1/T4 algorithm names and who-may-depend. Numerical agreement of the "
                       "four algorithms is not decided.",
    },
    "C03": {
        "rules": [idx.rule_idx_c03, lazy.rule_lazy_caches, step_rule, scratch_rule],
        "explanation": "R-IDX restricted to the cofactor queries and their helpers (q_xx, q0_xx, q_bb, q_bx, T_row, T, dot) of the four "
                       "solvers and Adj::q_bb, plus the cache rule: every MoveToFront cache object is looked up with keys of one index space. "
                       "R-LAZY CACHE: every method that writes an input the cache content depends on erases the cache index on every path. "
                       "The algebraic identities of the generalised inverse are not decided.",
    },
    "C09": {
        "rules": [hom.rule_hom, hom.rule_hom_selector, idx2.rule_idx2_network_c09, fin.rule_fin_c09],
        "explanation": "R-HOM: a dimensional analysis in which the unit is the a priori reference deviation s (weights and v'Pv have degree 2, "
                       "solver cofactors -2, m0 a priori / a posteriori / m_0() degree 1, residuals, adjusted values, quantiles 0; the source table "
                       "sa/tables/hom.json gives one reason per entry). An abstract interpretation over the CFGs (degree plus the exponents of m_0() and "
                       "apriori_m_0(); flow-sensitive locals, callees followed context-sensitively) infers the degree of every value that reaches a "
                       "writer sink (XML, text, HTML, Octave, SQL), of every statistics accessor of LocalNetwork and of the tabled fields, and "
                       "requires the demanded degree (0 for standard deviations, covariances, confidence limits, ellipses: 'changing only the a priori "
                       "reference deviation changes nothing else'), homogeneous sums and comparisons, and m_0() exactly once in a standard deviation. "
                       "R-HOM-SEL: the reference-deviation type selects Student with the a posteriori and Normal with the a priori value in every function "
                       "that depends on it (polarity from CFG branch edges), labels sit under the matching polarity, a value written under a name of one "
                       "deviation is built from that deviation. Anything not modelled on the way to a checked value is exit 2. Not decided: which cofactor, "
                       "which quantile, the degrees-of-freedom formula, the eigen-decomposition - the arithmetic identities themselves.",
    },
    "C10": {
        "rules": [sib.rule_finish_siblings, mpt.rule_mpt_c10, step_rule, scratch_rule],
        "explanation": "R-SIB(b): each of GKFparser::finish_obs/hdiffs/coords/vectors compares the declared covariance dimension with "
                       "the number of observations of the cluster before the matrix is filled (CFG dominance) and factorises a copy "
                       "under try/catch -> error(); process_cov accepts only dim >= 1 and 0 <= band < dim. R-MPT: homogenisation / "
                       "covariance blocks precede every solver reset. Numerical equivalence with the whitened problem is not decided.",
    },
    "C14": {
        "rules": [prog.rule_progress, sib.rule_revision_pairs, sib.rule_removed_pairing, sib.rule_obs_partition, mpt.rule_mpt_c14, tab.rule_rm_points, tab.rule_cluster_casts,
                  lazy.rule_lazy_cascade, sib.rule_revision_lookup_siblings, step_rule, scratch_rule],
        "explanation": "R-SIB revision pairs: in every LocalRevision method a coordinate test (test_xy/test_z) on a point comes with the activity test (active_xy/active_z) on the same point (one frozen upstream exception: z_angle). R-PROGRESS: in every propagation loop (repeat while the last pass made progress) each point-setter call is followed on every path by raising the progress flag, so the outcome does not depend on the order of the records. R-PAIR P1: every set_unused_xy/z in LocalNetwork is post-dominated by removed(id, code) with a reason code of the "
                       "same axis class; partition: revision_observations puts every observation on exactly one of the used / removed "
                       "lists, cleared first, and counts the used list; R-MPT: remove_huge_abs_terms re-triggers the revision after "
                       "deactivating observations; removed(id, code) restarts the whole pipeline (update cascade); reason tables and cluster casts agree (R-TAB/R-VIS); every point an observation refers to is looked up, checked for existence before use and put through the same set of status tests as the other points of that observation in LocalRevision (R-SIB). "
                       "Equality of results with the reduced input is not decided.",
    },
    "C16": {
        "rules": [repl.rule_replica, idx.rule_idx_c16, mpt.rule_mpt_c16, step_rule, scratch_rule, idx2.rule_idx2_sparse],
        "explanation": "R-REPL: every hand-written copy constructor / assignment / replica factory carries every state field of its class over to the target (literal resets and default initialisers do not count). R-IDX over SparseMatrixOrdering/ReverseCuthillMcKee/Envelope::set (perm: P->U, invp: U->P, graph nodes U, "
                       "envelope rows P); R-MPT: inverse_permutaion() follows algorithm() on every path of SparseMatrixOrdering::reset, "
                       "the ordering precedes Envelope::set, cholDec precedes solve. Numerical equality with dense LDL' is not decided.",
    },
    "C20": {
        "rules": [idx.rule_idx_c20, sib.rule_badreg_signalled, sib.rule_error_counters_consumed, sib.rule_nullspace_catch,
                  lazy.rule_lazy_cascade, lazy.rule_lazy_rethrow, step_rule, scratch_rule, fin.rule_fin_c20],
        "explanation": "R-IDX on the four lindep implementations (the index handed to the factor / permutation / singular-value "
                       "store is in the space that store expects); R-ERR: every solver can signal an unresolvable regularisation and "
                       "LocalNetwork::null_space() handles exactly Exception::BadRegularization, rethrows everything else, and removes "
                       "the flagged unknown's point with a reason. removed() restarts the pipeline (CASCADE) and the handler's queries cannot rethrow (R-ERR rethrow). That the flagged set has a full-rank complement is not decided.",
    },
    "C05": {
        "rules": [lin.rule_bnd, lin.rule_lin, lin.rule_wrap_w1, lin.rule_unit, lin.rule_vis_local, sib.rule_index_alloc_order, sib.rule_rhs_every_path, scratch_rule],
        "explanation": "Shape clauses of the linearisation decided on the AST/CFG of LocalLinearization and its sibling visitors: "
                       "R-BND bounded, paired coeff[]/index[] writes and max_size == array bound == reservation factor; R-LIN the "
                       "coefficients of every two/three-point observation type, normalised to formal sums of signed atoms, sum to zero "
                       "per axis (translation invariance); R-WRAP W1 angular right-hand sides that are differences of directions are "
                       "reduced to the half circle; R-UNIT the mm/cc scale constants of rhs, coefficients and of the sibling visitors "
                       "that combine residuals with observed values agree; R-VIS every local visitor derives from AllObservationsVisitor "
                       "and LocalLinearization handles every observation class. Every handler assigns rhs on every normal path and allocates index_x before index_y (the consumer assumes adjacency). That each coefficient equals the partial derivative is not decided.",
    },
    "C07": {
        "rules": [esc.rule_ysign, mpt.rule_mpt_c07, sib.rule_index_alloc_order],
        "explanation": "The mirroring clause only. R-YSIGN: in every writer scope a y-carrying value (LocalPoint::y/y_0, value() of Y/Ydiff, "
                       "solution elements indexed by index_y()) reaches an output sink only after multiplication by the y sign, and sibling "
                       "visit(Y*)/visit(Ydiff*) agree; R-MPT: remove_inconsistency() dominates the approximate-coordinate computation in main. "
                       "R-SIB: every handler allocates the x index of a point before its y index, so results do not depend on which observation touches a point first. The other equivalences (translation, rotation of the circle, permutation, renaming, units) relate different runs and are not decided.",
    },
    "C12": {
        "rules": [esc.rule_esc_adjxml, esc.rule_str2xml, fsm2.rule_xsd_adjxml, esc.rule_ysign, lin.rule_unit, dead.rule_dead_local, mpt.rule_mpt_c12, step_rule, rb.rule_rb, idx2.rule_idx2_network_c12],
        "explanation": "R-ESC: three-valued taint analysis (clean / sanitised / tainted, field-based, function summaries) - no PointID, "
                       "description, extern value or exception message reaches a markup sink of LocalNetworkXML, its observation visitor, "
                       "XMLerror, the HTML and SVG writers unsanitised; the sanitiser str2xml maps < > & \" ' to the right entities; the "
                       "element vocabulary of writer, reader (LocalNetworkAdjustmentResults::Parser::tag) and gama-local-adjustment.xsd "
                       "agree; R-YSIGN and R-UNIT for the writer. R-DEAD: no branch of an if/else-if chain over point-status predicates is dead (constrained implies free in the encoding). Numeric round trip and cross-format equality are not decided.",
    },
    "C13": {
        "rules": [attr.rule_attr_flow, attr.rule_attr_export, esc.rule_esc_export, esc.rule_ysign, tab.rule_cluster_casts,
                  sib.rule_export_scale_siblings, dead.rule_dead_local, step_rule],
        "explanation": "R-ATTR: per GKFparser handler the accepted attribute names are extracted; every parsed attribute value reaches "
                       "the model (A2); attributes written by export_xml are accepted by the corresponding handler and the schema, and every "
                       "stored attribute is written back (A4). R-ESC for export_xml/DisplayObservationVisitor, R-YSIGN, and export covers all "
                       "cluster kinds; R-UNIT: the exported standard deviation is scaled for exactly the angular observation types. "
                       "R-DEAD: status chains (fixed / constrained / free) have no dead branch. That re-adjustment of the exported file needs no iteration is not decided.",
    },
    "C15": {
        "rules": [repl.rule_replica, guard.rule_guard, dim.rule_dim, pair.rule_memrep, step_rule, scratch_rule, lazy.rule_lazy_conditional_fields],
        "explanation": "R-REPL: every hand-written copy constructor / assignment / replica factory carries every state field of its class over to the target (literal resets and default initialisers do not count). R-GUARD: an update-if-different guard of reset(r,c) compares every field the guarded block sets from a parameter. R-DIM: in every lib/matvec function touching elements of two or more operands a dimension comparison whose failing "
                       "branch throws Exception::BadRank (or a resize / a checking callee) dominates the first element access; R-PAIR P3: "
                       "MemRep's owning pointer comes only from new[], null or a moved-from rvalue, copies allocate and copy exactly the "
                       "source size and never alias. Algebraic identities are not decided.",
    },
    "C18": {
        "rules": [tab.rule_ellipsoids, rec.rule_recognisers],
        "explanation": "R-TAB T3: the ellipsoid enumerators, caption and id arrays, the strcmp chain of ellipsoid(name), the switch of "
                       "set(Ellipsoid*, id) and xml/ellipsoids.xml agree entry by entry. R-REC: the character-level recognisers IsFloat / "
                       "IsInteger are read off their CFG as finite automata (abstract state = program point, boolean locals, knowledge of "
                       "the character under the position; `++b` consumes a character), determinised and compared by product construction "
                       "with the automaton of the documented literal format - language equality for every string, with the shortest "
                       "distinguishing string reported - and the position is never dereferenced or advanced at the end of the input. "
                       "Round trips are numerical and not decided; deg2gon reads its fields through an istringstream and is not modelled.",
    },
    "C19": {
        "rules": [prog.rule_progress, repl.rule_replica, tab.rule_g3_visitors, lazy.rule_lazy_chain, lazy.rule_lazy_adj, tab.rule_algorithms, fsm2.rule_dataparser,
                  esc.rule_esc_g3, pair.rule_newdelete, dead.rule_dead_g3, step_rule, scratch_rule, tab.rule_who_depends, fin.rule_fin_c19, pair.rule_ownership_handover, pair.rule_no_use_after_handover, rec.rule_stream_validators, sib.rule_g3_scale_siblings],
        "explanation": "R-PROGRESS: in every propagation loop (repeat while the last pass made progress) each point-setter call is followed on every path by raising the progress flag, so the outcome does not depend on the order of the records. R-REPL: every hand-written copy constructor / assignment / replica factory carries every state field of its class over to the target (literal resets and default initialisers do not count). R-VIS V2 every g3 visitor covers all concrete g3 observation classes; R-LAZY stage chain of g3::Model and "
                       "typestate of Adj; R-TAB T1 algorithm names; R-FSM DataParser automaton (no silent error, absorbing error state, "
                       "depth discipline, init() role table verified against its body); R-ESC g3 writers; R-PAIR P2. R-DEAD for the parameter-status chains of g3. Adjusted "
                       "coordinates are not decided.",
    },
    "C04": {
        "rules": [_c04],
        "explanation": "R-LAZY: abstract interpretation of the lazy-evaluation flags (sets of complete flag valuations, "
                       "path-sensitive on flag tests, inter-procedural on `this`, virtual calls bound to the concrete solver) "
                       "over facts exported from the current sources decides two typestate clauses for every public query of "
                       "AdjEnvelope, AdjCholDec, AdjGSO, AdjSVD, SVD, Adj: L1 a cached result is never read in a state where its "
                       "validity predicate can be false (guard dominance with polarity), L2 a method that writes an input leaves "
                       "the dependent results invalidated on every normal exit, plus inductiveness of the flag invariant. "
                       "For LocalNetwork and g3::Model the invalidation cascade (update(stage) resets that and all later flags) and the stage chain "
                       "(every stage function runs the previous stage when it is not established and marks its own stage done; consumers run "
                       "their stage first) are decided. CACHE (cache indexes erased when their inputs change), PRESERVE (reset keeps the regularisation subset), LATCH (no boolean state member of a re-usable solver object can only move one way), R-PAIR P2 (no dangling owner after delete) and L3 (no field shadowed where its role is needed) are decided too. The roles (flag -> fields) are frozen in sa/tables/lazy.json. History independence of the numbers "
                       "themselves is not decided - only that no query can observe a stale or not-yet-computed field.",
    },
    "C11": {
        "rules": [_c11_fsm, _c11_rest, step_rule],
        "explanation": "Structural necessary conditions of 'any input is adjusted or refused with a located "
                       "diagnostic, safely', decided on facts exported from the current sources (clang AST+CFG): "
                       "R-FSM rebuilds the parser automata by value-partitioned constant propagation of the state "
                       "field and checks that no reachable (state,tag)/(state,end) transition enters the error state "
                       "without the error function that records message and line, that the error state is absorbing, "
                       "and that every state has one nesting depth (GKFparser, DataParser of gama-g3, the adjustment-results reader); an error "
                       "recorded by error() cannot be overwritten (error escape); every schema child/attribute of gama-local.xsd is accepted; "
                       "R-ATTR A3: parser scratch members are written before they are read within an element (no carry-over); R-NUM: numeric conversions are guarded and float->int casts range-checked; R-FUNNEL: every catch clause of the mains ends in "
                       "a non-zero return; R-WRAP W2: no subtraction wrap loop on input-facing angles; R-BND: coeff[]/index[] writes bounded; "
                       "R-PAIR P2: new[]/delete[] pairing and no dangling owner after delete; R-SIB: covariance acceptance checks. "
                       "The clauses, not the run-time behaviour, are decided.",
    },
}


# ------------------------------------------------------------------------------------------------ anchor view
#
# The properties share mechanisms: adj_envelope.h is anchored by C01 C02 C03 C04 C08 C20, network.cpp by twelve
# properties, gkfparser.cpp by C07 C10 C11 C13.  A structural clause that fails in an anchored file is a necessary
# condition of every property anchored there (the regularisation subset lost in AdjEnvelope::reset breaks C01, C02
# and C03 alike), whichever property's rule list the rule family was first written for.  So every quick check also
# runs the other rule families and keeps the instances located in *its own* anchor files (properties.jsonl,
# anchors.files).  Verdicts are the same instances the other checks report; only the attribution is wider.
# A foreign family that cannot run on a tree is a note here (it is exit 2 in the check that owns it).

def _anchor_files():
    import json as _json
    out = {}
    path = os.path.join(os.path.dirname(os.path.abspath(__file__)), "..", "properties.jsonl")
    for line in open(path):
        pr = _json.loads(line)
        out[pr["id"]] = set(pr["anchors"]["files"])
    return out


_RAW = {id(step_rule): step.rule_step, id(scratch_rule): step.rule_scratch}


def _all_families():
    seen, out = set(), []
    for spec in PROPS.values():
        for r in spec["rules"]:
            r = _RAW.get(id(r), r)
            if id(r) not in seen and getattr(r, "__name__", "") != "_anchor_view":
                seen.add(id(r))
                out.append(r)
    for r in (step.rule_step, step.rule_scratch, idx.rule_idx_all, idx2.rule_idx2_network, fin.rule_fin):
        if id(r) not in seen:
            seen.add(id(r))
            out.append(r)
    return out


def _anchor_view(ctx):
    if ctx.tier not in ("quick", "thorough"):
        return None          # runs on mutants: every family is validated under the properties its mutants name
    files = _anchor_files().get(ctx.prop, set())
    have = {i.key for i in ctx.instances}
    insts, broken, analysed = _families_on_tree(ctx)
    added = 0
    for i in insts:
        f = (i.where or "").split(":")[0]
        if f in files and i.key not in have:
            have.add(i.key)
            ctx.instances.append(i)
            added += 1
    for b in broken:
        ctx.note("anchor view: a rule family could not run on this tree: %s" % b)
    ctx.analysed_functions |= analysed
    return {"anchor_view_instances": added, "anchor_files": sorted(files)}


def _tree_digest(root):
    """content hash of everything the verdicts depend on: the analysed sources and the checker itself"""
    import hashlib
    h = hashlib.sha256()
    here = os.path.dirname(os.path.abspath(__file__))
    roots = [os.path.join(root, d) for d in ("lib", "src", "xml", "scripts")] + [os.path.join(root, "CMakeLists.txt")]
    roots += [os.path.join(here, d) for d in ("rules", "tables", "bin")] + [os.path.join(here, f) for f in
              ("props.py", "facts.py", "engine.py", "gamafacts.cc", "instantiate_all.cpp", "compdb.py")]
    roots.append(os.path.join(here, "..", "properties.jsonl"))
    for r in roots:
        if os.path.isfile(r):
            paths = [r]
        else:
            paths = []
            for dp, dn, fn in os.walk(r):
                dn.sort()
                if "__pycache__" in dp:
                    continue
                paths += [os.path.join(dp, f) for f in sorted(fn) if not f.endswith(".pyc")]
        for pth in paths:
            try:
                with open(pth, "rb") as fh:
                    h.update(pth.encode() + b"\0" + fh.read() + b"\0")
            except OSError:
                pass
    return h.hexdigest()


def _families_on_tree(ctx):
    """All rule families evaluated once on this tree.  The result depends only on the tree and the checker, so it
    is kept in a scratch cache keyed by their content hash: the seventeen checks of one tree share one evaluation
    (the cache is an optimisation only - absent or unreadable, the families are simply run)."""
    import pickle, tempfile
    cache_dir = os.path.join(tempfile.gettempdir(), "gama_verif_anchor_cache")
    key = None
    try:
        key = _tree_digest(ctx.root)
        with open(os.path.join(cache_dir, key + ".pkl"), "rb") as fh:
            data = pickle.load(fh)
        insts = [_engine.Instance(*t) for t in data["instances"]]
        return insts, data["broken"], set(data["analysed"])
    except Exception:
        pass
    sub = _engine.Ctx(ctx.facts, ctx.root, "ALL", "anchor")
    for r in _all_families():
        sub.run_rule(r)
    insts = sub.instances
    broken = list(getattr(sub, "broken", []))
    if key is not None:
        try:
            os.makedirs(cache_dir, exist_ok=True)
            # keep the scratch cache small
            old = sorted((os.path.getmtime(os.path.join(cache_dir, f)), f) for f in os.listdir(cache_dir))
            for _, f in old[:-6]:
                os.remove(os.path.join(cache_dir, f))
            fd, tmp = tempfile.mkstemp(dir=cache_dir)
            with os.fdopen(fd, "wb") as fh:
                pickle.dump({"instances": [(i.rule, i.key, i.ok, i.where,
                                            i.fn, i.msg, _engine.jsonable(i.detail)) for i in insts],
                             "broken": broken, "analysed": sorted(sub.analysed_functions)}, fh)
            os.replace(tmp, os.path.join(cache_dir, key + ".pkl"))
        except Exception:
            pass
    return insts, broken, set(sub.analysed_functions)


for _p in list(PROPS):
    PROPS[_p]["rules"] = list(PROPS[_p]["rules"]) + [_anchor_view]
    PROPS[_p]["explanation"] += (" Anchor view: instances of the rule families written for other properties that lie in this "
                                 "property's anchor files are reported here too (shared mechanisms; quick tier).")
