"""R-MPT: must-pass-through rules (CFG dominance / post-dominance between call sites).

Each table entry (tables/mpt.json) names a function, an *anchor* call and one or more
*required* calls, all by resolved callee (template-stripped qualified name, optional
arity):
  relation "before": every anchor call is dominated by a required call (the required
                     step has run on every path that reaches the anchor);
  relation "after":  every anchor call is post-dominated by a required call (every
                     path from the anchor to the function's exit runs the required step).
A missing function or anchor is analysis-broken (exit 2), never a pass.
"""
import engine
import facts as F
from facts import walk, AnalysisBroken, strip_targs, short

RULE = "R-MPT"


def _q(name):
    return name if name.startswith(("GNU_gama::", "std::")) else "GNU_gama::" + name


def find_calls(fx, fn, spec):
    """Call nodes of fn matching {"callee": qn, "nargs": n?, "or_overrides": bool?}."""
    want = _q(spec["callee"])
    out = []
    for c in fn.calls():
        cq = strip_targs(c.get("callee") or "")
        if not cq:
            continue
        ok = cq == want
        if not ok and spec.get("or_overrides", True):
            # a call bound statically to an overrider / a base declaration of the same virtual
            name = want.rsplit("::", 1)[-1]
            if cq.rsplit("::", 1)[-1] == name:
                wc, cc = want.rsplit("::", 1)[0], cq.rsplit("::", 1)[0]
                if wc in fx.bases_of(cc) or cc in fx.bases_of(wc):
                    ok = True
        if ok and "nargs" in spec and len(F.call_args(c)) != spec["nargs"]:
            ok = False
        if ok:
            out.append(c)
    return out


def _guards(fn, node):
    """[(IfStmt, polarity)] enclosing node, outermost first"""
    out = []
    child = node
    for anc in fn.ancestors(node):
        if anc.get("k") == "IfStmt":
            th, el = anc.get("then"), anc.get("else")
            if isinstance(th, dict) and any(x is child or x.get("id") == child.get("id") for x in walk(th)):
                out.append((anc, True))
            elif isinstance(el, dict) and any(x is child or x.get("id") == child.get("id") for x in walk(el)):
                out.append((anc, False))
            else:
                out.append((anc, None))        # inside the condition itself
        child = anc
    return list(reversed(out))


def _disjuncts(n):
    if n is not None and n.get("k") == "BinaryOperator" and n.get("op") == "||":
        return _disjuncts(n["c"][0]) + _disjuncts(n["c"][1])
    return [n]


def _dominates_under_guards(fn, r, a):
    """Correlated branches: `if (A || B) step();  ...  if (A) { anchor(); }` - the step is not a CFG dominator
    of the anchor, but every path that reaches the anchor took the step, provided the variables of A are not
    changed in between.  Accepted when each condition guarding the step only (then-branch, no else involved) has
    a disjunct that is, textually and with the same polarity, a condition guarding the anchor, over locals /
    parameters that are never assigned after the step's if statement, and that if statement dominates the anchor."""
    gr, ga = _guards(fn, r), _guards(fn, a)
    common = 0
    while common < len(gr) and common < len(ga) and gr[common][0] is ga[common][0] and gr[common][1] == ga[common][1]:
        common += 1
    extra = gr[common:]
    if not extra:
        return False
    anchor_conds = {(F.expr_text(g.get("cond")), pol) for g, pol in ga}
    cfg = fn.cfg
    for g, pol in extra:
        if pol is not True:
            return False
        ds = [d for d in _disjuncts(g.get("cond")) if (F.expr_text(d), True) in anchor_conds]
        if not ds:
            return False
        if not cfg.dominates(g.get("cond"), a):
            return False
        # variables of the correlated condition must be stable between the two tests
        for d in ds[:1]:
            for x in walk(d):
                if x.get("k") == "DeclRefExpr" and x["ref"].get("dk") in ("local", "parm"):
                    decl = x["ref"].get("decl")
                    for w in fn.walk():
                        if w.get("k") in ("BinaryOperator", "CompoundAssignOperator") and w.get("op", "").endswith("=") \
                                and w.get("op") not in ("==", "!=", "<=", ">=") and w["c"][0].get("k") == "DeclRefExpr" \
                                and w["c"][0]["ref"].get("decl") == decl and cfg.dominates(g.get("cond"), w):
                            return False
                elif x.get("k") in ("CallExpr", "CXXMemberCallExpr", "MemberExpr"):
                    return False
    # and the step itself must not sit under a loop/switch the anchor is outside of
    for anc in fn.ancestors(r):
        if anc.get("k") in ("ForStmt", "WhileStmt", "DoStmt", "SwitchStmt", "CXXForRangeStmt", "CXXTryStmt") and \
                not any(y is anc for y in fn.ancestors(a)):
            return False
    return True


def check_entry(ctx, e):
    fx = ctx.facts
    fn = fx.fn(e["fn"], e.get("nparams"), e.get("file"))
    ctx.saw(fn)
    cfg = fn.cfg
    anchors = find_calls(fx, fn, e["anchor"])
    if not anchors:
        raise AnalysisBroken("R-MPT %s: anchor call %s not found in %s" % (e["id"], e["anchor"]["callee"], fn.short))
    n = 0
    for req in e["require"]:
        reqs = find_calls(fx, fn, req)
        for ai, a in enumerate(anchors):
            key = "%s:%s->%s%s" % (e["id"], short(_q(req["callee"])), short(_q(e["anchor"]["callee"])),
                                   "" if len(anchors) == 1 else "#%d" % (ai + 1))
            n += 1
            if e["relation"] == "before":
                good = [r for r in reqs if cfg.dominates(r, a) or _dominates_under_guards(fn, r, a)]
                # a later call that undoes the step (table: "kill") on a path to the anchor cancels it
                for kill in e.get("kill", []):
                    for kc in find_calls(fx, fn, kill):
                        kb, ab = cfg.block_of(kc), cfg.block_of(a)
                        good = [r for r in good if not (cfg.dominates(r, kc) and kb is not None and ab is not None and
                                                        ((kb[0] != ab[0] and ab[0] in cfg.reachable_blocks_from(kb[0])) or (kb[0] == ab[0] and kb[1] < ab[1])))]
                ok = bool(good)
                if not ok and e.get("or_in_callee"):
                    # the step may have been moved into the anchor's callee: there it must dominate every other call
                    callee = fx.functions.get(a.get("calleeKey") or "")
                    if callee is not None and callee.body is not None:
                        inner = find_calls(fx, callee, req)
                        others = [c for c in callee.calls() if c not in inner]
                        ok = bool(inner) and all(any(callee.cfg.dominates(r, c) for r in inner) for c in others
                                                 if callee.cfg.block_of(c) is not None)
                msg = "%s is reached in %s on a path that has not run %s" % (
                    short(_q(e["anchor"]["callee"])), fn.short, short(_q(req["callee"])))
            else:
                ok = any(cfg.postdominates(r, a) for r in reqs)
                msg = "after %s a path of %s reaches the exit without running %s" % (
                    short(_q(e["anchor"]["callee"])), fn.short, short(_q(req["callee"])))
            ctx.report(RULE, key, ok, fn.where(a), fn.short, "" if ok else msg + " (" + e.get("why", "") + ")")
    return n


def run(ctx, prop):
    table = engine.load_table("mpt.json")
    n = 0
    for e in table["rules"]:
        if prop in e["properties"]:
            n += check_entry(ctx, e)
    return n


def rule_mpt_c01(ctx):
    n = run(ctx, "C01")
    ctx.floor(RULE, 8, n, "must-pass-through obligations (C01)")


def rule_mpt_c16(ctx):
    n = run(ctx, "C16")
    ctx.floor(RULE, 2, n, "must-pass-through obligations (C16)")


def rule_mpt_c07(ctx):
    n = run(ctx, "C07")
    ctx.floor(RULE, 1, n, "must-pass-through obligations (C07)")


def rule_mpt_c14(ctx):
    n = run(ctx, "C14")
    ctx.floor(RULE, 1, n, "must-pass-through obligations (C14)")


def rule_mpt_c10(ctx):
    n = run(ctx, "C10")
    ctx.floor(RULE, 4, n, "must-pass-through obligations (C10)")


def rule_mpt_c12(ctx):
    n = run(ctx, "C12")
    ctx.floor(RULE, 2, n, "must-pass-through obligations (C12)")
