"""R-MPT: must-pass-through rules (CFG dominance / post-dominance between call sites).

Each table entry (tables/mpt.json) names a function, an *anchor* call and one or more
*required* calls, all by resolved callee (template-stripped qualified name, optional
arity):
  relation "before": every anchor call is dominated by a required call (the required
                     step has run on every path that reaches the anchor);
  relation "after":  every anchor call is post-dominated by a required call (every
                     path from the anchor to the function's exit runs the required step).
A missing function or anchor is analysis-broken (exit 2), never a pass.
"""
import engine
import facts as F
from facts import AnalysisBroken, strip_targs, short

RULE = "R-MPT"


def _q(name):
    return name if name.startswith(("GNU_gama::", "std::")) else "GNU_gama::" + name


def find_calls(fx, fn, spec):
    """Call nodes of fn matching {"callee": qn, "nargs": n?, "or_overrides": bool?}."""
    want = _q(spec["callee"])
    out = []
    for c in fn.calls():
        cq = strip_targs(c.get("callee") or "")
        if not cq:
            continue
        ok = cq == want
        if not ok and spec.get("or_overrides", True):
            # a call bound statically to an overrider / a base declaration of the same virtual
            name = want.rsplit("::", 1)[-1]
            if cq.rsplit("::", 1)[-1] == name:
                wc, cc = want.rsplit("::", 1)[0], cq.rsplit("::", 1)[0]
                if wc in fx.bases_of(cc) or cc in fx.bases_of(wc):
                    ok = True
        if ok and "nargs" in spec and len(F.call_args(c)) != spec["nargs"]:
            ok = False
        if ok:
            out.append(c)
    return out


def check_entry(ctx, e):
    fx = ctx.facts
    fn = fx.fn(e["fn"], e.get("nparams"), e.get("file"))
    ctx.saw(fn)
    cfg = fn.cfg
    anchors = find_calls(fx, fn, e["anchor"])
    if not anchors:
        raise AnalysisBroken("R-MPT %s: anchor call %s not found in %s" % (e["id"], e["anchor"]["callee"], fn.short))
    n = 0
    for req in e["require"]:
        reqs = find_calls(fx, fn, req)
        for ai, a in enumerate(anchors):
            key = "%s:%s->%s%s" % (e["id"], short(_q(req["callee"])), short(_q(e["anchor"]["callee"])),
                                   "" if len(anchors) == 1 else "#%d" % (ai + 1))
            n += 1
            if e["relation"] == "before":
                ok = any(cfg.dominates(r, a) for r in reqs)
                msg = "%s is reached in %s on a path that has not run %s" % (
                    short(_q(e["anchor"]["callee"])), fn.short, short(_q(req["callee"])))
            else:
                ok = any(cfg.postdominates(r, a) for r in reqs)
                msg = "after %s a path of %s reaches the exit without running %s" % (
                    short(_q(e["anchor"]["callee"])), fn.short, short(_q(req["callee"])))
            ctx.report(RULE, key, ok, fn.where(a), fn.short, "" if ok else msg + " (" + e.get("why", "") + ")")
    return n


def run(ctx, prop):
    table = engine.load_table("mpt.json")
    n = 0
    for e in table["rules"]:
        if prop in e["properties"]:
            n += check_entry(ctx, e)
    return n


def rule_mpt_c01(ctx):
    n = run(ctx, "C01")
    ctx.floor(RULE, 8, n, "must-pass-through obligations (C01)")


def rule_mpt_c16(ctx):
    n = run(ctx, "C16")
    ctx.floor(RULE, 2, n, "must-pass-through obligations (C16)")


def rule_mpt_c07(ctx):
    n = run(ctx, "C07")
    ctx.floor(RULE, 1, n, "must-pass-through obligations (C07)")


def rule_mpt_c14(ctx):
    n = run(ctx, "C14")
    ctx.floor(RULE, 1, n, "must-pass-through obligations (C14)")


def rule_mpt_c10(ctx):
    n = run(ctx, "C10")
    ctx.floor(RULE, 4, n, "must-pass-through obligations (C10)")
