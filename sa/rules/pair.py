"""R-PAIR P2/P3 (ownership of raw buffers) and R-LAZY-L3 (field shadowing in the solver classes).

rule_newdelete  P2  (C11/C19/C04)
    (a) per pointer field, over every function of /repo/lib: the forms of `new` that are
        assigned to the field and the forms of `delete` applied to it agree
        (`new T[n]` <-> `delete[]`, `new T` <-> `delete`);
    (b) per function that is not a destructor: a `delete`/`delete[]` of a field of `this`
        is followed on every CFG path to the function exit by an assignment to that field
        (directly, or inside a member function called on `this` that assigns it on all of
        its paths).  Paths through the non-`case` edges of a switch over an enumeration
        that has a `case` for every enumerator are infeasible and ignored.
rule_memrep     P3  (C15, "copies are independent of their source")
    the owning pointer of MemRep is written only from `new T[..]`, from null, or stolen from
    an rvalue-reference parameter that is nulled afterwards on every path; copy construction
    and copy assignment allocate the source's size, copy exactly that many elements with a
    recognised bulk copy, and do so (or store null) on every path but the self-assignment
    one; classes derived from MemRep hold raw pointers only as non-owning aliases into their
    own buffer that are refreshed before every use.
rule_shadow     L3  (C04)
    in the solver classes a parameter/local that has the name and a compatible type of a
    field is not used in the role the field plays in the class (see the function's doc).
"""
import re

import engine
import facts as F
from facts import AnalysisBroken, strip_targs

import dim as D

RULE = "R-PAIR"
RULE_L3 = "R-LAZY-L3"

_CASTS = D._CASTS
_NULLS = ("CXXNullPtrLiteralExpr", "GNUNullExpr")


def _strip(e):
    while e is not None and e.get("k") in _CASTS and e.get("c"):
        e = e["c"][0]
    return e


def _value(e):
    """value of an expression used as the source of an assignment (a = b = v  ->  v)"""
    e = _strip(e)
    while e is not None and e.get("k") == "BinaryOperator" and e.get("op") == "=":
        e = _strip(e["c"][1])
    return e


def _values(e, depth=0):
    """the expressions whose value an expression can take when used as the source of an
    assignment: through casts/parentheses, chained assignment (a = b = v), the comma operator
    (x, v) and both arms of a conditional expression (c ? v1 : v2)"""
    e = _strip(e)
    if e is None or depth > 8:
        return [e] if e is not None else []
    k = e.get("k")
    c = e.get("c") or []
    if k == "BinaryOperator" and e.get("op") in ("=", ",") and len(c) == 2:
        return _values(c[1], depth + 1)
    if k in ("ConditionalOperator", "BinaryConditionalOperator") and len(c) == 3:
        return _values(c[1], depth + 1) + _values(c[2], depth + 1)
    return [e]


def _is_null(e):
    e = _strip(e)
    return e is not None and (e.get("k") in _NULLS or (e.get("k") == "IntegerLiteral" and e.get("v") == 0))


def _field(e):
    """(owner class, member, base expression) of a field reference, else None"""
    e = _strip(e)
    if e is not None and e.get("k") == "MemberExpr" and e.get("mk") == "field" and e.get("c"):
        return strip_targs(e.get("owner") or ""), e.get("member"), _strip(e["c"][0])
    return None


def _this_field(e):
    f = _field(e)
    if f and f[2] is not None and f[2].get("k") == "CXXThisExpr":
        return f[0], f[1]
    return None


def _in_scope(fn, tab):
    return (fn.body is not None and any(fn.file.startswith(p) for p in tab["scope_prefixes"])
            and not any(fn.file.startswith(p) for p in tab["exclude_prefixes"]))


def _is_dtor(fn):
    return fn.name.startswith("~")


# --------------------------------------------------------------------------- CFG helpers

def _dead_switch_edges(fx, fn):
    """edges (block, successor) that leave a switch over an enumeration through something
    else than a `case` although every enumerator has a `case`"""
    dead = set()
    cfg = fn.cfg
    for b, blk in cfg.blocks.items():
        if blk.get("termK") != "SwitchStmt" or blk.get("cond") is None:
            continue
        cond = fn.nodes.get(blk["cond"])
        if cond is None:
            continue
        en = fx.enums.get(D.tclass(cond.get("t", "")) or "")
        if not en:
            continue
        sw = fn.nodes.get(blk.get("term")) if isinstance(blk.get("term"), int) else None
        vals = set()
        if sw is not None:
            for n in F.walk(sw):
                if n.get("k") == "CaseStmt" and "v" in n:
                    vals.add(n["v"])
        for s in cfg.succ.get(b, []):
            lab = fn.nodes.get(cfg.blocks[s].get("label")) if cfg.blocks[s].get("label") is not None else None
            if lab is not None and lab.get("k") == "CaseStmt" and "v" in lab:
                vals.add(lab["v"])
        if not vals >= {e["v"] for e in en["enumerators"]}:
            continue
        for s in cfg.succ.get(b, []):
            lab = fn.nodes.get(cfg.blocks[s].get("label")) if cfg.blocks[s].get("label") is not None else None
            if lab is None or lab.get("k") != "CaseStmt":
                dead.add((b, s))
    return dead


def _escapes(cfg, starts, avoid, dead):
    """some path from a start block reaches the exit without entering `avoid`"""
    seen = set()
    stack = list(starts)
    while stack:
        b = stack.pop()
        if b in seen or b in avoid:
            continue
        seen.add(b)
        if b == cfg.exit:
            return True
        for s in cfg.succ.get(b, []):
            if (b, s) not in dead:
                stack.append(s)
    return False


# --------------------------------------------------------------------------- P2

class _Assigns:
    """which member functions assign a given field of `this` on every path"""

    def __init__(self, fx, depth):
        self.fx = fx
        self.depth = depth
        self.memo = {}

    def sites(self, fn, field, depth=None):
        """nodes of fn after which `field` (owner, name) of this has certainly been assigned"""
        depth = self.depth if depth is None else depth
        out = []
        for n in fn.walk():
            k = n.get("k")
            if k == "BinaryOperator" and n.get("op") == "=":
                if _this_field(n["c"][0]) == field:
                    out.append(n)
            elif k == "CXXMemberCallExpr" and depth > 0:
                obj = F.call_object(n)
                if obj is not None and obj.get("k") == "CXXThisExpr":
                    g = self.fx.functions.get(n.get("calleeKey"))
                    if g is not None and g.body is not None and self.must(g, field, depth - 1):
                        out.append(n)
        return out

    def must(self, fn, field, depth):
        key = (fn.key, field, depth)
        if key in self.memo:
            return self.memo[key]
        self.memo[key] = False
        cfg = fn.cfg
        blocks = set()
        for n in self.sites(fn, field, depth):
            p = cfg.block_of(n)
            if p:
                blocks.add(p[0])
        r = bool(blocks) and not _escapes(cfg, [cfg.entry], blocks, _dead_switch_edges(self.fx, fn))
        self.memo[key] = r
        return r


class _Dangling:
    """(b): which functions can return with a deleted, not re-assigned field of `this`"""

    def __init__(self, fx, assigns, fns):
        self.fx = fx
        self.assigns = assigns
        self.memo = {}
        self.callers = {}
        for h in fns:
            for c in h.calls():
                if c.get("calleeKey"):
                    self.callers.setdefault(c["calleeKey"], []).append((h, c))

    @staticmethod
    def private(fn):
        return fn.rec.get("access") == 2 and not fn.rec.get("virtual")

    def delete_sites(self, fn, field, depth):
        out = []
        for n in fn.walk():
            k = n.get("k")
            if k == "CXXDeleteExpr" and n.get("c") and _this_field(n["c"][0]) == field:
                out.append(n)
            elif k == "CXXMemberCallExpr" and depth > 0:
                obj = F.call_object(n)
                if obj is not None and obj.get("k") == "CXXThisExpr":
                    g = self.fx.functions.get(n.get("calleeKey"))
                    if g is not None and g.body is not None and self.private(g) and not _is_dtor(g) \
                            and self.leaves(g, field, depth - 1):
                        out.append(n)
        return out

    def leaves(self, fn, field, depth=3):
        """sites of fn (deletes, or calls of private helpers that leave the field deleted) after
        which some path reaches the end of fn without an assignment to the field"""
        key = (fn.key, field, depth)
        if key in self.memo:
            return self.memo[key]
        self.memo[key] = []
        cfg = fn.cfg
        dead = _dead_switch_edges(self.fx, fn)
        spos = [cfg.block_of(s) for s in self.assigns.sites(fn, field)]
        spos = [p for p in spos if p]
        out = []
        for d in self.delete_sites(fn, field, depth):
            p = cfg.block_of(d)
            if p is None:
                raise AnalysisBroken("delete expression not in the CFG of %s" % fn.key)
            if any(q[0] == p[0] and q[1] > p[1] for q in spos):
                continue
            avoid = {q[0] for q in spos} - {p[0]}
            starts = [s for s in cfg.succ.get(p[0], []) if (p[0], s) not in dead]
            if _escapes(cfg, starts, avoid, dead):
                out.append(d)
        self.memo[key] = out
        return out

    def verdict(self, fn, field, depth=3):
        """[] if no caller can observe the dangling field, else what goes wrong"""
        left = self.leaves(fn, field)
        if not left:
            return []
        if not self.private(fn) or depth == 0:
            return ["%s: %s deleted, not assigned again before the function returns" % (fn.where(left[0]), field[1])]
        probs = []
        for h, call in self.callers.get(fn.key, []):
            obj = F.call_object(call)
            if obj is None or obj.get("k") != "CXXThisExpr":
                probs.append("%s: private %s (leaves %s deleted) is called on another object"
                             % (h.where(call), fn.short, field[1]))
                continue
            if _is_dtor(h):
                continue
            if any(x["id"] == call["id"] for x in self.leaves(h, field)):
                sub = self.verdict(h, field, depth - 1) if self.private(h) else \
                    ["%s: %s() leaves %s deleted and %s does not assign it afterwards"
                     % (h.where(call), fn.name, field[1], h.short)]
                probs.extend(sub)
        return probs


def rule_newdelete(ctx):
    fx = ctx.facts
    tab = engine.load_table("pair.json")["newdelete"]
    allocs, rels = {}, {}
    fns = [f for f in sorted(fx.functions.values(), key=lambda f: (f.file, f.line, f.key)) if _in_scope(f, tab)]
    assigns = _Assigns(fx, tab["callee_depth"])
    dang = _Dangling(fx, assigns, fns)
    dangling = {}
    for fn in fns:
        ctx.saw(fn)
        deleted = set()
        for n in fn.walk():
            k = n.get("k")
            if k == "BinaryOperator" and n.get("op") == "=":
                f = _field(n["c"][0])
                if f and D.is_ptr(n["c"][0].get("t", "")):
                    for v in _values(n["c"][1]):
                        if v.get("k") == "CXXNewExpr":
                            allocs.setdefault((f[0], f[1]), {})[(fn.sig, bool(v.get("array")))] = fn.where(n)
            elif k == "CXXDeleteExpr" and n.get("c"):
                f = _field(n["c"][0])
                if f:
                    rels.setdefault((f[0], f[1]), {})[(fn.sig, bool(n.get("array")))] = fn.where(n)
                    tf = _this_field(n["c"][0])
                    if tf and not _is_dtor(fn):
                        deleted.add(tf)
        for init in fn.rec.get("inits", []) or []:
            for v in _values(init.get("init")):
                if init.get("field") and v.get("k") == "CXXNewExpr" and fn.cls:
                    allocs.setdefault((strip_targs(fn.cls), init["field"]), {})[(fn.sig, bool(v.get("array")))] = fn.where(v)
        # (b) a delete outside a destructor is followed by an assignment on every path
        for field in sorted(deleted):
            probs = dang.verdict(fn, field)
            key = "%s:delete-then-assign:%s" % (fn.sig, field[1])
            prev = dangling.get(key)
            if prev is None or (prev[0] and probs):
                dangling[key] = (not probs, fn, field, probs)
    n_pairs = 0
    form = lambda arr, new: ("new T[n]" if arr else "new T") if new else ("delete[]" if arr else "delete")
    for field in sorted(set(allocs) & set(rels)):
        a, r = allocs[field], rels[field]
        akinds = {k[1] for k in a}
        rkinds = {k[1] for k in r}
        ok = len(akinds) == 1 and rkinds == akinds
        n_pairs += 1
        detail = {"allocated": sorted("%s in %s (%s)" % (form(k[1], True), k[0], w) for k, w in a.items()),
                  "released": sorted("%s in %s (%s)" % (form(k[1], False), k[0], w) for k, w in r.items())}
        msg = ""
        where = sorted(r.values())[0]
        if not ok:
            wrong = [w for k, w in sorted(r.items()) if {k[1]} != akinds] or sorted(r.values())
            where = wrong[0]
            msg = ("field %s::%s is allocated with %s but released with %s"
                   % (F.short(field[0]), field[1], " and ".join(sorted(form(x, True) for x in akinds)),
                      " and ".join(sorted(form(x, False) for x in rkinds))))
        ctx.report(RULE, "%s::%s:new-delete-form" % (F.short(field[0]), field[1]), ok, where, "", msg, detail)
    for key, (ok, fn, field, probs) in sorted(dangling.items()):
        msg = ""
        if not ok:
            msg = ("%s is deleted and on some path not assigned again before control returns to a caller outside "
                   "the class: the object keeps a dangling pointer that the next delete (destructor or another "
                   "call) frees a second time [%s]" % (field[1], "; ".join(probs)))
        ctx.report(RULE, key, ok, probs[0].split(": ")[0] if probs else fn.where(), fn.short, msg, {"problems": probs})
    ctx.floor(RULE, tab["floor_fields_paired"], n_pairs, "fields with both new and delete")
    ctx.floor(RULE, tab["floor_delete_outside_destructor"], len(dangling),
              "functions deleting a field of this outside a destructor")


# --------------------------------------------------------------------------- P3

def _is_param_field(e, member, decl=None):
    f = _field(e)
    if not f or f[1] != member or f[2] is None or f[2].get("k") != "DeclRefExpr":
        return None
    ref = f[2]["ref"]
    if ref.get("dk") != "parm" or (decl is not None and ref.get("decl") != decl):
        return None
    return ref.get("decl")


def _branch(fn, node):
    cfg = fn.cfg
    pos = cfg.pos.get(node["id"])
    if pos is None:
        return None
    blk = cfg.blocks[pos[0]]
    raw = blk.get("succ", [])
    els = [e for e in blk.get("el", []) if isinstance(e, int)]
    if len(raw) != 2 or not els or els[-1] != node["id"]:
        return None
    return [x if isinstance(x, int) and x >= 0 else None for x in raw]


class _MemRepFn:
    def __init__(self, fx, fn, cls, pf, sf, copy_names):
        self.fx, self.fn, self.cls, self.pf, self.sf = fx, fn, cls, pf, sf
        self.copy_names = set(copy_names)
        self.cfg = fn.cfg
        self.problems = []

    def this_f(self, e, member):
        return _this_field(e) == (self.cls, member)

    # ---- clause A
    def writes(self):
        out = []
        for n in self.fn.walk():
            if n.get("k") == "BinaryOperator" and n.get("op") == "=" and self.this_f(n["c"][0], self.pf):
                out.append((n, n["c"][1]))
        for init in self.fn.rec.get("inits", []) or []:
            if init.get("field") == self.pf and init.get("init") is not None and init.get("written"):
                out.append((init["init"], init["init"]))
        return out

    def check_sources(self):
        probs = []
        for site, v in [(site, v) for site, rhs in self.writes() for v in _values(rhs)]:
            if v.get("k") == "CXXNewExpr":
                if not v.get("array"):
                    probs.append("%s: buffer allocated with scalar new" % self.fn.where(site))
                continue
            if _is_null(v):
                continue
            d = _is_param_field(v, self.pf)
            if d is not None:
                p = [q for q in self.fn.params if q["decl"] == d][0]
                if not p["t"].rstrip().endswith("&&"):
                    probs.append("%s: stores the buffer pointer of parameter %s, which is not an rvalue reference "
                                 "(two objects would own one buffer)" % (self.fn.where(site), p["name"]))
                    continue
                nulled = [n for n in self.fn.walk()
                          if n.get("k") == "BinaryOperator" and n.get("op") == "="
                          and _is_param_field(n["c"][0], self.pf, d) is not None
                          and all(_is_null(w) for w in _values(n["c"][1]))]
                if not any(self.cfg.postdominates(n, site) for n in nulled):
                    probs.append("%s: steals the buffer of %s without nulling %s.%s on every path afterwards"
                                 % (self.fn.where(site), p["name"], p["name"], self.pf))
                continue
            probs.append("%s: %s assigned from `%s` (neither new[], null, nor a moved-from parameter)"
                         % (self.fn.where(site), self.pf, F.expr_text(v)))
        return probs

    # ---- clause B
    def src_param(self):
        return self.fn.params[0]["decl"]

    def size_equal_at(self, node):
        """this->sz == x.sz is established on every path to node"""
        x = self.src_param()
        for n in self.fn.walk():
            if n.get("k") != "BinaryOperator":
                continue
            a, b = n["c"] if len(n.get("c") or []) == 2 else (None, None)
            if a is None:
                continue
            if n.get("op") == "=" and self.this_f(a, self.sf) and _is_param_field(_value(b), self.sf, x) is not None:
                if self.cfg.dominates(n, node):
                    return True
            if n.get("op") in ("==", "!="):
                pair = (self.this_f(a, self.sf) and _is_param_field(b, self.sf, x) is not None) or \
                       (self.this_f(b, self.sf) and _is_param_field(a, self.sf, x) is not None)
                if not pair:
                    continue
                br = _branch(self.fn, n)
                if br is None:
                    continue
                eq = br[0] if n["op"] == "==" else br[1]
                p = self.cfg.block_of(node)
                if eq is not None and p and eq in self.cfg.dom.get(p[0], ()):
                    return True
        return False

    def is_size(self, e, at):
        e = _strip(e)
        if e is None:
            return False
        if _is_param_field(e, self.sf, self.src_param()) is not None:
            return True
        if self.this_f(e, self.sf):
            return self.size_equal_at(at)
        return False

    def elem_type(self):
        for f in self.fx.cls(self.cls)["fields"]:
            if f["name"] == self.pf:
                return D._cv(f["t"]).rstrip("* ").strip()
        raise AnalysisBroken("MemRep: pointer field %s not found" % self.pf)

    def is_src_ptr(self, e):
        return _is_param_field(e, self.pf, self.src_param()) is not None

    def copy_ok(self, call):
        """None if the bulk copy transfers exactly the source's size elements from x.rep to rep"""
        name = strip_targs(call.get("callee") or "")
        args = F.call_args(call)
        short = name.split("::")[-1]
        if short == "memcpy" and len(args) == 3:
            dst, src, cnt = args
            if not self.this_f(dst, self.pf) or not self.is_src_ptr(src):
                return "memcpy does not copy from the source's buffer into this buffer"
            c = _strip(cnt)
            if c is None or c.get("k") != "BinaryOperator" or c.get("op") != "*":
                return "byte count is not size*sizeof(element)"
            a, b = [_strip(x) for x in c["c"]]
            if a.get("k") == "UnaryExprOrTypeTraitExpr":
                a, b = b, a
            if b.get("k") != "UnaryExprOrTypeTraitExpr":
                return "byte count is not size*sizeof(element)"
            # sizeof(T)  or  sizeof expression  (sizeof *rep, sizeof rep[0], sizeof(x.rep[0]))
            st = b.get("argT") or ((b.get("c") or [{}])[0].get("t", ""))
            st = D._cv(st)
            while st.endswith("&"):
                st = st[:-1].rstrip()
            if st != self.elem_type():
                return "byte count does not use the size of an element (%s)" % self.elem_type()
            if not self.is_size(a, call):
                return "element count `%s` is not the size of the source" % F.expr_text(a)
            return None
        if short == "copy" and len(args) == 3:
            first, last, out = args
            l = _strip(last)
            ok = (self.is_src_ptr(first) and self.this_f(out, self.pf) and l is not None
                  and l.get("k") == "BinaryOperator" and l.get("op") == "+"
                  and self.is_src_ptr(l["c"][0]) and self.is_size(l["c"][1], call))
            return None if ok else "std::copy range is not [x.rep, x.rep + size) -> rep"
        if short == "copy_n" and len(args) == 3:
            first, cnt, out = args
            ok = self.is_src_ptr(first) and self.this_f(out, self.pf) and self.is_size(cnt, call)
            return None if ok else "std::copy_n does not copy size elements from x.rep to rep"
        return "unrecognised copy call"

    def loop_copies(self):
        """element-wise copy loops  for (i = 0; i < size; ++i) rep[i] = x.rep[i];
        -> [(site = the loop condition, None or what is wrong with the range)]"""
        out = []
        for n in self.fn.walk():
            if n.get("k") != "ForStmt":
                continue
            body = n.get("body")
            while body is not None and body.get("k") == "CompoundStmt" and len(body.get("c") or []) == 1:
                body = body["c"][0]
            body = _strip(body)
            if body is None or body.get("k") != "BinaryOperator" or body.get("op") != "=":
                continue
            lhs, rhs = _strip(body["c"][0]), _strip(body["c"][1])
            if lhs.get("k") != "ArraySubscriptExpr" or rhs is None or rhs.get("k") != "ArraySubscriptExpr":
                continue
            if not self.this_f(lhs["c"][0], self.pf) or not self.is_src_ptr(rhs["c"][0]):
                continue
            i1, i2 = _strip(lhs["c"][1]), _strip(rhs["c"][1])
            cond = _strip(n.get("cond"))
            if cond is None:
                continue
            why = None
            same = (i1.get("k") == "DeclRefExpr" and i2.get("k") == "DeclRefExpr"
                    and i1["ref"].get("decl") == i2["ref"].get("decl"))
            if not same:
                why = "copy loop reads and writes different positions"
            else:
                d = i1["ref"].get("decl")
                is_i = lambda e: (_strip(e) or {}).get("k") == "DeclRefExpr" and _strip(e)["ref"].get("decl") == d
                init = n.get("init")
                zero = False
                if init is not None and init.get("k") == "DeclStmt":
                    zero = any(x.get("decl") == d and (_strip(x.get("init")) or {}).get("k") == "IntegerLiteral"
                               and _strip(x["init"]).get("v") == 0 for x in init.get("decls", []))
                elif init is not None and _strip(init).get("k") == "BinaryOperator" and _strip(init).get("op") == "=":
                    a, b = _strip(init)["c"]
                    zero = is_i(a) and (_strip(b) or {}).get("k") == "IntegerLiteral" and _strip(b).get("v") == 0
                inc = _strip(n.get("inc"))
                step = inc is not None and (
                    (inc.get("k") == "UnaryOperator" and inc.get("op") == "++" and is_i(inc["c"][0])) or
                    (inc.get("k") == "CompoundAssignOperator" and inc.get("op") == "+=" and is_i(inc["c"][0])
                     and (_strip(inc["c"][1]) or {}).get("v") == 1))
                bound = (cond.get("k") == "BinaryOperator" and cond.get("op") in ("<", "!=")
                         and is_i(cond["c"][0]) and self.is_size(cond["c"][1], cond))
                if not (zero and step and bound):
                    why = "copy loop does not run over exactly [0, size of the source)"
            out.append((cond, why))
        return out

    def check_copy(self):
        probs = []
        fn, cfg = self.fn, self.cfg
        found = [(n, self.copy_ok(n)) for n in fn.walk() if n.get("k") == "CallExpr"
                 and strip_targs(n.get("callee") or "") in self.copy_names] + self.loop_copies()
        copies = [n for n, why in found]
        allocs, nulls = [], []
        for site, rhs in self.writes():
            vs = _values(rhs)
            for v in vs:
                if v.get("k") == "CXXNewExpr":
                    allocs.append((site, v))
            if vs and all(_is_null(v) for v in vs):
                nulls.append(site)
        if not copies:
            elementwise = any(n.get("k") in ("ArraySubscriptExpr",) or (n.get("k") == "UnaryOperator" and n.get("op") == "*"
                              and (n.get("c") or [{}])[0].get("k") != "CXXThisExpr") for n in fn.walk())
            if elementwise:
                raise AnalysisBroken("MemRep copy idiom in %s is not one of memcpy/std::copy/std::copy_n/"
                                     "for (i=0; i<size; ++i) rep[i] = x.rep[i] - teach R-PAIR P3 the new form" % fn.key)
            return ["the elements of the source are never copied"]
        for c, why in found:
            if why:
                probs.append("%s: %s" % (fn.where(c), why))
        for site, v in allocs:
            size = (v.get("c") or [None])[0]
            if not self.is_size(size, site):
                probs.append("%s: allocates `%s` elements, not the size of the source"
                             % (fn.where(site), F.expr_text(size)))
            if not any(cfg.postdominates(c, site) for c in copies):
                probs.append("%s: a freshly allocated buffer is not filled on every path" % fn.where(site))
        # every path except self-assignment copies (or stores null for an empty source)
        done = set()
        for n in copies + nulls:
            p = cfg.block_of(n)
            if p:
                done.add(p[0])
        x = self.src_param()
        for n in fn.walk():
            if n.get("k") == "BinaryOperator" and n.get("op") in ("==", "!="):
                a, b = [_strip(q) for q in n["c"]]
                def addr_of_x(e):
                    return (e.get("k") == "UnaryOperator" and e.get("op") == "&" and e.get("c")
                            and _strip(e["c"][0]).get("k") == "DeclRefExpr"
                            and _strip(e["c"][0])["ref"].get("decl") == x)
                if (addr_of_x(a) and b.get("k") == "CXXThisExpr") or (addr_of_x(b) and a.get("k") == "CXXThisExpr"):
                    br = _branch(fn, n)
                    if br:
                        same = br[0] if n["op"] == "==" else br[1]
                        if same is not None:
                            done.add(same)
        if _escapes(cfg, [cfg.entry], done, set()):
            probs.append("some path through the function neither copies the source's elements nor stores null")
        return probs


def rule_memrep(ctx):
    fx = ctx.facts
    tab = engine.load_table("pair.json")["memrep"]
    cls, pf, sf = tab["class"], tab["pointer_field"], tab["size_field"]
    rec = fx.cls(cls)
    have = {f["name"]: f for f in rec["fields"]}
    if pf not in have or sf not in have or not D.is_ptr(have[pf]["t"]):
        raise AnalysisBroken("MemRep no longer has the pointer field %s / size field %s" % (pf, sf))
    others = [f["name"] for f in rec["fields"] if D.is_ptr(f["t"]) and f["name"] != pf]
    ctx.report(RULE, "MemRep:single-owning-pointer", not others, "%s:%d" % (rec["file"], rec["line"]), "",
               "MemRep has further raw pointer fields: %s" % others if others else "")
    results = {}
    n_writers = 0
    copy_fns = 0
    for fn in sorted(fx.methods_of(cls), key=lambda f: f.key):
        if fn.body is None:
            continue
        ctx.saw(fn)
        a = _MemRepFn(fx, fn, cls, pf, sf, tab["copy_functions"])
        if a.writes():
            probs = a.check_sources()
            key = "%s:%s-source" % (fn.sig, pf)
            if key not in results or (results[key][0] and probs):
                results[key] = (not probs, fn, probs)
        is_copy = (len(fn.params) == 1 and D.tclass(fn.params[0]["t"]) == cls
                   and "const" in fn.params[0]["t"] and not fn.params[0]["t"].rstrip().endswith("&&")
                   and fn.name in (cls.split("::")[-1], "operator="))
        if is_copy:
            probs = a.check_copy()
            key = "%s:deep-copy-of-exactly-size-elements" % fn.sig
            if key not in results or (results[key][0] and probs):
                results[key] = (not probs, fn, probs)
    for key, (ok, fn, probs) in sorted(results.items()):
        if key.endswith("-source"):
            n_writers += 1
        else:
            copy_fns += 1
        ctx.report(RULE, key, ok, fn.where(), fn.short, "; ".join(probs), {"problems": probs})
    ctx.floor(RULE, tab["floor_rep_writers"], n_writers, "MemRep functions writing the owning pointer")
    ctx.floor(RULE, 2, copy_fns, "MemRep copy constructor and copy assignment")
    # derived classes: raw pointers only as refreshed aliases into their own buffer
    model = D.Model(fx, engine.load_table("dim.json"))
    derived = sorted(c for c in model.hier if c != cls)
    ptr_fields = {}
    for c in derived:
        r = fx.classes.get(c)
        for f in (r or {}).get("fields", []):
            if D.is_ptr(f["t"]):
                ptr_fields.setdefault((c, f["name"]), f["t"])
    scope_fns = [f for f in fx.functions.values() if f.file.startswith(tab["scope_prefix"]) and f.body is not None]
    for fn in scope_fns:
        for n in fn.walk():
            if n.get("k") == "MemberExpr" and n.get("mk") == "field" and D.is_ptr(n.get("t", "")):
                o = strip_targs(n.get("owner") or "")
                if o in model.hier and o != cls:
                    ptr_fields.setdefault((o, n["member"]), n.get("t"))
    bad_by_class = {}
    for (c, name), t in sorted(ptr_fields.items()):
        probs = _alias_field(fx, model, scope_fns, c, name)
        if probs:
            bad_by_class.setdefault(c, []).extend("%s: %s" % (name, p) for p in probs)
    for c in derived:
        probs = bad_by_class.get(c, [])
        r = fx.classes.get(c)
        where = "%s:%d" % (r["file"], r["line"]) if r else ""
        ctx.report(RULE, "%s:raw-pointers-are-refreshed-aliases" % F.short(c), not probs, where, "",
                   "; ".join(probs), {"pointer_fields": sorted(n for (cc, n) in ptr_fields if cc == c)})
    ctx.floor(RULE, tab["floor_derived_classes"], len(derived), "classes derived from MemRep")


def _alias_field(fx, model, scope_fns, cls, name):
    """problems of raw pointer field cls::name of a MemRep-derived class"""
    probs = []
    field = (cls, name)
    seen_sites = set()

    def fresh_assign_sites(fn):
        out = []
        an = None
        for n in fn.walk():
            if n.get("k") == "BinaryOperator" and n.get("op") == "=" and _this_field(n["c"][0]) == field:
                if an is None:
                    an = D.Analysis(model, fn)
                    an._operands()
                    an._flow()
                vs = _values(n["c"][1])
                if vs and all(an.ptr_owners(v) == {"this"} for v in vs):
                    out.append(n)
        return out

    for fn in scope_fns:
        mine = fn.cls and strip_targs(fn.cls) in ({cls} | {c for c in model.hier if cls in model.bases(c)})
        an = None
        for n in fn.walk():
            k = n.get("k")
            if k == "CXXDeleteExpr" and n.get("c") and (_field(n["c"][0]) or (None, None))[:2] == field:
                probs.append("deleted in %s - an owning pointer next to MemRep's buffer" % fn.sig)
            if k == "BinaryOperator" and n.get("op") == "=":
                f = _field(n["c"][0])
                if f and f[:2] == field:
                    for v in _values(n["c"][1]):
                        if v.get("k") == "CXXNewExpr":
                            probs.append("assigned from new in %s - an owning pointer next to MemRep's buffer" % fn.sig)
                        elif not _is_null(v):
                            if an is None:
                                an = D.Analysis(model, fn)
                                an._operands()
                                an._flow()
                            own = an.ptr_owners(v)
                            if own != {"this"} or _this_field(n["c"][0]) != field:
                                probs.append("assigned in %s from `%s`, which is not a pointer into the object's own "
                                             "buffer" % (fn.sig, F.expr_text(v)))
        if not mine:
            continue
        # reads
        reads = []
        for n in fn.walk():
            if n.get("k") == "MemberExpr" and _this_field(n) == field:
                p = fn.parent(n)
                if p is not None and p.get("k") == "BinaryOperator" and p.get("op") == "=" and p["c"][0]["id"] == n["id"]:
                    continue
                reads.append(n)
        if not reads:
            continue
        fresh = fresh_assign_sites(fn)
        stale = [r for r in reads if not any(fn.cfg.dominates(a, r) for a in fresh)]
        if not stale:
            continue
        sig = fn.sig
        if sig in seen_sites:
            continue
        seen_sites.add(sig)
        # the reader relies on its callers: it must be private, non-virtual, and every call must come from
        # a member function in which a refreshing assignment dominates the call
        if fn.rec.get("access") != 2 or fn.rec.get("virtual"):
            probs.append("read in %s without a refreshing assignment from the object's own buffer before it" % sig)
            continue
        callers = 0
        for g in fx.functions.values():
            if g.body is None:
                continue
            gfresh = None
            for c in g.calls():
                if c.get("calleeKey") != fn.key:
                    continue
                callers += 1
                obj = F.call_object(c)
                if obj is None or obj.get("k") != "CXXThisExpr":
                    probs.append("%s (reads the alias) is called on another object in %s" % (sig, g.sig))
                    continue
                if gfresh is None:
                    gfresh = fresh_assign_sites(g)
                if not any(g.cfg.dominates(a, c) for a in gfresh):
                    probs.append("%s (reads the alias) is called in %s without a refreshing assignment before the call"
                                 % (sig, g.sig))
        if callers == 0:
            probs.append("read in %s, which nobody calls after refreshing the alias" % sig)
    return sorted(set(probs))


# --------------------------------------------------------------------------- L3

_ARITH = {"int", "unsigned int", "long", "unsigned long", "short", "unsigned short", "long long",
          "unsigned long long", "char", "unsigned char", "signed char", "bool", "float", "double", "long double"}
_STMT_PARENTS = ("CompoundStmt", "IfStmt", "ForStmt", "WhileStmt", "DoStmt", "DeclStmt", "ReturnStmt",
                 "SwitchStmt", "CaseStmt", "DefaultStmt", "LabelStmt", "CXXTryStmt", "CXXCatchStmt",
                 "CXXForRangeStmt")


def _norm_t(t):
    s = D._cv(t)
    while s.endswith("&"):
        s = s[:-1].rstrip()
    return re.sub(r"\s+", " ", s)


def _compatible(ft, vt):
    a, b = _norm_t(ft), _norm_t(vt)
    if a == b:
        return True
    # array parameters decay: T[] == T*
    a2, b2 = re.sub(r"\[\d*\]$", " *", a).replace("  ", " "), re.sub(r"\[\d*\]$", " *", b).replace("  ", " ")
    if a2 == b2:
        return True
    return a in _ARITH and b in _ARITH


def _shape(e, target_id, depth=0):
    """position-free rendering: the target reference is <F>, fields of this keep their name,
    locals and parameters are reduced to their type"""
    if e is None:
        return ""
    if e.get("id") == target_id:
        return "<F>"
    if depth > 14:
        return "..."
    k = e.get("k")
    c = e.get("c") or []
    sub = lambda x: _shape(x, target_id, depth + 1)
    if k == "DeclRefExpr":
        r = e["ref"]
        if r.get("dk") in ("local", "parm"):
            return "$" + _norm_t(e.get("t", ""))
        return r.get("qn") or r.get("name", "?")
    if k == "MemberExpr":
        if c and c[0].get("k") == "CXXThisExpr":
            return "this." + e.get("member", "?")
        return sub(c[0]) + "." + e.get("member", "?") if c else e.get("member", "?")
    if k == "CXXThisExpr":
        return "this"
    if k in ("IntegerLiteral", "FloatingLiteral", "CXXBoolLiteralExpr", "CharacterLiteral", "StringLiteral"):
        return repr(e.get("v"))
    if k in ("BinaryOperator", "CompoundAssignOperator") and len(c) == 2:
        return "(%s %s %s)" % (sub(c[0]), e.get("op"), sub(c[1]))
    if k == "UnaryOperator" and c:
        return "(%s%s%s)" % ("" if e.get("postfix") else e.get("op"), sub(c[0]), e.get("op") if e.get("postfix") else "")
    if k == "CXXNewExpr":
        return "new %s%s(%s)" % (_norm_t(e.get("allocT", "")), "[]" if e.get("array") else "", ",".join(sub(x) for x in c))
    if k == "ArraySubscriptExpr" and len(c) == 2:
        return "%s[%s]" % (sub(c[0]), sub(c[1]))
    if F.is_call(e):
        return "%s(%s)" % (strip_targs(e.get("callee") or e.get("ctor") or "?"),
                           ",".join(sub(x) for x in (c if k.startswith("CXXConstruct") or k.startswith("CXXTemporary") else c[1:])))
    if k in _CASTS and c:
        return sub(c[0]) if k == "ImplicitCastExpr" else "(%s)%s" % (_norm_t(e.get("castTo", e.get("t", ""))), sub(c[0]))
    return "%s(%s)" % (k, ",".join(sub(x) for x in F.children(e)))


def _top_expr(fn, node):
    cur = node
    while True:
        p = fn.parent(cur)
        if p is None or p.get("k") in _STMT_PARENTS:
            return cur
        cur = p


def rule_shadow(ctx):
    """L3.  A parameter or local of a solver-class method that has the name of a field of the
    class (or of a base) is reported when all of the following hold:
      1. its type is compatible with the field's (identical up to cv/reference, array/pointer decay,
         or both arithmetic) - otherwise the two cannot be confused without a compile error;
      2. the function does not store it into the field (`this->f = f`, the setter idiom);
      3. it occurs in an expression that also involves another field of `this` and that has, with
         the field in its place, the same shape as an expression of a method of the class - i.e. it
         is used in the role the field plays for the object (size/stride/bound of a member array).
    Every shadowing is an instance; those failing 1-3 are reported as holding."""
    fx = ctx.facts
    tab = engine.load_table("pair.json")["shadow"]
    n_methods = 0
    done = set()
    for cq in tab["classes"]:
        rec = fx.cls(cq)
        fields = {}
        for c in [strip_targs(rec["qn"])] + fx.bases_of(cq):
            r = fx.classes.get(c)
            for f in (r or {}).get("fields", []):
                fields.setdefault(f["name"], f["t"])
        methods = [m for m in fx.methods_of(cq) if m.body is not None]
        field_shapes = {}     # field name -> set of shapes
        def shapes_of_field(name):
            if name not in field_shapes:
                s = set()
                for g in methods:
                    for n in g.walk():
                        if n.get("k") == "MemberExpr" and n.get("mk") == "field" and n.get("member") == name \
                                and n.get("c") and n["c"][0].get("k") == "CXXThisExpr":
                            s.add(_shape(_top_expr(g, n), n["id"]))
                field_shapes[name] = s
            return field_shapes[name]
        for m in sorted(methods, key=lambda f: f.key):
            if m.sig in done:
                continue
            done.add(m.sig)
            n_methods += 1
            ctx.saw(m)
            shadows = []
            for p in m.params:
                if p["name"] in fields:
                    shadows.append((p["name"], p["decl"], p["t"], "parameter"))
            for n in m.walk():
                if n.get("k") == "DeclStmt":
                    for d in n.get("decls", []):
                        if d.get("name") in fields and "decl" in d:
                            shadows.append((d["name"], d["decl"], d.get("t", ""), "local"))
            seen = set()
            for name, decl, vt, what in shadows:
                if name in seen:
                    continue
                seen.add(name)
                key = "%s:shadow:%s" % (m.sig, name)
                ft = fields[name]
                if not _compatible(ft, vt):
                    ctx.ok(RULE_L3, key, m.where(), m.short,
                           detail={"verdict": "types differ (%s vs field %s): cannot stand in for the field" % (vt, ft)})
                    continue
                uses = [n for n in m.walk() if n.get("k") == "DeclRefExpr" and n["ref"].get("decl") == decl]
                stored = any(n.get("k") == "BinaryOperator" and n.get("op") == "="
                             and _this_field(n["c"][0]) is not None and _this_field(n["c"][0])[1] == name
                             and any(w.get("k") == "DeclRefExpr" and w["ref"].get("decl") == decl
                                     for w in _values(n["c"][1])) for n in m.walk())
                stored = stored or any(i.get("field") == name and (_strip(i.get("init")) or {}).get("k") == "DeclRefExpr"
                                       and _strip(i["init"])["ref"].get("decl") == decl
                                       for i in (m.rec.get("inits") or []))
                if stored:
                    ctx.ok(RULE_L3, key, m.where(), m.short, detail={"verdict": "stored into the field it shadows"})
                    continue
                fs = shapes_of_field(name)
                hits = []
                for u in uses:
                    sh = _shape(_top_expr(m, u), u["id"])
                    if "this." in sh and sh in fs:
                        hits.append((m.where(u), sh))
                if hits:
                    ctx.bad(RULE_L3, key, hits[0][0], m.short,
                            "%s `%s` hides the field %s::%s of the same type and is used where the class uses the "
                            "field: %s" % (what, name, F.short(cq), name, "; ".join(sorted({h[1] for h in hits}))),
                            {"uses": hits})
                else:
                    ctx.ok(RULE_L3, key, m.where(), m.short,
                           detail={"verdict": "same type, but never used in a role the field has in the class"})
    ctx.floor(RULE_L3, tab["floor_methods_scanned"], n_methods, "solver-class methods scanned for shadowing")


# =========================================================================== P4 ownership hand-over

def _strip_casts(n):
    while n is not None and n.get("k") in ("ImplicitCastExpr", "ParenExpr", "CStyleCastExpr", "CXXConstCastExpr",
                                            "CXXStaticCastExpr", "CXXReinterpretCastExpr") and n.get("c"):
        n = n["c"][0]
    return n


def _owned_fields(fx):
    """(class, field) -> where: pointer members the class itself deletes, unless every such delete sits under a
    condition on *another* member (`if (internal_data) delete[] A;` - ownership decided at run time)."""
    owned = {}
    conditional = set()
    for fn in fx.functions.values():
        if fn.body is None or fn.cls is None:
            continue
        for n in fn.walk():
            if n.get("k") != "CXXDeleteExpr":
                continue
            a = _strip_casts((n.get("c") or [None])[0])
            if a is None or not F.is_this_field(a):
                continue
            key = (strip_targs(a.get("owner") or fn.cls), a["member"])
            guarded_by_other = False
            for anc in fn.ancestors(n):
                if anc.get("k") == "IfStmt" and isinstance(anc.get("cond"), dict):
                    for x in F.walk(anc["cond"]):
                        if F.is_this_field(x) and x.get("member") != a["member"]:
                            guarded_by_other = True
            if guarded_by_other:
                conditional.add(key)
            else:
                owned.setdefault(key, fn.where(n))
    return owned, conditional


def rule_ownership_handover(ctx):
    """P4: one owner per object.  A pointer member that its class deletes is *owned* by it.  A function that stores
    a pointer parameter into an owned member of its own class *adopts* the argument (`void set_mat(SparseMatrix<>* p)
    { delete A; A = p; }`).  When a method hands one of its class's owned members to an adopting function, both
    objects would delete the same memory - unless the method gives the pointer up: the member is assigned (to null, to
    a fresh object) after the call on every path to the exit.  gama hands matrices over like this in three places
    (`input.set_mat(Asp); Asp = nullptr;`); a hand-over without giving up is a double free on the next run."""
    fx = ctx.facts
    owned, conditional = _owned_fields(fx)
    adopt = {}
    for fn in fx.functions.values():
        if fn.body is None or fn.cls is None:
            continue
        pd = {p["decl"]: i for i, p in enumerate(fn.params) if "*" in p["t"]}
        if not pd:
            continue
        for n in fn.walk():
            if n.get("k") == "BinaryOperator" and n.get("op") == "=" and F.is_this_field(n["c"][0]):
                r = _strip_casts(n["c"][1])
                if r is not None and r.get("k") == "DeclRefExpr" and r["ref"].get("decl") in pd:
                    key = (strip_targs(n["c"][0].get("owner") or fn.cls), n["c"][0]["member"])
                    if key in owned:
                        adopt.setdefault(fn.key, {})[pd[r["ref"]["decl"]]] = key
        for i in fn.rec.get("inits", []) or []:
            r = _strip_casts(i.get("init"))
            key = (strip_targs(fn.cls), i.get("field"))
            if r is not None and r.get("k") == "DeclRefExpr" and r["ref"].get("decl") in pd and key in owned:
                adopt.setdefault(fn.key, {})[pd[r["ref"]["decl"]]] = key
    # wrappers: a function that passes its own pointer parameter on to an adopting parameter adopts as well
    for _ in range(4):
        grew = False
        for fn in fx.functions.values():
            if fn.body is None:
                continue
            pd = {p["decl"]: i for i, p in enumerate(fn.params) if "*" in p["t"]}
            if not pd:
                continue
            for c in fn.calls():
                ad = adopt.get(c.get("calleeKey"))
                if not ad or c.get("calleeKey") == fn.key:
                    continue
                args = F.call_args(c)
                for i, tgt in ad.items():
                    if i < len(args):
                        a = _strip_casts(args[i])
                        if a is not None and a.get("k") == "DeclRefExpr" and a["ref"].get("decl") in pd:
                            j = pd[a["ref"]["decl"]]
                            if adopt.setdefault(fn.key, {}).get(j) is None:
                                adopt[fn.key][j] = tgt
                                grew = True
        if not grew:
            break
    n = 0
    for fn in sorted(fx.functions.values(), key=lambda f: f.key):
        if fn.body is None or fn.cls is None:
            continue
        for c in fn.calls():
            ad = adopt.get(c.get("calleeKey"))
            if not ad:
                continue
            args = F.call_args(c)
            for i, tgt in sorted(ad.items()):
                if i >= len(args):
                    continue
                a = _strip_casts(args[i])
                if a is None or not F.is_this_field(a):
                    continue
                src = (strip_targs(a.get("owner") or fn.cls), a["member"])
                if src not in owned:
                    continue          # the caller never deletes it: a plain hand-over
                ctx.saw(fn)
                n += 1
                cfg = fn.cfg
                gives_up = [w for w in fn.walk() if w.get("k") == "BinaryOperator" and w.get("op") == "="
                            and F.is_this_field(w["c"][0], a["member"])]
                ok = any(cfg.postdominates(w, c) for w in gives_up)
                callee = fx.functions.get(c.get("calleeKey"))
                ctx.report(RULE, "P4:%s:%s->%s" % (fn.sig, a["member"], F.short(callee.qn) if callee else "?"), ok,
                           fn.where(c), fn.short,
                           "" if ok else "`%s` is deleted by %s (%s) and is handed to %s, which stores it in its own `%s` and "
                           "deletes it too; %s does not give the pointer up after the call (no assignment to `%s` on every "
                           "path to the exit): the object is freed twice" % (
                               a["member"], F.short(src[0]), owned[src], F.short(callee.qn) if callee else "?", tgt[1],
                               fn.short, a["member"]),
                           {"owner_delete": owned[src], "adopted_into": "%s::%s" % (F.short(tgt[0]), tgt[1])})
    ctx.floor(RULE, 4, n, "ownership hand-overs of an owned member")
    return {"owned_members": len(owned), "conditionally_owned": sorted("%s::%s" % (F.short(c), f) for c, f in conditional),
            "adopting_functions": len(adopt)}


# =========================================================================== P5 no use after giving up

P5_CLASSES = {
    "GNU_gama::local::LocalNetwork": "the network object lives on after the adjustment and serves --obs, the project-equation accessors and re-adjustments",
    "GNU_gama::g3::Model": "the model is linearised again in iterations",
}


def _is_null(n):
    n = _strip_casts(n)
    if n is None:
        return False
    if n.get("k") in ("CXXNullPtrLiteralExpr", "GNUNullExpr"):
        return True
    return n.get("k") == "IntegerLiteral" and int(n.get("v", 1)) == 0


def _field_derefs(fn, field):
    """nodes that dereference this-><field>: f->m, f->m(), *f, f[i]"""
    out = []
    for n in fn.walk():
        k = n.get("k")
        c = n.get("c") or []
        if k == "MemberExpr" and n.get("arrow") and c and F.is_this_field(_strip_casts(c[0]), field):
            out.append(n)
        elif k == "UnaryOperator" and n.get("op") == "*" and c and F.is_this_field(_strip_casts(c[0]), field):
            out.append(n)
        elif k == "ArraySubscriptExpr" and c and F.is_this_field(_strip_casts(c[0]), field):
            out.append(n)
    return out


def rule_no_use_after_handover(ctx):
    """P5: a member that a method gives up (`Asp = nullptr` after `input.set_mat(Asp)`) is null from then on.
    Every dereference of such a member, in any method of the class, must be preceded on every path by a fresh
    assignment (or a null test) that no later give-up - directly or inside a member called on `this` - can undo.
    Methods that are only called back by a visitor object are checked at the place where that visitor is built."""
    fx = ctx.facts
    n_inst = 0
    details = {}
    for cls, why in sorted(P5_CLASSES.items()):
        fx.cls(cls)
        methods = [m for m in fx.methods_of(cls) if m.body is not None]
        bykey = {m.key: m for m in methods}
        # members given up somewhere outside constructors / destructors
        given = {}
        for m in methods:
            if m.rec.get("ctor") or m.rec.get("dtor"):
                continue
            for n in m.walk():
                if n.get("k") == "BinaryOperator" and n.get("op") == "=" and F.is_this_field(n["c"][0]) and _is_null(n["c"][1]) \
                        and "*" in (n["c"][0].get("t") or ""):
                    given.setdefault(n["c"][0]["member"], []).append((m, n))
        for field, gives in sorted(given.items()):
            # does a method (transitively, through calls on this) possibly leave the member null at its exit?
            may_null = {}

            def leaves_null(m, stack=()):
                if m.key in may_null:
                    return may_null[m.key]
                if m.key in stack:
                    return False
                res = False
                fresh = [w for w in m.walk() if w.get("k") == "BinaryOperator" and w.get("op") == "=" and
                         F.is_this_field(w["c"][0], field) and not _is_null(w["c"][1])]
                killers = [g for mm, g in gives if mm.key == m.key]
                for c in m.calls():
                    callee = bykey.get(c.get("calleeKey") or "")
                    obj = F.call_object(c) if c.get("k") == "CXXMemberCallExpr" else None
                    if callee is not None and callee.key != m.key and (obj is None or obj.get("k") == "CXXThisExpr") \
                            and leaves_null(callee, stack + (m.key,)):
                        killers.append(c)
                for g in killers:
                    if not any(m.cfg.postdominates(w, g) for w in fresh):
                        res = True
                may_null[m.key] = res
                return res

            def site_safe(m, d):
                """a fresh assignment / null test dominates d and nothing that may null the member lies between"""
                cfg = m.cfg
                est = [w for w in m.walk() if w.get("k") == "BinaryOperator" and w.get("op") == "=" and
                       F.is_this_field(w["c"][0], field) and not _is_null(w["c"][1]) and cfg.dominates(w, d)]
                # null tests: d inside the then-branch of `if (f)` / `if (f != nullptr)`
                for anc in m.ancestors(d):
                    if anc.get("k") in ("IfStmt", "ConditionalOperator"):
                        cond = anc.get("cond") if anc.get("k") == "IfStmt" else (anc.get("c") or [None])[0]
                        then = anc.get("then") if anc.get("k") == "IfStmt" else (anc.get("c") or [None, None])[1]
                        cc = _strip_casts(cond)
                        tested = cc is not None and (F.is_this_field(cc, field) or (
                            cc.get("k") == "BinaryOperator" and cc.get("op") == "!=" and
                            any(F.is_this_field(_strip_casts(x), field) for x in cc["c"]) and any(_is_null(x) for x in cc["c"])))
                        if tested and isinstance(then, dict) and any(x.get("id") == d.get("id") for x in F.walk(then)):
                            return True
                if not est:
                    return False
                killers = [g for mm, g in gives if mm.key == m.key]
                for c in m.calls():
                    callee = bykey.get(c.get("calleeKey") or "")
                    obj = F.call_object(c) if c.get("k") == "CXXMemberCallExpr" else None
                    if callee is not None and callee.key != m.key and (obj is None or obj.get("k") == "CXXThisExpr") and leaves_null(callee):
                        killers.append(c)
                db = cfg.block_of(d)
                for e in est:
                    undone = False
                    for g in killers:
                        gb = cfg.block_of(g)
                        if gb is None or db is None:
                            continue
                        reaches = (gb[0] != db[0] and db[0] in cfg.reachable_blocks_from(gb[0])) or (gb[0] == db[0] and gb[1] < db[1])
                        if cfg.dominates(e, g) and reaches:
                            undone = True
                    if not undone:
                        return True
                return False

            for m in sorted(methods, key=lambda f: f.key):
                if m.rec.get("dtor"):
                    continue
                ds = _field_derefs(m, field)
                if not ds:
                    continue
                ctx.saw(m)
                unsafe = [d for d in ds if not site_safe(m, d)]
                ok = not unsafe
                how = "local"
                if unsafe:
                    # visitor callback? every call site of m lies in a class V whose objects are built only inside
                    # methods of this class, at a point where the member is established and not given up while the
                    # visitor is in use
                    callers = [(g, c) for g in fx.functions.values() if g.body is not None
                               for c in g.calls() if c.get("calleeKey") == m.key]
                    vclasses = {strip_targs(g.cls) for g, c in callers if g.cls and strip_targs(g.cls) != cls}
                    inner = [(g, c) for g, c in callers if g.cls and strip_targs(g.cls) == cls]
                    if callers and all(site_safe(g, c) for g, c in inner) and (vclasses or inner):
                        good = True
                        for V in vclasses:
                            built = []
                            vfiles = {g.file for g, c in callers if g.cls and strip_targs(g.cls) == V}
                            anonymous = "(anonymous namespace)" in V
                            for g in fx.functions.values():
                                if g.body is None:
                                    continue
                                for x in g.walk():
                                    if x.get("k") == "DeclStmt":
                                        for dcl in x.get("decls", []) or []:
                                            t = strip_targs((dcl.get("t") or "").replace("class ", "").replace("const ", "").strip())
                                            same = (t == V) or (anonymous and t.split("::")[-1] == V.split("::")[-1] and g.file in vfiles)
                                            if same:
                                                built.append((g, x))
                            if not built:
                                good = False
                            for g, x in built:
                                if not (g.cls and strip_targs(g.cls) == cls and site_safe(g, x)):
                                    good = False
                        if good:
                            ok = True
                            how = "visitor callback, checked where the visitor is built"
                n_inst += 1
                ctx.report(RULE, "P5:%s:%s" % (m.sig, field), ok, m.where(unsafe[0]) if unsafe else m.where(), m.short,
                           "" if ok else "`%s` is dereferenced here, but %s gives the pointer up (`%s = nullptr` after handing the object "
                           "over) and nothing on the way re-establishes it: a null pointer dereference after %s" % (
                               field, ", ".join(sorted({F.short(mm.qn) for mm, g in gives})), field,
                               ", ".join(sorted({F.short(mm.qn) for mm, g in gives}))),
                           {"derefs": len(ds), "how": how})
            details["%s::%s" % (F.short(cls), field)] = {"given_up_in": sorted({F.short(mm.qn) for mm, g in gives})}
    ctx.floor(RULE, 3, n_inst, "methods dereferencing a member that is given up elsewhere")
    return {"given_up_members": details}
