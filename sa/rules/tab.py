"""R-TAB / R-VIS: exhaustiveness and table agreement (T1-T4, V2, V3).

Everything is read from the exported AST/CFG (plus xml/*.xsd and xml/ellipsoids.xml parsed with
xml.etree): which string literal / enumerator guards which CFG region, what that region
constructs, assigns or prints.  No source text, no line numbers, no statement order.

Shared machinery
  * string dispatch: a CFG block whose (effective) terminator condition compares a subject with a
    string literal (`s == "x"`, `s != "x"`, `!strcmp(s,"x")`, `strcmp(..)==0`, ...); the
    *region of a name* is the set of blocks dominated by the successor taken on equality,
    provided that successor can only be entered from comparisons of the same subject;
    the *default region* is the one entered when every comparison of the chain fails.
  * enum dispatch: `switch` over a value of an enum type; the region of a case is what is
    reachable from its label without leaving the switch statement.
"""
import os
import re
import xml.etree.ElementTree as ET

import facts as F
from facts import AnalysisBroken, walk, is_call, call_args, short, strip_targs
from engine import load_table

TAB = "R-TAB"
VIS = "R-VIS"
XS = "{http://www.w3.org/2001/XMLSchema}"

_CASTS = ("ImplicitCastExpr", "CStyleCastExpr", "CXXStaticCastExpr", "CXXFunctionalCastExpr")


# ------------------------------------------------------------------------------- generic helpers

def _table():
    return load_table("tab.json")


def _fname(fn):
    """Stable display/key name of a function: class-qualified short name; free functions of
    the programs under src/ are prefixed with their file (several programs define main)."""
    if fn.file.startswith(("src/", "scripts/")) and not fn.cls:
        return "%s:%s" % (os.path.basename(fn.file), fn.short.replace("(anonymous namespace)::", ""))
    return fn.short.replace("(anonymous namespace)::", "(anon)::")


def _peel(n):
    """Strip value-preserving casts and single-argument std::string temporaries."""
    while n is not None:
        k = n.get("k")
        c = n.get("c") or []
        if k in _CASTS and c:
            n = c[0]
        elif k in ("CXXConstructExpr", "CXXTemporaryObjectExpr") and len(
                [a for a in c if a.get("k") != "CXXDefaultArgExpr"]) == 1:
            n = [a for a in c if a.get("k") != "CXXDefaultArgExpr"][0]
        else:
            break
    return n


def _num(n):
    """Numeric constant of a literal expression (casts peeled, unary minus folded) or None."""
    n = _peel(n)
    if n is None:
        return None
    if n.get("k") in ("IntegerLiteral", "FloatingLiteral"):
        try:
            return float(n.get("v"))
        except (TypeError, ValueError):
            return None
    if n.get("k") == "UnaryOperator" and n.get("op") in ("-", "+") and n.get("c"):
        v = _num(n["c"][0])
        if v is None:
            return None
        return -v if n["op"] == "-" else v
    return None


def _type_is(t, qn):
    if not t:
        return False
    t = t.replace("const ", "").replace("volatile ", "").replace("&", "").strip()
    return t == qn


def _raw_succ(cfg, bid):
    """Positional successors (clang: [taken when the condition is true, false]); pruned -> None."""
    out = []
    for s in cfg.blocks[bid].get("succ", []) or []:
        out.append(s if (s is not None and s >= 0) else None)
    return out


def _eff_cond(fn, bid):
    """The comparison whose value decides the terminator of block bid: for `a && b` / `a || b`
    reached after `a`, that is `b`."""
    blk = fn.cfg.blocks[bid]
    c = blk.get("cond")
    if c is None:
        return None
    n = fn.nodes.get(c)
    while n is not None and n.get("k") == "BinaryOperator" and n.get("op") in ("&&", "||"):
        n = n["c"][1]
    return n


def _subject_key(n):
    n = _peel(n)
    if n is None:
        return None
    if n.get("k") == "DeclRefExpr":
        r = n["ref"]
        return ("v", r.get("decl") if r.get("decl") is not None else r.get("qn") or r.get("name"))
    return ("e", F.expr_text(n))


def _is_strcmp(n):
    if n.get("k") != "CallExpr":
        return False
    cal = strip_targs(n.get("callee") or "")
    return cal in ("strcmp", "std::strcmp")


def _lit(n):
    n = _peel(n)
    if n is not None and n.get("k") == "StringLiteral":
        return n.get("v")
    return None


def parse_str_compare(n):
    """(subject node, literal, equal_when_true) for a condition that tests a subject against a
    string literal, else None."""
    neg = False
    while n is not None:
        n = _peel(n) if n.get("k") in _CASTS else n
        if n.get("k") == "UnaryOperator" and n.get("op") == "!" and n.get("c"):
            neg = not neg
            n = n["c"][0]
            continue
        break
    if n is None:
        return None
    k = n.get("k")
    res = None
    if k == "CXXOperatorCallExpr" and n.get("op") in ("==", "!="):
        args = call_args(n)
        if len(args) == 2:
            for a, b in ((args[0], args[1]), (args[1], args[0])):
                if _lit(b) is not None and _lit(a) is None:
                    res = (a, _lit(b), n["op"] == "==")
    elif _is_strcmp(n):
        args = call_args(n)
        if len(args) == 2:
            for a, b in ((args[0], args[1]), (args[1], args[0])):
                if _lit(b) is not None and _lit(a) is None:
                    res = (a, _lit(b), False)          # strcmp() is true when different
    elif k == "BinaryOperator" and n.get("op") in ("==", "!="):
        l, r = n["c"]
        for a, b in ((l, r), (r, l)):
            a = _peel(a)
            if a is not None and _is_strcmp(a) and _num(b) == 0.0:
                inner = parse_str_compare(a)
                if inner:
                    res = (inner[0], inner[1], n["op"] == "==")
    if res is None:
        return None
    subj, lit, eq = res
    return subj, lit, (eq != neg)


class Cmp:
    __slots__ = ("block", "node", "subj", "skey", "lit", "eq", "neq")

    def __init__(self, block, node, subj, lit, eq, neq):
        self.block, self.node, self.subj, self.lit, self.eq, self.neq = block, node, subj, lit, eq, neq
        self.skey = _subject_key(subj)


def str_compares(fn):
    """All string-literal comparisons that decide a CFG branch of fn."""
    out = []
    cfg = fn.cfg
    for bid in cfg.reach:
        ss = _raw_succ(cfg, bid)
        if len(ss) != 2:
            continue
        n = _eff_cond(fn, bid)
        if n is None:
            continue
        p = parse_str_compare(n)
        if not p:
            continue
        subj, lit, eq_true = p
        eq, neq = (ss[0], ss[1]) if eq_true else (ss[1], ss[0])
        out.append(Cmp(bid, n, subj, lit, eq, neq))
    return out


def dom_region(cfg, start, allowed_preds):
    """Blocks dominated by `start` when start can only be entered from allowed_preds
    (back edges from inside the region are ignored); else the empty set."""
    if start is None or start not in cfg.reach:
        return set()
    for p in cfg.pred.get(start, []):
        if p in allowed_preds or p not in cfg.reach:
            continue
        if start in cfg.dom.get(p, ()):
            continue
        return set()
    return {b for b in cfg.reach if start in cfg.dom[b]}


def region_nodes(fn, blocks):
    for b in sorted(blocks):
        for e in fn.cfg.blocks[b].get("el", []) or []:
            if isinstance(e, int):
                n = fn.nodes.get(e)
                if n is not None:
                    yield n


class StrDispatch:
    """One chain of comparisons of the same subject: name -> region, default region."""

    def __init__(self, fn, cmps):
        self.fn = fn
        self.cmps = cmps
        cfg = fn.cfg
        chain_blocks = {c.block for c in cmps}
        self.regions = {}
        for c in cmps:
            preds = {d.block for d in cmps if d.eq == c.eq}
            r = dom_region(cfg, c.eq, preds)
            self.regions.setdefault(c.lit, set()).update(r)
        self.default_starts = sorted({c.neq for c in cmps if c.neq is not None and c.neq not in chain_blocks})
        self.default = set()
        for s in self.default_starts:
            preds = {d.block for d in cmps if d.neq == s}
            self.default |= dom_region(cfg, s, preds)

    @property
    def names(self):
        return sorted(self.regions)


def str_dispatches(fn):
    """Group the string comparisons of fn by subject."""
    groups = {}
    for c in str_compares(fn):
        if c.skey is not None:
            groups.setdefault(c.skey, []).append(c)
    return {k: StrDispatch(fn, v) for k, v in groups.items()}


def enum_switches(fn, enum_qn):
    """[(switch node, {value: [label block]}, default label block or None, case nodes)]"""
    out = []
    cfg = fn.cfg
    label_block = {}
    for bid, b in cfg.blocks.items():
        if b.get("label") is not None:
            label_block[b["label"]] = bid
    for n in fn.walk():
        if n.get("k") != "SwitchStmt" or not _type_is((n.get("cond") or {}).get("t"), enum_qn):
            continue
        cases, default = {}, None
        stack = [n.get("body")]
        while stack:
            x = stack.pop()
            if x is None:
                continue
            if x.get("k") == "SwitchStmt":
                continue
            if x.get("k") == "CaseStmt" and "v" in x:
                cases.setdefault(x["v"], []).append(x)
            elif x.get("k") == "DefaultStmt":
                default = x
            stack.extend(F.children(x))
        out.append((n, cases, default, label_block))
    return out


def switch_region(fn, sw, start_block):
    """Blocks reachable from start_block without leaving the switch statement sw."""
    if start_block is None:
        return set()
    cfg = fn.cfg
    ids = {x["id"] for x in walk(sw)}
    seen, stack, res = set(), [start_block], set()
    while stack:
        b = stack.pop()
        if b in seen or b == cfg.exit:
            continue
        seen.add(b)
        blk = cfg.blocks[b]
        els = [e for e in (blk.get("el") or []) if isinstance(e, int)]
        inside = any(e in ids for e in els) or (blk.get("label") in ids)
        if els and not inside:
            continue                                        # first statement after the switch
        if inside:
            res.add(b)
        for s in _raw_succ(cfg, b):                         # (an empty join block is transparent)
            if s is not None:
                stack.append(s)
    return res


def _assigned_enum_refs(fn, blocks, enum_qn):
    """Enumerators of enum_qn that a region *uses as a value* (assigned, passed, returned) -
    references inside comparisons and case labels do not count."""
    out = {}
    for n in region_nodes(fn, blocks):
        if n.get("k") == "DeclRefExpr" and n["ref"].get("dk") == "enumconst" and n["ref"].get("enum") == enum_qn:
            p = fn.parent(n)
            while p is not None and p.get("k") in _CASTS:
                p = fn.parent(p)
            if p is not None and p.get("k") in ("CaseStmt",):
                continue
            if p is not None and p.get("k") == "BinaryOperator" and p.get("op") in ("==", "!=", "<", ">", "<=", ">="):
                continue
            out[n["ref"]["name"]] = n
    return out


def _constructed(fn, blocks, classes):
    """Classes (template-stripped) out of `classes` constructed in the region."""
    out = {}
    for n in region_nodes(fn, blocks):
        if n.get("k") in ("CXXConstructExpr", "CXXTemporaryObjectExpr"):
            c = strip_targs(n.get("ctor") or "")
            if not c:
                c = strip_targs(n.get("callee") or "").rsplit("::", 1)[0]
            if c in classes and not n.get("copyOrMove"):
                out[c] = n
    return out


def _string_literals(fn, blocks):
    return [n.get("v") for n in region_nodes(fn, blocks) if n.get("k") == "StringLiteral"]


def _has_effect(fn, blocks):
    """The region does something observable: a call, an assignment, a return or a throw."""
    for n in region_nodes(fn, blocks):
        k = n.get("k")
        if is_call(n) or k in ("ReturnStmt", "CXXThrowExpr"):
            return True
        if k in ("BinaryOperator", "CompoundAssignOperator") and n.get("op", "").endswith("=") and n.get("op") not in (
                "==", "!=", "<=", ">="):
            return True
    for b in blocks:
        if fn.cfg.blocks[b].get("termK") in ("ReturnStmt", "CXXThrowExpr"):
            return True
    return False


def _bases_qnt(fx, qnt):
    """Transitive bases by *instantiated* name (Accept<g3::X, g3::Observation> != Accept<local::..>)."""
    out, todo, seen = [], [qnt], set()
    while todo:
        c = todo.pop()
        rec = fx.class_insts.get(c)
        if rec is None:
            rec = fx.classes.get(strip_targs(c))
        if rec is None:
            continue
        for b in rec.get("bases", []):
            q = b.get("qnt") or b.get("t")
            if q and q not in seen:
                seen.add(q)
                out.append(q)
                todo.append(q)
    return out


def _targ(qnt):
    """Single template argument of `X<arg>`."""
    m = re.match(r"^[^<]+<(.*)>$", qnt)
    return m.group(1).strip() if m else None


def _tokens(s):
    return {t for t in re.split(r"[^A-Za-z0-9]+", s.lower()) if t}


def _contradicting_match(own, text, others):
    """Name of another enumerator whose identifier words fit `text` strictly better than the
    words of `own` do (evidence of swapped table entries); None when own is (one of) the best."""
    tt = _tokens(text)

    def score(e):
        et = _tokens(e)
        return len(et & tt) - 0.01 * len(et - tt)
    mine = score(own)
    best = None
    for o in others:
        if o != own and score(o) > mine + 0.5:
            if best is None or score(o) > score(best):
                best = o
    return best


# ------------------------------------------------------------------------------- T1 algorithms

ALG_ENUM = "GNU_gama::Adj::algorithm"
SOLVER_ROOT = "GNU_gama::AdjBase"
LN_SET = "GNU_gama::local::LocalNetwork::set_algorithm"


def _solver_classes(fx):
    fx.cls(SOLVER_ROOT)
    der = set(fx.derived_from(SOLVER_ROOT))
    concrete = {c for c in der if not fx.classes[c].get("abstract")}
    if len(concrete) < 2:
        raise AnalysisBroken("fewer than two concrete solver classes derive from %s" % SOLVER_ROOT)
    return der | {SOLVER_ROOT}, concrete


def _selector_dispatch(fn, concrete, want):
    """The string dispatch of fn whose regions select a solver (`want` = 'class': constructs a
    solver object, 'enum': yields an Adj::algorithm enumerator)."""
    best = None
    for key, d in str_dispatches(fn).items():
        n = 0
        for name, reg in d.regions.items():
            if want == "class" and _constructed(fn, reg, concrete):
                n += 1
            if want == "enum" and _assigned_enum_refs(fn, reg, ALG_ENUM):
                n += 1
        if n and (best is None or n > best[0]):
            best = (n, d)
    return best[1] if best else None


def _alias_vars(fn, seed_nodes):
    """Variables an argument is made of, closed over local declarations initialised from one
    another (`const std::string algorithm = argv_algo;`)."""
    keys = set()
    for s in seed_nodes:
        for x in walk(s):
            if x.get("k") == "DeclRefExpr" and x["ref"].get("dk") in ("local", "staticlocal", "parm", "global", "staticmember"):
                keys.add(_subject_key(x))
    decls = []
    for n in fn.walk():
        if n.get("k") == "DeclStmt":
            for d in n.get("decls", []):
                if d.get("init") is not None and d.get("decl") is not None:
                    refs = {_subject_key(x) for x in walk(d["init"])
                            if x.get("k") == "DeclRefExpr" and x["ref"].get("dk") in ("local", "staticlocal", "parm", "global", "staticmember")}
                    decls.append((("v", d["decl"]), refs))
    changed = True
    while changed:
        changed = False
        for dk, refs in decls:
            if dk not in keys and refs & keys:
                keys.add(dk)
                changed = True
    return keys


def _value_compares(fn, calls):
    """String comparisons in fn that test the value passed to `calls` (argument variables and
    locals initialised from them).  A comparison that sits inside a region guarded by the
    dispatch of a *different* subject (e.g. the attribute-name chain of a parser: `name ==
    "angular"` -> `value == "400"`) counts only when that region also contains the call."""
    alias = _alias_vars(fn, [a for c in calls for a in call_args(c)])
    disp = str_dispatches(fn)
    call_blocks = {fn.cfg.block_of(c)[0] for c in calls if fn.cfg.block_of(c)}
    foreign = []
    for key, d in disp.items():
        if key in alias:
            continue
        for name, reg in d.regions.items():
            if reg:
                foreign.append(reg)
    out = []
    seen = set()
    for key, d in disp.items():
        if key not in alias:
            continue
        for c in d.cmps:
            if all((c.block not in reg) or (call_blocks & reg) for reg in foreign):
                out.append(c)
                seen.add(c.node["id"])
    # comparisons whose truth value is stored or returned instead of branched on
    # (`const bool known = a == "x" || a == "y";` - the last operand decides no branch)
    extra = []
    for n in fn.walk():
        if n["id"] in seen or n.get("k") not in ("CXXOperatorCallExpr", "CallExpr", "BinaryOperator"):
            continue
        pc = parse_str_compare(n)
        if not pc or _subject_key(pc[0]) not in alias:
            continue
        pos = fn.cfg.block_of(n)
        blk = pos[0] if pos else None
        if all((blk not in reg) or (call_blocks & reg) for reg in foreign):
            if not any(x["id"] in seen for x in walk(n)):
                extra.append(pc[1])
                seen.add(n["id"])
    return out, extra


def _xsd_algorithm(root):
    path = os.path.join(root, "xml", "gama-local.xsd")
    if not os.path.exists(path):
        raise AnalysisBroken("xml/gama-local.xsd not found under %s" % root)
    try:
        tree = ET.parse(path)
    except ET.ParseError as e:
        raise AnalysisBroken("xml/gama-local.xsd is not well-formed: %s" % e)
    found = []
    for a in tree.getroot().iter(XS + "attribute"):
        if a.get("name") == "algorithm":
            vals = [e.get("value") for e in a.iter(XS + "enumeration")]
            found.append((vals, a.get("default")))
    if len(found) != 1:
        raise AnalysisBroken("expected exactly one attribute 'algorithm' in gama-local.xsd, found %d" % len(found))
    return found[0]


def rule_algorithms(ctx):
    fx = ctx.facts
    tab = _table()["algorithms"]
    solver_all, concrete = _solver_classes(fx)
    enum = fx.enum(ALG_ENUM)
    enumerators = {e["name"]: e["v"] for e in enum["enumerators"]}
    by_value = {v: k for k, v in enumerators.items()}

    # ---- LocalNetwork::set_algorithm: name -> solver class, fallback
    ln = fx.fn(LN_SET)
    ctx.saw(ln)
    d_ln = _selector_dispatch(ln, concrete, "class")
    if d_ln is None:
        raise AnalysisBroken("LocalNetwork::set_algorithm: no string dispatch that constructs solver objects")
    ln_map = {}
    for name, reg in d_ln.regions.items():
        ln_map[name] = sorted(_constructed(ln, reg, concrete))
    ln_fallback = sorted(_constructed(ln, d_ln.default, concrete))
    ln_fallback_names = [s for s in _string_literals(ln, d_ln.default)]

    # ---- Adj::init_least_squares: enumerator -> solver class ; Adj::set_algorithm: accepted enumerators
    ils = fx.fn("GNU_gama::Adj::init_least_squares")
    ctx.saw(ils)
    sw = enum_switches(ils, ALG_ENUM)
    if len(sw) != 1:
        raise AnalysisBroken("Adj::init_least_squares: expected one switch over Adj::algorithm, found %d" % len(sw))
    sw_node, cases, default, lab = sw[0]
    ils_map, ils_default = {}, []
    for v, nodes in cases.items():
        reg = set()
        for cn in nodes:
            reg |= switch_region(ils, sw_node, lab.get(cn["id"]))
        ils_map[by_value.get(v, str(v))] = sorted(_constructed(ils, reg, concrete))
    if default is not None:
        ils_default = sorted(_constructed(ils, switch_region(ils, sw_node, lab.get(default["id"])), concrete))

    aset = fx.fn("GNU_gama::Adj::set_algorithm")
    ctx.saw(aset)
    sw2 = enum_switches(aset, ALG_ENUM)
    aset_accept = {}
    aset_default_stores = None
    field_store = lambda fn_, reg: any(
        n.get("k") == "BinaryOperator" and n.get("op") == "=" and F.is_this_field(n["c"][0])
        and _type_is(n["c"][0].get("t"), ALG_ENUM) for n in region_nodes(fn_, reg))
    if len(sw2) == 1:
        sw2_node, cases2, default2, lab2 = sw2[0]
        for v, nodes in cases2.items():
            reg = set()
            for cn in nodes:
                reg |= switch_region(aset, sw2_node, lab2.get(cn["id"]))
            aset_accept[by_value.get(v, str(v))] = field_store(aset, reg)
        if default2 is not None:
            aset_default_stores = field_store(aset, switch_region(aset, sw2_node, lab2.get(default2["id"])))
        unguarded_store = False
    else:
        # no switch: the setter stores whatever it is given (every enumerator accepted)
        unguarded_store = any(n.get("k") == "BinaryOperator" and n.get("op") == "=" and F.is_this_field(n["c"][0])
                              and _type_is(n["c"][0].get("t"), ALG_ENUM) for n in aset.walk())
        if not unguarded_store:
            raise AnalysisBroken("Adj::set_algorithm: neither a switch over Adj::algorithm nor a store of the field")
        for e in enumerators:
            aset_accept[e] = True

    # ---- every function that turns a name into an Adj::algorithm enumerator (gama-g3 CLI)
    enum_selectors = []
    enum_printers = []
    for fn in fx.functions.values():
        if fn.body is None:
            continue
        refs = [n for n in fn.walk() if n.get("k") == "DeclRefExpr" and n["ref"].get("dk") == "enumconst"
                and n["ref"].get("enum") == ALG_ENUM]
        if not refs or fn.key in (ils.key, aset.key):
            continue
        d = _selector_dispatch(fn, concrete, "enum")
        if d is not None:
            enum_selectors.append((fn, d))
        pr = _enum_printer(fn)
        if pr:
            enum_printers.append((fn, pr))
    if not enum_selectors:
        raise AnalysisBroken("no function maps algorithm names to Adj::algorithm enumerators (gama-g3 CLI vanished?)")

    # ---- callers of LocalNetwork::set_algorithm with an explicit argument
    forwarders = []
    for fn in fx.functions.values():
        if fn.body is None or fn.key == ln.key:
            continue
        calls = [n for n in fn.calls() if strip_targs(n.get("callee") or "") == LN_SET]
        explicit = [n for n in calls if [a for a in call_args(n) if a.get("k") != "CXXDefaultArgExpr"]]
        if explicit:
            forwarders.append((fn, explicit))
    defaulted_call = any(strip_targs(n.get("callee") or "") == LN_SET and
                         not [a for a in call_args(n) if a.get("k") != "CXXDefaultArgExpr"]
                         for fn in fx.functions.values() if fn.body is not None for n in fn.calls())

    fwd_info = []
    for fn, calls in forwarders:
        ctx.saw(fn)
        rel, extra = _value_compares(fn, calls)
        validated = {}
        for c in rel:
            validated.setdefault(c.lit, []).append(c)
        for lit in extra:
            validated.setdefault(lit, [])
        vd = StrDispatch(fn, rel) if rel else None
        call_blocks = {fn.cfg.block_of(c)[0] for c in calls if fn.cfg.block_of(c)}
        fwd_info.append((fn, calls, validated, vd, call_blocks))

    xsd_vals, xsd_default = _xsd_algorithm(ctx.root)

    # ---- the universe of names
    U = set(ln_map) | set(xsd_vals)
    for fn, d in enum_selectors:
        U |= set(d.regions)
    for fn, calls, validated, vd, cb in fwd_info:
        U |= set(validated)
    for fn, pr in enum_printers:
        U |= {s for s in pr["map"].values() if s is not None}
    U = sorted(U)
    ctx.floor(TAB, 4, len(U), "algorithm names")

    # name -> enumerator through the (first) enumerator selector: links string sites to enum sites
    g3fn, g3d = enum_selectors[0]
    g3_map = {name: sorted(_assigned_enum_refs(g3fn, reg, ALG_ENUM)) for name, reg in g3d.regions.items()}

    n_sites = 0

    # site: LocalNetwork::set_algorithm
    site = _fname(ln)
    n_sites += 1
    used = {}
    for name in U:
        cls = ln_map.get(name)
        key = "%s:algorithm:%s" % (site, name)
        if cls is None:
            how = ("falls back silently to %s" % ",".join(map(short, ln_fallback))) if ln_fallback else "is not handled"
            ctx.bad(TAB, key, ln.where(), site, "name '%s' (accepted elsewhere) has no branch here and %s" % (name, how))
        elif len(cls) != 1:
            ctx.bad(TAB, key, ln.where(), site, "branch of '%s' constructs %s (exactly one solver expected)"
                    % (name, [short(c) for c in cls] or "no solver"))
        elif cls[0] in used:
            ctx.bad(TAB, key, ln.where(), site, "'%s' and '%s' select the same solver class %s"
                    % (name, used[cls[0]], short(cls[0])))
        else:
            used[cls[0]] = name
            ctx.ok(TAB, key, ln.where(), site, detail={"solver": short(cls[0])})
    key = "%s:algorithm:unknown-name" % site
    if not ln_fallback:
        ctx.ok(TAB, key, ln.where(), site, detail={"unknown": "no solver selected"})
    else:
        # a declared fallback: the name stored for algorithm() must denote the solver constructed
        declared = [s for s in ln_fallback_names if s in ln_map]
        ok = len(ln_fallback) == 1 and len(declared) == 1 and ln_map.get(declared[0]) == ln_fallback
        ctx.report(TAB, key, ok, ln.where(), site,
                   "" if ok else "the fallback for an unknown name constructs %s but records the name %s "
                   "(algorithm() would report a solver that is not the one in use)"
                   % ([short(c) for c in ln_fallback], declared or ln_fallback_names),
                   {"fallback": [short(c) for c in ln_fallback], "recorded": declared})

    # sites: callers of LocalNetwork::set_algorithm
    exempt = tab.get("unchecked_forwarders", {})
    for fn, calls, validated, vd, call_blocks in sorted(fwd_info, key=lambda x: _fname(x[0])):
        site = _fname(fn)
        n_sites += 1
        where = fn.where(calls[0])
        if validated:
            for name in U:
                key = "%s:algorithm:%s" % (site, name)
                ok = name in validated
                ctx.report(TAB, key, ok, where, site,
                           "" if ok else "name '%s' is accepted elsewhere but rejected by this check" % name)
            # unknown name: decided only in the positive - every path from the failed check leaves
            # the function without reaching set_algorithm.  Anything else (a flag that is tested
            # later, a negated disjunction, ...) would need path sensitivity and is not claimed.
            key = "%s:algorithm:unknown-name" % site
            reach = set()
            for s in vd.default_starts:
                reach |= fn.cfg.reachable_blocks_from(s)
            if vd.default_starts and vd.default and not (call_blocks & reach):
                ctx.ok(TAB, key, where, site, detail={"unknown": "refused before set_algorithm"})
            else:
                ctx.note("R-TAB T1: %s: what happens to an unknown name after the check is not decided" % site)
        else:
            for name in U:
                key = "%s:algorithm:%s" % (site, name)
                ok = name in ln_map
                ctx.report(TAB, key, ok, where, site,
                           "" if ok else "forwards to set_algorithm which has no branch for '%s'" % name)
            key = "%s:algorithm:unknown-name" % site
            if not ln_fallback:
                ctx.ok(TAB, key, where, site)
            elif site in exempt:
                ctx.ok(TAB, key, where, site, detail={"exempt": exempt[site]})
            else:
                ctx.bad(TAB, key, where, site, "the value is forwarded unchecked to LocalNetwork::set_algorithm, which "
                        "silently selects %s for any name outside %s" % (short(ln_fallback[0]), sorted(ln_map)))
    stale = [s for s in exempt if s not in {_fname(f[0]) for f in fwd_info}]
    if stale:
        ctx.note("R-TAB T1: stale table entries (functions that no longer call set_algorithm): %s" % stale)

    # sites: name -> enumerator selectors (gama-g3)
    for fn, d in enum_selectors:
        ctx.saw(fn)
        site = _fname(fn)
        n_sites += 1
        m = {name: sorted(_assigned_enum_refs(fn, reg, ALG_ENUM)) for name, reg in d.regions.items()}
        used = {}
        for name in U:
            key = "%s:algorithm:%s" % (site, name)
            es = m.get(name)
            where = fn.where(d.cmps[0].node)
            if es is None:
                ctx.bad(TAB, key, where, site, "name '%s' (accepted elsewhere) is not accepted here" % name)
                continue
            if len(es) != 1:
                ctx.bad(TAB, key, where, site, "branch of '%s' yields enumerators %s" % (name, es))
                continue
            e = es[0]
            if e in used:
                ctx.bad(TAB, key, where, site, "'%s' and '%s' select the same enumerator %s" % (name, used[e], e))
                continue
            used[e] = name
            cls_g3 = ils_map.get(e)
            cls_ln = ln_map.get(name)
            if cls_ln is not None and cls_g3 is not None and cls_g3 != cls_ln:
                ctx.bad(TAB, key, where, site, "'%s' selects %s in gama-g3 (enumerator %s) but %s in gama-local"
                        % (name, [short(c) for c in cls_g3], e, [short(c) for c in cls_ln]))
            else:
                ctx.ok(TAB, key, where, site, detail={"enumerator": e})
        key = "%s:algorithm:unknown-name" % site
        sel = _assigned_enum_refs(fn, d.default, ALG_ENUM)
        where = fn.where(d.cmps[0].node)
        if sel:
            ctx.bad(TAB, key, where, site, "an unknown name silently selects %s" % sorted(sel))
        elif not _has_effect(fn, d.default) and not any(
                _extra_effect(fn, reg, ALG_ENUM) for reg in d.regions.values()):
            ctx.bad(TAB, key, where, site, "an unknown name is silently ignored (no branch distinguishes it from a "
                    "valid one): the default solver is used")
        else:
            ctx.ok(TAB, key, where, site)

    # site: the enum itself - every enumerator is selected by exactly one name
    n_sites += 1
    sel_by = {}
    for name, es in g3_map.items():
        for e in es:
            sel_by.setdefault(e, []).append(name)
    for e in sorted(enumerators):
        key = "Adj::algorithm:enumerator:%s" % e
        names = sel_by.get(e, [])
        ok = len(names) == 1
        ctx.report(TAB, key, ok, "%s:%s" % (enum["file"], enum["line"]), "Adj::algorithm",
                   "" if ok else "enumerator %s is selected by %s" % (e, names or "no name"))

    # site: Adj::set_algorithm / Adj::init_least_squares
    n_sites += 2
    used = {}
    for e in sorted(enumerators):
        key = "Adj::set_algorithm:algorithm:%s" % e
        ok = bool(aset_accept.get(e))
        ctx.report(TAB, key, ok, aset.where(), aset.short,
                   "" if ok else "enumerator %s is not stored by the setter (no case, or its case does not assign "
                   "the field)" % e)
        key = "Adj::init_least_squares:algorithm:%s" % e
        cls = ils_map.get(e)
        if not cls:
            ctx.bad(TAB, key, ils.where(), ils.short, "enumerator %s has no case constructing a solver%s"
                    % (e, (" (default constructs %s)" % [short(c) for c in ils_default]) if ils_default else ""))
        elif len(cls) != 1:
            ctx.bad(TAB, key, ils.where(), ils.short, "case %s constructs %s (missing break?)" % (e, [short(c) for c in cls]))
        elif cls[0] in used:
            ctx.bad(TAB, key, ils.where(), ils.short, "%s and %s construct the same solver %s" % (e, used[cls[0]], short(cls[0])))
        else:
            used[cls[0]] = e
            ctx.ok(TAB, key, ils.where(), ils.short, detail={"solver": short(cls[0])})
    ctx.report(TAB, "Adj::init_least_squares:algorithm:unknown", not ils_default, ils.where(), ils.short,
               "" if not ils_default else "the default branch silently constructs %s" % [short(c) for c in ils_default])
    ok = not (aset_default_stores or unguarded_store)
    ctx.report(TAB, "Adj::set_algorithm:algorithm:unknown", ok, aset.where(), aset.short,
               "" if ok else "a value outside the enumerators is stored without a check")

    # sites: enumerator -> printed name (g3 result writer)
    for fn, pr in enum_printers:
        ctx.saw(fn)
        site = _fname(fn)
        n_sites += 1
        inv = {}
        for name, es in g3_map.items():
            if len(es) == 1:
                inv[es[0]] = name
        for e in sorted(enumerators):
            key = "%s:algorithm:%s" % (site, e)
            s = pr["map"].get(e)
            if s is None:
                ctx.bad(TAB, key, fn.where(), site, "enumerator %s has no branch printing its name" % e)
            elif inv.get(e) != s:
                ctx.bad(TAB, key, fn.where(), site, "enumerator %s is printed as '%s' but selected by the name '%s'"
                        % (e, s, inv.get(e)))
            else:
                ctx.ok(TAB, key, fn.where(), site, detail={"printed": s})

    # site: XSD
    n_sites += 1
    xw = "xml/gama-local.xsd"
    for name in U:
        key = "gama-local.xsd:algorithm:%s" % name
        ok = name in xsd_vals
        ctx.report(TAB, key, ok, xw, "", "" if ok else "name '%s' is accepted by the programs but is not in the "
                   "enumeration of attribute 'algorithm'" % name)
    if len(set(xsd_vals)) != len(xsd_vals):
        ctx.bad(TAB, "gama-local.xsd:algorithm:duplicates", xw, "", "duplicate enumeration values %s" % xsd_vals)
    if xsd_default is not None and defaulted_call and ln_fallback:
        declared = [s for s in ln_fallback_names if s in ln_map]
        ok = declared == [xsd_default]
        ctx.report(TAB, "gama-local.xsd:algorithm:default", ok, xw, "",
                   "" if ok else "the schema documents default=\"%s\" but LocalNetwork::set_algorithm() without a "
                   "name selects '%s' (%s)" % (xsd_default, ",".join(declared), ",".join(short(c) for c in ln_fallback)),
                   {"assumption": "the default argument of set_algorithm is not one of the explicit names "
                                  "(default-argument expressions are not exported)"})

    ctx.floor(TAB, 8, n_sites, "sites encoding the algorithm name set")
    ctx.floor(TAB, 2, len(forwarders), "callers of LocalNetwork::set_algorithm(name)")
    return {"names": U, "ln_map": ln_map, "ils_map": ils_map, "g3_map": g3_map}


def _extra_effect(fn, blocks, enum_qn):
    """A name region does more than yield the enumerator (e.g. `ok = true`): then an empty
    default region is not 'silently ignored'."""
    for n in region_nodes(fn, blocks):
        if n.get("k") == "BinaryOperator" and n.get("op") == "=":
            rhs = _peel(n["c"][1])
            if rhs is not None and rhs.get("k") == "DeclRefExpr" and rhs["ref"].get("enum") == enum_qn:
                continue
            return True
        if n.get("k") in ("ReturnStmt", "CXXThrowExpr") or n.get("k") in ("CallExpr", "CXXMemberCallExpr"):
            return True
    return False


def _enum_compares(fn, enum_qn):
    """[(block, enumerator name, eq successor, neq successor, node)] for branches deciding
    `x == Enum::e` / `x != Enum::e`."""
    out = []
    cfg = fn.cfg
    for bid in cfg.reach:
        ss = _raw_succ(cfg, bid)
        if len(ss) != 2:
            continue
        n = _eff_cond(fn, bid)
        neg = False
        while n is not None and n.get("k") == "UnaryOperator" and n.get("op") == "!":
            neg = not neg
            n = n["c"][0]
        if n is None or n.get("k") != "BinaryOperator" or n.get("op") not in ("==", "!="):
            continue
        l, r = _peel(n["c"][0]), _peel(n["c"][1])
        for a, b in ((l, r), (r, l)):
            if (b is not None and b.get("k") == "DeclRefExpr" and b["ref"].get("dk") == "enumconst"
                    and b["ref"].get("enum") == enum_qn and a is not None
                    and not (a.get("k") == "DeclRefExpr" and a["ref"].get("dk") == "enumconst")):
                eq_true = (n["op"] == "==") != neg
                eq, neq = (ss[0], ss[1]) if eq_true else (ss[1], ss[0])
                out.append((bid, b["ref"]["name"], eq, neq, n))
                break
    return out


def _enum_printer(fn):
    """enumerator -> the single string literal its branch uses (a writer of the algorithm name)."""
    cmps = _enum_compares(fn, ALG_ENUM)
    if not cmps:
        return None
    m = {}
    for bid, e, eq, neq, n in cmps:
        reg = dom_region(fn.cfg, eq, {c[0] for c in cmps if c[2] == eq})
        lits = _string_literals(fn, reg)
        m[e] = lits[0] if len(lits) == 1 else None
    if not any(v is not None for v in m.values()):
        return None
    return {"map": m}


# ------------------------------------------------------------------------------- T4 who may depend

def rule_who_depends(ctx):
    """Where the identity of the solver may be looked at.  Kinds of site:
       dyncast  - dynamic_cast to a class of the AdjBase hierarchy
       enum     - branch on a value of enum Adj::algorithm (switch or ==/!=)
       name     - string comparison of the algorithm name (result of LocalNetwork::algorithm(),
                  the field, or a value that is passed to set_algorithm)
       read     - any other use of LocalNetwork::algorithm()/Adj::get_algorithm() or of the fields"""
    fx = ctx.facts
    tab = _table()["who_depends"]
    solver_all, concrete = _solver_classes(fx)
    fx.enum(ALG_ENUM)
    getters = {"GNU_gama::local::LocalNetwork::algorithm", "GNU_gama::Adj::get_algorithm"}
    for g in getters:
        fx.fn(g)
    fields = {("GNU_gama::local::LocalNetwork", "algorithm_"), ("GNU_gama::Adj", "algorithm_")}
    setters = {LN_SET, "GNU_gama::Adj::set_algorithm", "GNU_gama::g3::Model::set_algorithm"}
    allowed = tab["functions"]

    def is_name_source(n):
        for x in walk(n):
            if is_call(x) and strip_targs(x.get("callee") or "") in getters:
                return True
            if x.get("k") == "MemberExpr" and x.get("mk") == "field" and (
                    strip_targs(x.get("owner") or ""), x.get("member")) in fields:
                return True
        return False

    sites = {}          # (fname, kind) -> (fn, node)
    for fn in fx.functions.values():
        if fn.body is None:
            continue
        hits = []
        name_vars = None
        has_getter = False
        for n in fn.walk():
            k = n.get("k")
            if k == "CXXDynamicCastExpr":
                t = strip_targs((n.get("castTo") or "").replace("const ", "").replace("*", "").replace("&", "").strip())
                if t in solver_all:
                    hits.append(("dyncast", n))
            elif k == "SwitchStmt" and _type_is((n.get("cond") or {}).get("t"), ALG_ENUM):
                hits.append(("enum", n))
            elif k == "BinaryOperator" and n.get("op") in ("==", "!=") and any(
                    _type_is(c.get("t"), ALG_ENUM) for c in n["c"]):
                hits.append(("enum", n))
            elif is_call(n) and strip_targs(n.get("callee") or "") in getters:
                has_getter = True
            elif k == "MemberExpr" and n.get("mk") == "field" and (
                    strip_targs(n.get("owner") or ""), n.get("member")) in fields:
                has_getter = True
        setter_calls = [n for n in fn.calls() if strip_targs(n.get("callee") or "") in setters
                        and [a for a in call_args(n) if a.get("k") != "CXXDefaultArgExpr"]]
        if has_getter or setter_calls or fn.qn in setters:
            # string comparisons of the algorithm name: of a getter result / the field / a local
            # initialised from them / the value handed to a setter / the setter's own parameter
            cands = list(_value_compares(fn, setter_calls)[0]) if setter_calls else []
            alias = set()
            if fn.qn == LN_SET:
                alias |= {("v", p["decl"]) for p in fn.params}
            for n in fn.walk():
                if n.get("k") == "DeclStmt":
                    for d in n.get("decls", []):
                        if d.get("init") is not None and is_name_source(d["init"]) and d.get("decl") is not None:
                            alias.add(("v", d["decl"]))
            compared = set()
            seen_nodes = set()
            for c in cands + [c for c in str_compares(fn) if is_name_source(c.subj) or c.skey in alias]:
                if c.node["id"] in seen_nodes:
                    continue
                seen_nodes.add(c.node["id"])
                hits.append(("name", c.node))
                compared |= {x["id"] for x in walk(c.node)}
            # string comparisons that are not branch conditions (returned / stored truth values)
            for n in fn.walk():
                if n["id"] in compared or n.get("k") not in ("CXXOperatorCallExpr", "CallExpr", "BinaryOperator"):
                    continue
                pc = parse_str_compare(n)
                if pc and (is_name_source(pc[0]) or _subject_key(pc[0]) in alias):
                    hits.append(("name", n))
                    compared |= {x["id"] for x in walk(n)}
            if has_getter:
                for n in fn.walk():
                    if n["id"] in compared:
                        continue
                    if is_call(n) and strip_targs(n.get("callee") or "") in getters:
                        hits.append(("read", n))
                    elif (n.get("k") == "MemberExpr" and n.get("mk") == "field"
                          and (strip_targs(n.get("owner") or ""), n.get("member")) in fields):
                        p = fn.parent(n)
                        is_store = (p is not None and p.get("k") in ("BinaryOperator", "CXXOperatorCallExpr")
                                    and p.get("op") == "=" and
                                    (p["c"][0] if p["k"] == "BinaryOperator" else p["c"][1]) is n)
                        if not is_store:
                            hits.append(("read", n))
        if any(n.get("k") == "DeclRefExpr" and n["ref"].get("dk") == "enumconst" and n["ref"].get("enum") == ALG_ENUM
               for n in fn.walk()):
            d = _selector_dispatch(fn, concrete, "enum")
            if d is not None:
                hits.append(("name", d.cmps[0].node))
        for kind, n in hits:
            sites.setdefault((_fname(fn), kind), (fn, n))

    n = 0
    seen_fns = set()
    for (name, kind), (fn, node) in sorted(sites.items()):
        ctx.saw(fn)
        n += 1
        seen_fns.add(name)
        ent = allowed.get(name)
        key = "%s:solver-identity:%s" % (name, kind)
        if ent is None:
            ctx.bad(TAB, key, fn.where(node), name, "function is not in the list of functions that may depend on "
                    "the concrete solver / algorithm name (kind: %s)" % kind)
        elif kind not in ent["kinds"]:
            ctx.bad(TAB, key, fn.where(node), name, "function is listed for %s only, but now also has a '%s' "
                    "dependency on the algorithm" % (ent["kinds"], kind))
        else:
            ctx.ok(TAB, key, fn.where(node), name, detail={"reason": ent["reason"]})
    ctx.floor(TAB, 15, n, "sites that look at the solver identity")
    gone = sorted(set(allowed) - seen_fns)
    if gone:
        ctx.note("R-TAB T4: table entries without a site in the current sources: %s" % gone)
    return sites


# ------------------------------------------------------------------------------- T2 removed points

RM_ENUM = "GNU_gama::local::LocalNetwork::rm_points"
RM_FN = "GNU_gama::local::LocalNetwork::removed"


def rule_rm_points(ctx):
    fx = ctx.facts
    tab = _table()["rm_points"]
    enum = fx.enum(RM_ENUM)
    ens = [(e["name"], e["v"]) for e in enum["enumerators"]]
    names = [e[0] for e in ens]
    by_value = {v: k for k, v in ens}
    fx.fn(RM_FN)
    ctx.floor(TAB, 8, len(ens), "rm_points enumerators")

    # ---- consumers: reason tables
    tables = {}     # fname -> list of per-instantiation results {enumerator: (ok, msg)}
    for fn in fx.functions.values():
        if fn.body is None:
            continue
        res = None
        sws = enum_switches(fn, RM_ENUM)
        for sw_node, cases, default, lab in sws:
            res = res or {}
            msgs = {}
            for name, v in ens:
                nodes = cases.get(v)
                if not nodes:
                    dflt = "the default branch prints nothing" if default is None or not _has_effect(
                        fn, switch_region(fn, sw_node, lab.get(default["id"]))) else "only the default branch"
                    res[name] = (False, "no case for %s: %s" % (name, dflt), fn.where(sw_node))
                    continue
                reg = set()
                for cn in nodes:
                    reg |= switch_region(fn, sw_node, lab.get(cn["id"]))
                calls = [n for n in region_nodes(fn, reg) if is_call(n)]
                what = tuple(sorted({n["ref"].get("qn") or n["ref"].get("name") for n in region_nodes(fn, reg)
                                     if n.get("k") == "DeclRefExpr" and n["ref"].get("dk") == "global"} |
                                    {"lit:" + (n.get("v") or "") for n in region_nodes(fn, reg)
                                     if n.get("k") == "StringLiteral"}))
                if not calls:
                    res[name] = (False, "the case for %s prints nothing" % name, fn.where(nodes[0]))
                else:
                    msgs[name] = what
                    res[name] = (True, "", fn.where(nodes[0]))
            for name, what in msgs.items():
                twins = [o for o, w in msgs.items() if o != name and w == what and what]
                if twins:
                    res[name] = (False, "%s and %s print the same message %s" % (name, twins, list(what)), res[name][2])
                    continue
                # the message text global is named after its enumerator: only a *better* fit of
                # another enumerator is evidence of a swap
                txt = " ".join(w.rsplit("::", 1)[-1] for w in what if not w.startswith("lit:"))
                if txt:
                    other = _contradicting_match(name, txt, names)
                    if other:
                        res[name] = (False, "the case for %s prints the message of %s (%s)" % (name, other, txt),
                                     res[name][2])
        # arrays indexed by the code
        for n in fn.walk():
            if n.get("k") == "ArraySubscriptExpr" and len(n.get("c") or []) == 2 and _type_is(
                    _peel(n["c"][1]).get("t") if _peel(n["c"][1]) else None, RM_ENUM):
                base = _peel(n["c"][0])
                init = _array_init(fx, fn, base)
                res = res or {}
                if init is None:
                    for name, v in ens:
                        res[name] = (False, "array indexed by an rm_points code has no visible initialiser", fn.where(n))
                    continue
                strs = [_lit(x) for x in init]
                contiguous = sorted(v for _, v in ens) == list(range(len(ens)))
                for name, v in ens:
                    if not contiguous:
                        res[name] = (False, "enumerator values are not 0..n-1 but index an array", fn.where(n))
                    elif v >= len(strs):
                        res[name] = (False, "array of %d reasons is indexed by %s = %d (out of bounds read)"
                                     % (len(strs), name, v), fn.where(n))
                    elif not strs[v]:
                        res[name] = (False, "empty reason text for %s" % name, fn.where(n))
                    else:
                        other = _contradicting_match(name, strs[v], names)
                        if other:
                            res[name] = (False, "entry %d is '%s' (reads as %s) but is shown for %s" % (v, strs[v], other, name),
                                         fn.where(n))
                        else:
                            res[name] = (True, "", fn.where(n))
                if len(strs) > len(ens):
                    res["(extra)"] = (False, "array has %d entries for %d enumerators" % (len(strs), len(ens)), fn.where(n))
        if res:
            ctx.saw(fn)
            tables.setdefault(_fname(fn), []).append((fn, res))
    ctx.floor(TAB, 2, len(tables), "removed-point reason tables (text, HTML)")
    for tname, lst in sorted(tables.items()):
        keys = set()
        for fn, res in lst:
            keys |= set(res)
        for name in sorted(keys):
            bad = [(fn, res[name]) for fn, res in lst if name in res and not res[name][0]]
            key = "%s:rm_points:%s" % (tname, name)
            if bad:
                ctx.bad(TAB, key, bad[0][1][2], tname, bad[0][1][1])
            else:
                ctx.ok(TAB, key, lst[0][1][name][2] if name in lst[0][1] else "", tname)

    # ---- producers: removed(id, code)
    kinds = tab["reason_kind"]
    kinds = dict(kinds)
    for n in names:
        kinds.setdefault(n, n)          # an enumerator the table does not know is a kind of its own
    prod = {}
    for fn in fx.functions.values():
        if fn.body is None:
            continue
        for n in fn.calls():
            if strip_targs(n.get("callee") or "") != RM_FN:
                continue
            args = call_args(n)
            code = args[1] if len(args) > 1 else None
            prod.setdefault(_fname(fn), []).append((fn, n, code))
    n_calls = 0
    for fname, lst in sorted(prod.items()):
        ctx.saw(lst[0][0])
        used = {}
        for fn, n, code in lst:
            n_calls += 1
            if (code is not None and code.get("k") == "DeclRefExpr" and code["ref"].get("dk") == "enumconst"
                    and code["ref"].get("enum") == RM_ENUM):
                used.setdefault(code["ref"]["name"], (fn, n))
                key = "%s:removed:%s" % (fname, code["ref"]["name"])
                if ("ok", key) not in used:
                    ctx.ok(TAB, key, fn.where(n), fname)
                    used[("ok", key)] = True
            else:
                ctx.bad(TAB, "%s:removed:%s" % (fname, F.expr_text(code) if code else "?"), fn.where(n), fname,
                        "removed() is called with a code that is not an enumerator of rm_points")
        codes = [c for c in used if isinstance(c, str)]
        ks = sorted({kinds[c] for c in codes})
        if len(codes) > 1:
            key = "%s:removed:reason-kind" % fname
            if len(ks) > 1:
                fn, n = used[codes[-1]]
                ctx.bad(TAB, key, fn.where(n), fname, "one removal pass records reasons of different kinds %s for its "
                        "axis classes (%s): the reason printed for one of them is not the real one"
                        % (ks, ", ".join(sorted(codes))))
            else:
                ctx.ok(TAB, key, lst[0][0].where(lst[0][1]), fname, detail={"kind": ks})
    ctx.floor(TAB, 7, n_calls, "removed(id, code) call sites")
    return tables, prod


def _array_init(fx, fn, base):
    """Initialiser elements of the array a subscript expression reads (local or namespace scope)."""
    if base is None or base.get("k") != "DeclRefExpr":
        return None
    r = base["ref"]
    if r.get("dk") in ("local", "staticlocal"):
        for n in fn.walk():
            if n.get("k") == "DeclStmt":
                for d in n.get("decls", []):
                    if d.get("decl") == r.get("decl") and d.get("init") is not None and d["init"].get("k") == "InitListExpr":
                        return d["init"].get("c") or []
        return None
    g = fx.globals.get(r.get("qn") or "")
    if g and g.get("init") and g["init"].get("k") == "InitListExpr":
        return g["init"].get("c") or []
    return None


# ------------------------------------------------------------------------------- T3 ellipsoids

ELL_ENUM = "GNU_gama::gama_ellipsoid"


def _ellipsoids_xml(root):
    path = os.path.join(root, "xml", "ellipsoids.xml")
    if not os.path.exists(path):
        return None
    try:
        tree = ET.parse(path)
    except ET.ParseError as e:
        raise AnalysisBroken("xml/ellipsoids.xml is not well-formed: %s" % e)
    return [dict(e.attrib) for e in tree.getroot().findall("ellipsoid")]


def rule_ellipsoids(ctx):
    fx = ctx.facts
    tab = _table()["ellipsoids"]
    enum = fx.enum(ELL_ENUM)
    ens = [(e["name"], e["v"]) for e in enum["enumerators"]]
    by_value = {v: k for k, v in ens}
    gid = fx.globals.get("GNU_gama::gama_ellipsoid_id")
    gcap = fx.globals.get("GNU_gama::gama_ellipsoid_caption")
    if not gid or not gcap:
        raise AnalysisBroken("gama_ellipsoid_id / gama_ellipsoid_caption not found among the namespace-scope variables")
    for g in (gid, gcap):
        if not g.get("init") or g["init"].get("k") != "InitListExpr":
            raise AnalysisBroken("%s has no initialiser list" % g["qn"])
    ids = [_lit(x) for x in gid["init"]["c"]]
    caps = [_lit(x) for x in gcap["init"]["c"]]
    f_lookup = [f for f in fx.fns("GNU_gama::ellipsoid") if len(f.params) == 1]
    f_set = [f for f in fx.fns("GNU_gama::set") if len(f.params) == 2 and _type_is(f.params[1]["t"], ELL_ENUM)]
    if not f_lookup or not f_set:
        raise AnalysisBroken("GNU_gama::ellipsoid(const char*) / GNU_gama::set(Ellipsoid*, gama_ellipsoid) not found")
    f_lookup, f_set = f_lookup[0], f_set[0]
    ctx.saw(f_lookup)
    ctx.saw(f_set)
    where_cpp = "%s:%s" % (gid["file"], gid["line"])

    # name -> enumerator from the strcmp chain
    disp = [d for d in str_dispatches(f_lookup).values()
            if any(_assigned_enum_refs(f_lookup, r, ELL_ENUM) for r in d.regions.values())]
    if len(disp) != 1:
        raise AnalysisBroken("GNU_gama::ellipsoid(): expected one string dispatch yielding gama_ellipsoid, found %d" % len(disp))
    d = disp[0]
    name2e = {nm: sorted(_assigned_enum_refs(f_lookup, reg, ELL_ENUM)) for nm, reg in d.regions.items()}
    mapped = {e for es in name2e.values() for e in es}
    all_refs = {n["ref"]["name"] for n in f_lookup.walk() if n.get("k") == "DeclRefExpr"
                and n["ref"].get("dk") == "enumconst" and n["ref"].get("enum") == ELL_ENUM}
    sentinels = sorted(all_refs - mapped)
    if len(sentinels) != 1:
        raise AnalysisBroken("GNU_gama::ellipsoid(): cannot identify the 'unknown' sentinel (candidates %s)" % sentinels)
    sentinel = sentinels[0]
    ctx.floor(TAB, 40, len(name2e), "names in the strcmp chain of ellipsoid()")

    # set(): enumerator -> (initialiser name, constants, id assigned)
    sws = enum_switches(f_set, ELL_ENUM)
    if len(sws) != 1:
        raise AnalysisBroken("GNU_gama::set(): expected one switch over gama_ellipsoid")
    sw_node, cases, default, lab = sws[0]
    ell_cls = "GNU_gama::Ellipsoid"
    fx.cls(ell_cls)
    set_info = {}
    for v, nodes in cases.items():
        reg = set()
        for cn in nodes:
            reg |= switch_region(f_set, sw_node, lab.get(cn["id"]))
        inits = []
        for n in region_nodes(f_set, reg):
            if n.get("k") == "CXXMemberCallExpr" and strip_targs(n.get("calleeClass") or n.get("objT") or "") == ell_cls:
                a = call_args(n)
                if len(a) == 2:
                    inits.append((strip_targs(n.get("callee") or "").rsplit("::", 1)[-1], _num(a[0]), _num(a[1])))
        assigned = sorted(_assigned_enum_refs(f_set, reg, ELL_ENUM))
        set_info[by_value.get(v, str(v))] = (inits, assigned, nodes[0])
    ctx.floor(TAB, 40, len(set_info), "cases in set(Ellipsoid*, gama_ellipsoid)")

    xml = _ellipsoids_xml(ctx.root)
    roles = tab["initialisers"]
    n_real = len(ens) - 1
    ok_len = len(ids) == len(ens) and len(caps) == len(ens) and len(name2e) == n_real and len(set_info) == n_real
    ctx.report(TAB, "ellipsoids:lengths", ok_len, where_cpp, "",
               "" if ok_len else "enumerators %d, id[] %d, caption[] %d, names in ellipsoid() %d (+1 sentinel), cases in "
               "set() %d (+1 sentinel)" % (len(ens), len(ids), len(caps), len(name2e), len(set_info)))
    if xml is not None:
        ok = len(xml) == n_real
        ctx.report(TAB, "ellipsoids:lengths:xml", ok, "xml/ellipsoids.xml", "",
                   "" if ok else "xml/ellipsoids.xml lists %d ellipsoids for %d enumerators" % (len(xml), n_real))

    real = [(n, v) for n, v in ens if n != sentinel]
    order = sorted(v for _, v in real)
    for name, v in ens:
        if name == sentinel:
            # the sentinel has an empty id and is what an unknown name yields
            ok = v < len(ids) and not ids[v] and name not in set_info
            ctx.report(TAB, "ellipsoids:sentinel:%s" % name, ok, where_cpp, "",
                       "" if ok else "the sentinel must have an empty id string and no case in set()")
            continue
        # id[k] is the string that ellipsoid() maps to enumerator k
        key = "ellipsoids:id:%s" % name
        s = ids[v] if v < len(ids) else None
        if not s:
            ctx.bad(TAB, key, where_cpp, "", "gama_ellipsoid_id[%d] is missing/empty for %s" % (v, name))
        elif name2e.get(s) != [name]:
            ctx.bad(TAB, key, where_cpp, "", "gama_ellipsoid_id[%s] = \"%s\" but ellipsoid(\"%s\") yields %s"
                    % (name, s, s, name2e.get(s) or sentinel))
        else:
            ctx.ok(TAB, key, where_cpp)
        key = "ellipsoids:caption:%s" % name
        c = caps[v] if v < len(caps) else None
        ok = bool(c)
        msg = "" if ok else "gama_ellipsoid_caption[%d] is missing/empty for %s" % (v, name)
        xe = None
        if xml is not None:
            k = order.index(v)
            xe = xml[k] if k < len(xml) else None
            if ok and xe is not None and xe.get("caption") != c:
                ok, msg = False, "caption[%s] = \"%s\" but xml/ellipsoids.xml entry %d (%s) has \"%s\"" % (
                    name, c, k + 1, xe.get("id"), xe.get("caption"))
        ctx.report(TAB, key, ok, "%s:%s" % (gcap["file"], gcap["line"]), "", msg)
        # set(): a case with one two-constant initialiser and the same enumerator stored
        key = "ellipsoids:set:%s" % name
        info = set_info.get(name)
        if info is None:
            ctx.bad(TAB, key, f_set.where(), f_set.short, "no case for %s in set(): the default branch reports it as "
                    "unknown" % name)
            continue
        inits, assigned, cn = info
        w = f_set.where(cn)
        if len(inits) != 1:
            ctx.bad(TAB, key, w, f_set.short, "case %s runs %d ellipsoid initialisers %s (missing break?)"
                    % (name, len(inits), [i[0] for i in inits]))
            continue
        m, c1, c2 = inits[0]
        if m not in roles:
            ctx.bad(TAB, key, w, f_set.short, "case %s calls %s, not one of the two-parameter initialisers %s"
                    % (name, m, sorted(roles)))
            continue
        if c1 is None or c2 is None or c1 <= 0 or c2 <= 0:
            ctx.bad(TAB, key, w, f_set.short, "case %s: %s(%s, %s) needs two positive constants" % (name, m, c1, c2))
            continue
        if assigned != [name]:
            ctx.bad(TAB, key, w, f_set.short, "case %s stores id %s" % (name, assigned))
            continue
        if xe is not None:
            if xe.get("id") != s:
                ctx.bad(TAB, key, w, f_set.short, "enumerator %s (position %d) is '%s' in the id table but '%s' in "
                        "xml/ellipsoids.xml" % (name, v, s, xe.get("id")))
                continue
            want = [xe.get(a) for a in roles[m]]
            try:
                wantf = [float(x) if x is not None else None for x in want]
            except ValueError:
                wantf = [None, None]
            if wantf != [c1, c2]:
                ctx.bad(TAB, key, w, f_set.short, "case %s: %s(%r, %r) but xml/ellipsoids.xml gives %s"
                        % (name, m, c1, c2, {a: xe.get(a) for a in ("a", "b", "f", "f1") if xe.get(a)}))
                continue
        ctx.ok(TAB, key, w, f_set.short, detail={"init": m, "constants": [c1, c2]})
    # names of the chain that no id entry carries
    for nm, es in sorted(name2e.items()):
        if nm not in ids:
            ctx.bad(TAB, "ellipsoids:name:%s" % nm, f_lookup.where(), f_lookup.short,
                    "ellipsoid(\"%s\") yields %s but no gama_ellipsoid_id[] entry has this string" % (nm, es))
        elif len(es) != 1:
            ctx.bad(TAB, "ellipsoids:name:%s" % nm, f_lookup.where(), f_lookup.short,
                    "ellipsoid(\"%s\") yields %s" % (nm, es))
    # default of set(): must not initialise anything
    if default is not None:
        reg = switch_region(f_set, sw_node, lab.get(default["id"]))
        bad = [n for n in region_nodes(f_set, reg) if n.get("k") == "CXXMemberCallExpr"
               and strip_targs(n.get("calleeClass") or n.get("objT") or "") == ell_cls]
        assigned = sorted(_assigned_enum_refs(f_set, reg, ELL_ENUM))
        ok = not bad and assigned in ([], [sentinel])
        ctx.report(TAB, "ellipsoids:set:default", ok, f_set.where(default), f_set.short,
                   "" if ok else "the default branch of set() initialises an ellipsoid or stores %s" % assigned)
    return name2e, set_info


# ------------------------------------------------------------------------------- V2 g3 visitors

def _g3_observations(fx):
    root = "GNU_gama::g3::Observation"
    fx.cls(root)
    out = []
    for q, rec in fx.classes.items():
        if rec.get("abstract") or q == root:
            continue
        if root in _bases_qnt(fx, rec.get("qnt") or q):
            out.append(q)
    return sorted(out)


def rule_g3_visitors(ctx):
    fx = ctx.facts
    tab = _table()["g3_visitors"]
    obs = _g3_observations(fx)
    ctx.floor(VIS, 8, len(obs), "concrete g3::Observation subclasses")
    fx.cls("GNU_gama::BaseVisitor")
    exempt = tab["exempt"]
    visitors = []
    for q, rec in fx.classes.items():
        if rec.get("abstract"):
            continue
        bases = _bases_qnt(fx, rec.get("qnt") or q)
        if "GNU_gama::BaseVisitor" not in bases:
            continue
        visited = {_targ(b) for b in bases if strip_targs(b) == "GNU_gama::Visitor" and _targ(b)}
        if not (visited & set(obs)):
            continue
        visitors.append((q, rec, visited))
    ctx.floor(VIS, 5, len(visitors), "g3 visitor classes")
    used_ex = set()
    for q, rec, visited in sorted(visitors, key=lambda x: x[0]):
        vname = "%s[%s]" % (short(q).replace("(anonymous namespace)::", "(anon)::"), os.path.basename(rec.get("file", "")))
        ex = exempt.get(vname, {})
        for o in obs:
            oname = short(o)
            key = "%s:visits:%s" % (vname, oname)
            where = "%s:%s" % (rec.get("file"), rec.get("line"))
            if o in visited:
                ctx.ok(VIS, key, where, vname)
                if oname in ex:
                    ctx.note("R-VIS V2: stale exemption: %s now handles %s" % (vname, oname))
            elif oname in ex:
                used_ex.add((vname, oname))
                ctx.ok(VIS, key, where, vname, detail={"exempt": ex[oname]})
            else:
                ctx.bad(VIS, key, where, vname, "visitor has no Visitor<%s> base: accept() of such an observation "
                        "silently does nothing" % oname)
    for vname in exempt:
        if vname not in {"%s[%s]" % (short(q).replace("(anonymous namespace)::", "(anon)::"),
                                      os.path.basename(r.get("file", ""))) for q, r, _ in visitors}:
            ctx.note("R-VIS V2: stale exemption: visitor %s no longer exists" % vname)
    return visitors, obs


# ------------------------------------------------------------------------------- V3 cluster casts

def rule_cluster_casts(ctx):
    fx = ctx.facts
    tab = _table()["cluster_casts"]
    root = "GNU_gama::Cluster<GNU_gama::local::Observation>"
    subs = sorted(q for q, rec in fx.classes.items()
                  if not rec.get("abstract") and root in _bases_qnt(fx, rec.get("qnt") or q))
    ctx.floor(VIS, 4, len(subs), "concrete local Cluster subclasses")
    exempt = tab["exempt"]
    per_fn = {}
    for fn in fx.functions.values():
        if fn.body is None:
            continue
        for n in fn.walk():
            if n.get("k") != "CXXDynamicCastExpr":
                continue
            t = (n.get("castTo") or "").replace("const ", "").replace("*", "").replace("&", "").strip()
            if t not in subs:
                continue
            src = (n.get("c") or [{}])[0]
            st = (src.get("t") or "").replace("const ", "").replace("*", "").replace("&", "").strip()
            if st != root:
                continue            # a cast from something that is not a Cluster pointer
            per_fn.setdefault(_fname(fn), (fn, {}))[1].setdefault(t, n)
    n_fn = 0
    for fname, (fn, casts) in sorted(per_fn.items()):
        if len(casts) < 2:
            continue                # a single type test is a query, not a case analysis
        ctx.saw(fn)
        n_fn += 1
        ex = exempt.get(fname, {})
        for s in subs:
            sname = short(s)
            key = "%s:cluster-cast:%s" % (fname, sname)
            if s in casts:
                ctx.ok(VIS, key, fn.where(casts[s]), fname)
                if sname in ex:
                    ctx.note("R-VIS V3: stale exemption: %s now handles %s" % (fname, sname))
            elif sname in ex:
                ctx.ok(VIS, key, fn.where(), fname, detail={"exempt": ex[sname]})
            else:
                ctx.bad(VIS, key, fn.where(), fname, "the dynamic_cast chain over Cluster subclasses (%s) has no branch "
                        "for %s: such clusters are silently skipped" % (", ".join(short(c) for c in sorted(casts)), sname))
    ctx.floor(VIS, 4, n_fn, "functions with a dynamic_cast chain over Cluster subclasses")
    return per_fn
