"""R-REPL: a replica carries the whole state of its source.

"Building, transposing and replicating sparse matrices preserves every entry" (C16), "copies are independent
of their source whatever the sizes involved" (C15): the hand-written copy constructors, assignment operators and
replica factories (`SparseMatrix::replicate`, `BlockDiagonal::replicate`, `Envelope(const Envelope&)`, ...) copy
their class field by field.  A field that is forgotten keeps the value the target's constructor gave it - for a
fill cursor such as `SparseMatrix::rnxt_` that is a silently different object: the replica reads back the same
entries, but the first `new_row()` on it overwrites the row pointers.

Decided statically for every function of /repo/lib that is
  * a user-written copy constructor or copy assignment (target `this`, source the parameter), or
  * a *factory*: a method returning a pointer to its own class that holds `new C(...)` in a local and does not
    simply copy-construct from `*this` (target the local, source `this`):
every *state field* of the class must be *covered* in the target.
  state field  = a non-static field that some non-constructor method of the class assigns (=, op=, ++, --) or
                 whose pointee some method writes (`f[i] = ..`); for copy constructors / assignments also every
                 field a constructor initialises from a constructor parameter.
  covered      = member initialiser / assignment `T.f = ..` / `T.f[..] = ..`, `T.f` handed to a call as an argument
                 or as the object of a non-const method, a same-class helper called on the target that covers it
                 (one level), or - factories - the constructor that `new` calls derives the field from a constructor
                 argument (directly or through another derived field).
Not decided: that the copied values are right (sizes, deep/shallow) - R-PAIR memrep and R-STEP look at those.
"""
import engine
import facts as F
from facts import AnalysisBroken, strip_targs

RULE = "R-REPL"


def _unwrap(n):
    while n is not None and n.get("k") in ("ParenExpr", "ImplicitCastExpr", "ExprWithCleanups",
                                           "CStyleCastExpr", "CXXStaticCastExpr") and n.get("c"):
        n = n["c"][0]
    return n


def _base(t):
    t = (t or "").replace("const ", "").replace("&", "").replace("*", "").strip()
    return strip_targs(t)


def _field_of(n, is_target):
    """Name of the field if n is `<target>.f` / `<target>->f` (is_target decides on the base expression)."""
    n = _unwrap(n)
    if n is None:
        return None
    if n.get("k") == "ArraySubscriptExpr" and n.get("c"):
        return _field_of(n["c"][0], is_target)
    if n.get("k") == "UnaryOperator" and n.get("op") == "*" and n.get("c"):
        return _field_of(n["c"][0], is_target)
    if n.get("k") == "BinaryOperator" and n.get("op") in ("+", "-") and n.get("c"):
        return _field_of(n["c"][0], is_target)
    if n.get("k") == "MemberExpr" and n.get("mk") == "field":
        b = _unwrap((n.get("c") or [None])[0])
        if b is not None and is_target(b):
            return n.get("member")
    return None


def _is_this(b):
    return b.get("k") == "CXXThisExpr"


_LITERALS = ("IntegerLiteral", "FloatingLiteral", "CXXBoolLiteralExpr", "CXXNullPtrLiteralExpr", "GNUNullExpr")


def _writes(fn, is_target, fx=None, depth=0, carry=False):
    """Fields of the target object written (or handed out for writing) in fn.  carry=True: a plain assignment
    of a literal does not count (it resets the field, it does not carry anything over)."""
    out = set()
    for n in fn.walk():
        k = n.get("k")
        c = n.get("c") or []
        if k in ("BinaryOperator", "CompoundAssignOperator") and (n.get("op") == "=" or k == "CompoundAssignOperator") and c:
            f = _field_of(c[0], is_target)
            if f and not (carry and n.get("op") == "=" and len(c) == 2 and
                          (_unwrap(c[1]) or {}).get("k") in _LITERALS):
                out.add(f)
        elif k == "UnaryOperator" and n.get("op") in ("++", "--") and c:
            f = _field_of(c[0], is_target)
            if f:
                out.add(f)
        elif F.is_call(n):
            for a in F.call_args(n):
                f = _field_of(a, is_target)
                if f:
                    out.add(f)
            obj = F.call_object(n)
            if obj is not None:
                f = _field_of(obj, is_target)
                if f and k == "CXXOperatorCallExpr" and n.get("op") in ("=", "+=", "-=", "*=", "/=", "[]", "()"):
                    out.add(f)
                elif f and k == "CXXMemberCallExpr":
                    g = fx.functions.get(n.get("calleeKey")) if fx is not None else None
                    if g is None or not g.rec.get("const"):
                        out.add(f)
                # helper of the same class called on the target itself
                o = _unwrap(obj)
                if fx is not None and depth < 1 and o is not None and is_target(o):
                    g = fx.functions.get(n.get("calleeKey"))
                    if g is not None and g.body is not None and g.cls and fn.cls and \
                            strip_targs(g.cls) == strip_targs(fn.cls):
                        out |= _writes(g, _is_this, fx, depth + 1, carry)
    for init in fn.rec.get("inits", []) or []:
        if init.get("field") and is_target is _is_this:
            i = _unwrap(init.get("init"))
            while i is not None and i.get("k") == "InitListExpr" and len(i.get("c") or []) == 1:
                i = _unwrap(i["c"][0])
            if carry and (i is None or i.get("k") in _LITERALS or
                          i.get("k") in ("CXXDefaultInitExpr", "ImplicitValueInitExpr") or
                          (i.get("k") in ("InitListExpr", "CXXConstructExpr") and not i.get("c"))):
                continue              # default member initialiser `f{0}`: nothing carried over
            out.add(init["field"])
    return out


def _ctor_derived(ctor, fx=None, depth=0):
    """Fields a constructor derives from its parameters (directly, through other derived fields, or in a
    same-class helper that is handed a parameter, e.g. `init(blocks, floats)`)."""
    params = {p["decl"] for p in ctor.params}
    defs = []
    helper = set()
    if fx is not None and depth < 1:
        for n in ctor.calls():
            g = fx.functions.get(n.get("calleeKey"))
            if g is None or g.body is None or not g.cls or not ctor.cls or \
                    strip_targs(g.cls) != strip_targs(ctor.cls) or g.key == ctor.key:
                continue
            if any(m.get("k") == "DeclRefExpr" and m["ref"].get("dk") == "parm" and m["ref"].get("decl") in params
                   for a in F.call_args(n) for m in F.walk(a)):
                helper |= _ctor_derived(g, fx, depth + 1)
    for init in ctor.rec.get("inits", []) or []:
        if init.get("field") and init.get("init") is not None:
            defs.append((init["field"], init["init"]))
    for n in ctor.walk():
        c = n.get("c") or []
        if n.get("k") == "BinaryOperator" and n.get("op") == "=" and len(c) == 2:
            f = _field_of(c[0], _is_this)
            if f:
                defs.append((f, c[1]))
    derived = set(helper)
    for _ in range(6):
        changed = False
        for f, rhs in defs:
            if f in derived:
                continue
            for m in F.walk(rhs):
                if m.get("k") == "DeclRefExpr" and m["ref"].get("dk") == "parm" and m["ref"].get("decl") in params:
                    derived.add(f); changed = True; break
                if m.get("k") == "MemberExpr" and m.get("mk") == "field" and m.get("member") in derived:
                    derived.add(f); changed = True; break
        if not changed:
            break
    return derived


def rule_replica(ctx):
    fx = ctx.facts
    table = engine.load_table("repl.json")
    exempt = {k: v for k, v in table.get("exempt", {}).items() if not k.startswith("_")}
    scope = tuple(table.get("scope_prefixes", ["lib/"]))
    for a in table.get("anchors", []):
        fx.fn(a)
    by_cls = {}
    for fn in fx.functions.values():
        if fn.cls:
            by_cls.setdefault(strip_targs(fn.cls), []).append(fn)
    n_fn = n_fields = 0
    used = set()
    seen = set()
    for fn in sorted(fx.functions.values(), key=lambda f: (f.file, f.line, f.key)):
        if not fn.cls or fn.body is None or not fn.file.startswith(scope):
            continue
        cls = strip_targs(fn.cls)
        short_cls = cls.rsplit("::", 1)[-1]
        kind = target_local = ctor = None
        if fn.name == short_cls and len(fn.params) == 1 and _base(fn.params[0]["t"]) == cls and \
                "&" in (fn.params[0]["t"] or ""):
            kind = "copy-constructor"
        elif fn.name == "operator=" and len(fn.params) == 1 and _base(fn.params[0]["t"]) == cls:
            kind = "copy-assignment"
        elif _base(fn.rec.get("ret")) == cls and "*" in (fn.rec.get("ret") or ""):
            for n in fn.walk():
                if n.get("k") != "DeclStmt":
                    continue
                for d in n.get("decls", []):
                    i = _unwrap(d.get("init"))
                    if i is not None and i.get("k") == "CXXNewExpr" and _base(i.get("t")) == cls:
                        cc = [m for m in F.walk(i) if m.get("k") == "CXXConstructExpr" and _base(m.get("t")) == cls]
                        if not cc:
                            continue
                        g = fx.functions.get(cc[0].get("calleeKey"))
                        if g is None or g.body is None:
                            continue          # implicit copy constructor: complete by construction
                        kind, target_local, ctor = "factory", d.get("decl"), g
        if kind is None:
            continue
        sig = F.short(fn.sig) if getattr(fn, "sig", None) else fn.short
        if sig in seen:
            continue
        seen.add(sig)
        rec = fx.classes.get(cls)
        if rec is None:
            continue
        fields = [f for f in rec.get("fields", []) if not f.get("static")]
        if not fields:
            continue
        # ---- state fields of the class
        mutated, ctor_param = set(), set()
        for g in by_cls.get(cls, []):
            if g.body is None:
                continue
            if g.name == short_cls:
                ctor_param |= _ctor_derived(g, fx)
            elif g.key != fn.key:
                mutated |= _writes(g, _is_this)
        if kind == "factory":
            def is_target(b, d=target_local):
                return b.get("k") == "DeclRefExpr" and b["ref"].get("decl") == d
            covered = _writes(fn, is_target, fx, carry=True)
            derived = _ctor_derived(ctor, fx)
            obliged = [f for f in fields if f["name"] in mutated]
        else:
            covered = _writes(fn, _is_this, fx, carry=True)
            derived = set()
            obliged = [f for f in fields if (f["name"] in mutated or f["name"] in ctor_param)
                       and not (kind == "copy-assignment" and (f.get("t") or "").rstrip().endswith("&"))]
        ctx.saw(fn)
        n_fn += 1
        for f in obliged:
            name = f["name"]
            ok = name in covered or (kind == "factory" and name in derived)
            why = ""
            key = "%s:%s" % (sig, name)
            if not ok and key in exempt:
                ok = True
                used.add(key)
                why = "exempt: " + exempt[key]
            n_fields += 1
            ctx.report(RULE, key, ok, fn.where(), fn.short,
                       msg=why if ok else "the %s does not carry the state field `%s` of %s over to the %s%s"
                       % (kind, name, short_cls, "new object" if kind == "factory" else "target", why),
                       detail={"kind": kind, "field": name, "type": f.get("t")})
    for k in exempt:
        if k not in used:
            ctx.note("%s: exemption %s no longer needed" % (RULE, k))
    fl = table.get("floors", {})
    ctx.floor(RULE, fl.get("functions", 1), n_fn, "hand-written copy constructors / assignments / replica factories")
    ctx.floor(RULE, fl.get("fields", 1), n_fields, "state fields to carry over")
    return {"functions": n_fn, "fields": n_fields}
