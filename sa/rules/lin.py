"""Linearisation shape rules: R-BND B1, R-LIN L1, R-WRAP W1/W2, R-UNIT U1, R-VIS V1.

Everything is decided on the exported AST/CFG:

* a small reaching-definitions analysis (`ReachDefs`) and a symbolic normaliser (`Sym`) turn
  arithmetic expressions into formal polynomials over *atoms* (calls, fields, opaque locals) with
  exact rational coefficients and a symbolic `pi`; locals are resolved through their unique
  reaching definition, parameters of inlined same-class helpers through the call arguments;
* an abstract interpretation of every `LocalLinearization::visit(T*)` (same-class calls inlined)
  follows the `size` member and the `coeff[]/index[]` writes along all CFG paths (`HandlerModel`);
* a one-variable-at-a-time interval analysis with summaries for wrap loops (`Intervals`) decides the
  half-circle reduction of angular right-hand sides.

Nothing is executed and no source text, line number or statement order is matched.
"""
import math
from fractions import Fraction

import engine
import facts as F
from facts import AnalysisBroken, walk, is_call, call_args, strip_targs, short

CASTS = ("ImplicitCastExpr", "CXXStaticCastExpr", "CStyleCastExpr", "CXXFunctionalCastExpr",
         "CXXConstCastExpr", "CXXReinterpretCastExpr", "CXXDynamicCastExpr")
INT_TYPES = ("int", "long", "unsigned int", "unsigned long", "short", "unsigned short", "char",
             "long long", "unsigned long long", "bool", "unsigned char", "signed char",
             "const int", "const long", "const unsigned int", "const unsigned long")
FLOAT_TYPES = ("double", "float", "long double", "const double", "const float", "const long double")
PI = "pi"

_TABLE = None


def table():
    global _TABLE
    if _TABLE is None:
        _TABLE = engine.load_table("lin.json")
    return _TABLE


# =========================================================================== polynomials

class Poly:
    """Formal polynomial: {monomial: Fraction}, monomial = sorted tuple of (atom, exponent)."""
    __slots__ = ("t",)

    def __init__(self, t=None):
        self.t = {m: c for m, c in (t or {}).items() if c != 0}

    @staticmethod
    def const(c):
        return Poly({(): Fraction(c)})

    @staticmethod
    def atom(a, e=1):
        return Poly({((a, e),): Fraction(1)})

    def __add__(self, o):
        t = dict(self.t)
        for m, c in o.t.items():
            t[m] = t.get(m, 0) + c
        return Poly(t)

    def __neg__(self):
        return Poly({m: -c for m, c in self.t.items()})

    def __sub__(self, o):
        return self + (-o)

    @staticmethod
    def _mulmono(a, b):
        d = dict(a)
        for x, e in b:
            d[x] = d.get(x, 0) + e
        return tuple(sorted((x, e) for x, e in d.items() if e != 0))

    def __mul__(self, o):
        t = {}
        for m1, c1 in self.t.items():
            for m2, c2 in o.t.items():
                m = Poly._mulmono(m1, m2)
                t[m] = t.get(m, 0) + c1 * c2
        return Poly(t)

    def div(self, o):
        if not o.t:
            return self * Poly.atom("(0)", -1)
        if len(o.t) == 1:
            (m, c), = o.t.items()
            inv = tuple((x, -e) for x, e in m)
            return self * Poly({inv: 1 / c})
        return self * Poly.atom("(" + str(o) + ")", -1)

    def is_zero(self):
        return not self.t

    def atoms(self):
        return {x for m in self.t for x, _ in m}

    def numeric(self):
        """Float value when the polynomial is a constant (only `pi` atoms), else None."""
        v = 0.0
        for m, c in self.t.items():
            f = float(c)
            for x, e in m:
                if x != PI:
                    return None
                f *= math.pi ** e
            v += f
        return v

    @staticmethod
    def split(m, c):
        """(constant part as (Fraction, pi exponent), tuple of non-constant factors)."""
        pe = 0
        rest = []
        for x, e in m:
            if x == PI:
                pe += e
            else:
                rest.append((x, e))
        return (c, pe), tuple(rest)

    def __str__(self):
        if not self.t:
            return "0"
        parts = []
        for m, c in sorted(self.t.items(), key=lambda kv: repr(kv[0])):
            fs = []
            if c != 1 or not m:
                fs.append(str(c))
            for x, e in m:
                fs.append(x if e == 1 else "%s^%d" % (x, e))
            parts.append("*".join(fs))
        return " + ".join(parts)

    __repr__ = __str__


def const_name(c, pe):
    """Readable name of a constant c*pi^pe for messages."""
    names = {(Fraction(1000), 0): "1e3 (mm/m)", (Fraction(1, 1000), 0): "1/1000",
             (Fraction(200), -1): "R2G", (Fraction(1, 200), 1): "G2R",
             (Fraction(2000000), -1): "R2CC", (Fraction(1, 2000000), 1): "CC2R",
             (Fraction(2000), -1): "10*R2G", (Fraction(1, 10000), 0): "1/10000",
             (Fraction(10000), 0): "10000 (cc/gon)", (Fraction(1), 0): "1",
             (Fraction(20000), -1): "100*R2G", (Fraction(648000), -1): "R2SS",
             (Fraction(180), -1): "R2D"}
    c = abs(c)
    if (c, pe) in names:
        return names[(c, pe)]
    s = str(c)
    if pe:
        s += "*pi^%d" % pe
    return s


# =========================================================================== reaching definitions

def _is_local_ref(n):
    return n.get("k") == "DeclRefExpr" and n["ref"].get("dk") in ("local", "parm")


def param_types(fx, call):
    """Parameter types of a call's callee (list of strings) or None."""
    key = call.get("calleeKey")
    f = fx.functions.get(key) if key else None
    if f is not None:
        return [p["t"] for p in f.params]
    c = call.get("c") or []
    t = None
    if call.get("k") in ("CallExpr", "CXXOperatorCallExpr", "CXXMemberCallExpr") and c:
        t = c[0].get("t")
    if not t or "(" not in t:
        return None
    inner = t[t.index("(") + 1:]
    depth = 0
    out, cur = [], ""
    for ch in inner:
        if ch in "(<[":
            depth += 1
        elif ch in ")>]":
            if depth == 0:
                break
            depth -= 1
        if ch == "," and depth == 0:
            out.append(cur.strip())
            cur = ""
        else:
            cur += ch
    if cur.strip():
        out.append(cur.strip())
    return out


def _mutable_ref(t):
    t = t.strip()
    return (t.endswith("&") and not t.endswith("&&") and not t.startswith("const ")) or \
           (t.endswith("*") and not t.startswith("const "))


class ReachDefs:
    """Reaching definitions of the scalar locals/params of one function."""

    def __init__(self, fx, fn):
        self.fn = fn
        self.defs = {}       # def id -> (decl, kind, node, extra)
        self.at = {}         # use node id -> frozenset(def ids) reaching the use
        self.escaped = set()
        self.declinfo = {}
        if fn.body is None:
            return
        for n in fn.walk():
            k = n.get("k")
            if k == "DeclStmt":
                for d in n.get("decls", []):
                    if "decl" in d:
                        self.declinfo[d["decl"]] = d
                        init = d.get("init")
                        if d.get("t", "").endswith("&") and not d["t"].startswith("const ") \
                                and init is not None and _is_local_ref(init):
                            self.escaped.add(init["ref"]["decl"])
            elif k == "LambdaExpr":
                for x in walk(n):
                    if _is_local_ref(x):
                        self.escaped.add(x["ref"]["decl"])
            elif k == "UnaryOperator" and n.get("op") == "&":
                c = n.get("c") or []
                if c and _is_local_ref(c[0]):
                    self.escaped.add(c[0]["ref"]["decl"])
        cfg = fn.cfg
        nodes = fn.nodes
        gens = {}            # element key -> list of (decl, def id)

        def add(elkey, decl, kind, node, extra=None):
            did = (elkey, decl)
            self.defs[did] = (decl, kind, node, extra)
            gens.setdefault(elkey, []).append((decl, did))

        for bid, blk in cfg.blocks.items():
            for e in blk.get("el", []):
                if isinstance(e, dict):
                    if "decl" in e:
                        d = self.declinfo.get(e["decl"])
                        if d is not None and d.get("init") is not None:
                            add(("d", e["decl"]), e["decl"], "init", d["init"])
                        else:
                            add(("d", e["decl"]), e["decl"], "uninit", None)
                    continue
                n = nodes.get(e)
                if n is None:
                    continue
                k = n.get("k")
                c = n.get("c") or []
                if k == "DeclStmt":
                    for d in n.get("decls", []):
                        if "decl" not in d:
                            continue
                        if d.get("init") is not None:
                            add(e, d["decl"], "init", d["init"])
                        else:
                            add(e, d["decl"], "uninit", None)
                elif k == "BinaryOperator" and n.get("op") == "=" and _is_local_ref(c[0]):
                    add(e, c[0]["ref"]["decl"], "assign", c[1])
                elif k == "CompoundAssignOperator" and _is_local_ref(c[0]):
                    add(e, c[0]["ref"]["decl"], "compound", n)
                elif k == "UnaryOperator" and n.get("op") in ("++", "--") and c and _is_local_ref(c[0]):
                    add(e, c[0]["ref"]["decl"], "incdec", n)
                elif is_call(n):
                    args = call_args(n)
                    pts = param_types(fx, n)
                    if k == "CXXOperatorCallExpr" and n.get("memberOp") and args:
                        # object is args[0]; parameters start at args[1]
                        obj = args[0]
                        if _is_local_ref(obj) and n.get("op") in ("=", "+=", "-=", "*=", "/=", "++", "--",
                                                                   ">>", "<<="):
                            add(e, obj["ref"]["decl"], "call", n)
                        args = args[1:]
                    for i, a in enumerate(args):
                        if not _is_local_ref(a):
                            continue
                        if pts is None or i >= len(pts):
                            continue          # callee without prototype in the facts: assumed by value
                        if _mutable_ref(pts[i]):
                            add(e, a["ref"]["decl"], "out", n, i)
        # dataflow
        entry_state = {}
        for p in fn.params:
            if "decl" in p:
                did = (("p", p["decl"]), p["decl"])
                self.defs[did] = (p["decl"], "param", None, None)
                entry_state[p["decl"]] = frozenset([did])
        IN = {b: None for b in cfg.blocks}
        IN[cfg.entry] = entry_state
        work = [cfg.entry]
        while work:
            b = work.pop()
            st = dict(IN[b])
            for e in cfg.blocks[b].get("el", []):
                ek = ("d", e["decl"]) if isinstance(e, dict) and "decl" in e else e
                if isinstance(ek, int):
                    n = nodes.get(ek)
                    if n is not None and _is_local_ref(n):
                        self.at[ek] = self.at.get(ek, frozenset()) | st.get(n["ref"]["decl"], frozenset())
                if isinstance(ek, dict):
                    continue
                for decl, did in gens.get(ek, ()):
                    st[decl] = frozenset([did])
            for s in cfg.succ.get(b, []):
                old = IN[s]
                if old is None:
                    IN[s] = dict(st)
                    work.append(s)
                else:
                    changed = False
                    for d, v in st.items():
                        nv = old.get(d, frozenset()) | v
                        if nv != old.get(d):
                            old[d] = nv
                            changed = True
                    if changed:
                        work.append(s)

    def reaching(self, use):
        """Definitions reaching a DeclRefExpr use node, or None if unknown/escaped."""
        if use["ref"].get("decl") in self.escaped:
            return None
        r = self.at.get(use["id"])
        if not r:
            return None
        return r


_RD_CACHE = {}


def reach_defs(fx, fn):
    r = _RD_CACHE.get(id(fn))
    if r is None or r.fn is not fn:
        r = ReachDefs(fx, fn)
        _RD_CACHE[id(fn)] = r
    return r


# =========================================================================== symbolic normaliser

WRAP_CALLS = {"fmod": 1.0, "fmodf": 1.0, "fmodl": 1.0,
              "remainder": 0.5, "remainderf": 0.5, "remainderl": 0.5, "drem": 0.5}


def plain_callee(n):
    c = strip_targs(n.get("callee") or "")
    if c.startswith("std::"):
        c = c[5:]
    return c


def _scalar_value_param(t):
    t = (t or "").strip()
    if t.endswith("&") and t.startswith("const "):
        t = t[:-1].strip()
    return t in FLOAT_TYPES or t in INT_TYPES


def helper_callee(fx, n):
    """Fn of a call that may be summarised: a free/static function, or a member function called on `this`,
    that is part of the fact base and returns an arithmetic value."""
    k = n.get("k")
    if k == "CXXMemberCallExpr":
        obj = F.call_object(n)
        if obj is None or obj.get("k") != "CXXThisExpr":
            return None
    elif k != "CallExpr":
        return None
    fn = fx.functions.get(n.get("calleeKey") or "")
    if fn is None:
        return None
    ret = (fn.rec.get("ret") or "").replace("const ", "").replace("&", "").strip()
    if ret not in FLOAT_TYPES and ret not in INT_TYPES:
        return None
    # the value must flow through scalar arguments (or there are none): f(point, point) stays an atom
    if fn.params and not any((p.get("t") or "").replace("const ", "").replace("&", "").strip() in FLOAT_TYPES
                             for p in fn.params):
        return None
    return fn


def return_stmts(fn):
    out = []

    def rec(n):
        if n is None or n.get("k") == "LambdaExpr":
            return
        if n.get("k") == "ReturnStmt" and n.get("c"):
            out.append(n)
        for ch in F.children(n):
            rec(ch)
    rec(fn.body)
    return out


_SUMM = {}


def not_summarisable(fx, fn, stack=()):
    """None if fn's result is a pure function of its by-value parameters that the engines can inline;
    else the reason."""
    if fn.key in stack:
        return "%s is recursive" % fn.short
    ck = (id(fn), fn.key)
    if ck in _SUMM and _SUMM[ck][0] is fn:
        return _SUMM[ck][1]
    why = None
    if fn.body is None:
        why = "%s has no body in the analysed sources" % fn.short
    elif not all(_scalar_value_param(p.get("t")) for p in fn.params):
        why = "%s takes a parameter that is not a scalar passed by value" % fn.short
    elif not return_stmts(fn):
        why = "%s returns no value" % fn.short
    else:
        for n in fn.walk():
            k = n.get("k")
            c = n.get("c") or []
            if (k == "BinaryOperator" and n.get("op") == "=") or k == "CompoundAssignOperator" or \
                    (k == "UnaryOperator" and n.get("op") in ("++", "--")):
                if c and not _is_local_ref(c[0]):
                    why = "%s writes to something that is not a local (%s)" % (fn.short, F.expr_text(c[0]))
                    break
            elif k in ("CallExpr", "CXXMemberCallExpr"):
                cal = helper_callee(fx, n)
                if cal is not None:
                    w2 = not_summarisable(fx, cal, stack + (fn.key,))
                    if w2:
                        why = w2
                        break
            elif k in ("CXXNewExpr", "CXXDeleteExpr", "CXXThrowExpr", "GotoStmt"):
                why = "%s contains %s" % (fn.short, k)
                break
    _SUMM[ck] = (fn, why)
    return why


def failed_events(trace, start=0, structural_only=False):
    """Reasons of the unmodelled helper idioms met since trace position `start`: in-place updates through
    reference parameters and calls that could not be summarised (structural_only: ignore helpers that are
    summarisable but whose return statements differ - ranges can still be joined)."""
    out = []
    for kind, node, cal, ok, why in trace[start:]:
        if ok:
            continue
        if structural_only and kind == "call" and why.startswith("its return statements"):
            continue
        if why not in out:
            out.append(why)
    return out


class Sym:
    """Symbolic view of one function activation (env binds parameters to caller expressions)."""

    def __init__(self, fx, fn, env=None, modwrap=False):
        self.fx = fx
        self.fn = fn
        self.env = env or {}          # param decl -> (node, Sym)
        self.rd = reach_defs(fx, fn)
        self.modwrap = modwrap        # resolve values modulo full-circle adjustments
        self._depth = 0
        self.parent = None            # Sym of the caller activation (inlined helpers)
        self.callsite = None          # call node in the caller
        self.trace = []               # helper calls / in-out arguments met while evaluating (shared with children)
        self.stack = (fn.key,)        # activation chain (recursion guard)

    def child(self, fn, env, callsite=None):
        c = Sym(self.fx, fn, env, self.modwrap)
        c.parent, c.callsite = self, callsite
        c.trace = self.trace
        c.stack = self.stack + (fn.key,)
        return c

    def inline_call(self, n):
        """Polynomial of a call to a helper of the fact base (free/static function or member called on
        `this`) whose result is a pure function of its arguments: the callee's return expression with the
        parameters bound to the arguments.  None if n is no such call; failures are recorded in trace."""
        cal = helper_callee(self.fx, n)
        if cal is None:
            return None
        why = not_summarisable(self.fx, cal, self.stack)
        if why is None:
            env = {}
            for p, a in zip(cal.params, call_args(n)):
                if "decl" in p:
                    env[p["decl"]] = (a, self)
            ch = self.child(cal, env, n)
            polys = {}
            for r in return_stmts(cal):
                pr = ch.poly(r["c"][0])
                polys[str(pr)] = pr
            if len(polys) == 1:
                self.trace.append(("call", n, cal, True, ""))
                return list(polys.values())[0]
            why = "its return statements yield %d different expressions" % len(polys)
        self.trace.append(("call", n, cal, False, why))
        return None

    # -- resolution of a local/param use to the expression that defines it
    def _wrap_adjust_source(self, did):
        """If definition `did` only shifts its variable by a constant multiple (wrap adjustment),
        return the use node of the previous value, else None."""
        decl, kind, node, extra = self.rd.defs[did]
        if kind == "compound" and node.get("op") in ("+=", "-="):
            lhs, rhs = node["c"]
            if self.poly(rhs).numeric() is not None:
                return lhs
        if kind == "assign":
            v = node
            if is_call(v) and plain_callee(v) in WRAP_CALLS:
                a = call_args(v)
                if len(a) == 2 and _is_local_ref(a[0]) and a[0]["ref"]["decl"] == decl \
                        and self.poly(a[1]).numeric() is not None:
                    return a[0]
            if v.get("k") == "BinaryOperator" and v.get("op") in ("+", "-"):
                l, r = v["c"]
                if _is_local_ref(l) and l["ref"]["decl"] == decl and self.poly(r).numeric() is not None:
                    return l
        return None

    def resolve(self, use):
        """('expr', node, sym) | ('def', did) | ('opaque', text)"""
        ref = use["ref"]
        decl = ref.get("decl")
        if ref.get("dk") == "parm" and decl in self.env:
            rs = self.rd.reaching(use)
            if rs is not None and all(self.rd.defs[d][1] == "param" for d in rs):
                node, sym = self.env[decl]
                return ("expr", node, sym)
        rs = self.rd.reaching(use)
        if rs is None:
            return ("opaque", "%s~?" % ref.get("name"))
        if self.modwrap and len(rs) >= 1:
            base = set()
            seen = set()
            todo = list(rs)
            ok = True
            while todo:
                d = todo.pop()
                if d in seen:
                    continue
                seen.add(d)
                src = self._wrap_adjust_source(d)
                if src is None:
                    base.add(d)
                else:
                    r2 = self.rd.reaching(src)
                    if r2 is None:
                        ok = False
                        break
                    todo.extend(r2)
            if ok and len(base) == 1:
                rs = frozenset(base)
        if len(rs) == 1:
            (did,) = rs
            if self.rd.defs[did][1] == "param" and decl in self.env:
                node, sym = self.env[decl]
                return ("expr", node, sym)
            return ("def", did)
        return ("opaque", "%s@%s" % (ref.get("name"), ",".join(sorted(str(d[0]) for d in rs))))

    # -- polynomials
    def poly(self, n):
        self._depth += 1
        try:
            if self._depth > 200:
                return Poly.atom("<deep>")
            return self._poly(n)
        finally:
            self._depth -= 1

    def _poly(self, n):
        k = n.get("k")
        c = n.get("c") or []
        if k == "IntegerLiteral":
            return Poly.const(int(n["v"]))
        if k == "FloatingLiteral":
            v = float(n["v"])
            if abs(v - math.pi) < 1e-13:
                return Poly.atom(PI)
            return Poly.const(Fraction(repr(v)))
        if k == "CXXBoolLiteralExpr":
            return Poly.const(1 if n.get("v") else 0)
        if k in CASTS and c:
            if n.get("castKind") == "FloatingToIntegral":
                return Poly.atom("int(%s)" % self.ctext(c[0]))
            return self.poly(c[0])
        if k == "InitListExpr" and len(c) == 1:
            return self.poly(c[0])
        if k == "UnaryOperator" and c and n.get("op") in ("-", "+"):
            p = self.poly(c[0])
            return -p if n["op"] == "-" else p
        if k == "BinaryOperator" and len(c) == 2:
            op = n.get("op")
            if op in ("+", "-", "*"):
                a, b = self.poly(c[0]), self.poly(c[1])
                return a + b if op == "+" else a - b if op == "-" else a * b
            if op == "/":
                if (n.get("t") or "") in INT_TYPES:
                    return Poly.atom("idiv(%s,%s)" % (self.ctext(c[0]), self.ctext(c[1])))
                return self.poly(c[0]).div(self.poly(c[1]))
            if op == ",":
                return self.poly(c[1])
        if k == "DeclRefExpr":
            dk = n["ref"].get("dk")
            if dk in ("local", "parm"):
                r = self.resolve(n)
                if r[0] == "expr":
                    return r[2].poly(r[1])
                if r[0] == "def":
                    decl, kind, node, extra = self.rd.defs[r[1]]
                    if kind in ("init", "assign"):
                        if self.modwrap and is_call(node) \
                                and plain_callee(node) in WRAP_CALLS and len(call_args(node)) == 2 \
                                and self.poly(call_args(node)[1]).numeric() is not None:
                            return self.poly(call_args(node)[0])
                        return self.poly(node)
                    if kind == "compound":
                        lhs, rhs = node["c"]
                        op = node.get("op")
                        a, b = self.poly(lhs), self.poly(rhs)
                        if op == "+=":
                            return a + b
                        if op == "-=":
                            return a - b
                        if op == "*=":
                            return a * b
                        if op == "/=" and (node.get("t") or "") not in INT_TYPES:
                            return a.div(b)
                    if kind == "out":
                        self._note_inout(n, node, extra)
                        return Poly.atom(self._out_text(node, extra))
                    return Poly.atom("%s@%s" % (n["ref"].get("name"), r[1][0]))
                return Poly.atom(r[1])
            if dk == "enumconst":
                return Poly.const(int(n["ref"].get("v", 0)))
            if dk in ("global", "staticmember"):
                g = self.fx.globals.get(n["ref"].get("qn"))
                if g is not None and g.get("init") is not None and (g.get("t") or "").startswith("const"):
                    return Sym(self.fx, self.fn).poly(g["init"])
                return Poly.atom(n["ref"].get("qn") or n["ref"].get("name"))
        if k in ("CallExpr", "CXXMemberCallExpr"):
            if self.modwrap and k == "CallExpr" and plain_callee(n) in WRAP_CALLS and len(call_args(n)) == 2 \
                    and self.poly(call_args(n)[1]).numeric() is not None:
                return self.poly(call_args(n)[0])       # value modulo full circles
            p = self.inline_call(n)
            if p is not None:
                return p
        return Poly.atom(self.ctext(n))

    def _note_inout(self, use, call, idx):
        """`helper(a)` with a mutable reference parameter where a already had a value: the callee
        transforms the variable in place - not modelled."""
        cal = self.fx.functions.get(call.get("calleeKey") or "")
        if cal is None or cal.body is None:
            return
        args = call_args(call)
        if call.get("k") == "CXXOperatorCallExpr" and call.get("memberOp"):
            args = args[1:]
        if idx >= len(args) or not _is_local_ref(args[idx]):
            return
        prev = self.rd.at.get(args[idx]["id"]) or frozenset()
        if any(self.rd.defs[d][1] != "uninit" for d in prev):
            self.trace.append(("inout", call, cal, False,
                               "%s updates its argument %s in place through a reference parameter"
                               % (cal.short, use["ref"].get("name"))))

    def _out_text(self, call, idx):
        args = call_args(call)
        if call.get("k") == "CXXOperatorCallExpr" and call.get("memberOp"):
            args = args[1:]
        pts = param_types(self.fx, call) or []
        parts = []
        for i, a in enumerate(args):
            if i < len(pts) and _mutable_ref(pts[i]) and _is_local_ref(a):
                parts.append("_")
            else:
                parts.append(self.ctext(a))
        return "out%d:%s(%s)" % (idx, plain_callee(call), ",".join(parts))

    # -- canonical text of an expression (locals resolved, casts dropped)
    def ctext(self, n):
        self._depth += 1
        try:
            if self._depth > 200:
                return "<deep>"
            return self._ctext(n)
        finally:
            self._depth -= 1

    def _ctext(self, n):
        if n is None:
            return ""
        k = n.get("k")
        c = n.get("c") or []
        t = n.get("t") or ""
        if k in ("IntegerLiteral", "FloatingLiteral") or \
                (k in ("BinaryOperator", "UnaryOperator") and (t in FLOAT_TYPES or t in INT_TYPES)
                 and n.get("op") in ("+", "-", "*", "/")):
            return str(self.poly(n))
        if k in CASTS and c:
            return self.ctext(c[0])
        if k == "DeclRefExpr":
            dk = n["ref"].get("dk")
            if dk in ("local", "parm"):
                if t in FLOAT_TYPES or t in INT_TYPES:
                    return str(self.poly(n))
                r = self.resolve(n)
                if r[0] == "expr":
                    return r[2].ctext(r[1])
                if r[0] == "def":
                    decl, kind, node, extra = self.rd.defs[r[1]]
                    if kind in ("init", "assign"):
                        return self.ctext(node)
                    if kind == "param":
                        return "arg:%s" % n["ref"].get("name")
                    return "%s@%s" % (n["ref"].get("name"), r[1][0])
                return r[1]
            return n["ref"].get("qn") or n["ref"].get("name") or "?"
        if k == "CXXThisExpr":
            return "this"
        if k == "MemberExpr":
            base = self.ctext(c[0]) if c else "this"
            return "%s.%s" % (base, n.get("member"))
        if k == "CXXMemberCallExpr":
            obj = F.call_object(n)
            return "%s(%s;%s)" % (plain_callee(n), self.ctext(obj) if obj is not None else "",
                                  ",".join(self.ctext(a) for a in call_args(n)))
        if k == "CallExpr":
            return "%s(%s)" % (plain_callee(n), ",".join(self.ctext(a) for a in call_args(n)))
        if k == "CXXOperatorCallExpr":
            return "%s(%s)" % (plain_callee(n) or ("operator" + str(n.get("op"))),
                               ",".join(self.ctext(a) for a in call_args(n)))
        if k in ("CXXConstructExpr", "CXXTemporaryObjectExpr"):
            if len(c) == 1:
                return self.ctext(c[0])
            return "%s(%s)" % (plain_callee(n), ",".join(self.ctext(a) for a in c))
        if k == "ArraySubscriptExpr" and len(c) == 2:
            return "%s[%s]" % (self.ctext(c[0]), self.ctext(c[1]))
        if k == "UnaryOperator" and c:
            return "%s(%s)" % (n.get("op"), self.ctext(c[0]))
        if k == "BinaryOperator" and len(c) == 2:
            return "(%s%s%s)" % (self.ctext(c[0]), n.get("op"), self.ctext(c[1]))
        if k == "ConditionalOperator" and len(c) == 3:
            return "(%s?%s:%s)" % tuple(self.ctext(x) for x in c)
        if k == "InitListExpr" and len(c) == 1:
            return self.ctext(c[0])
        return "%s#%s" % (k, ",".join(self.ctext(x) for x in c))


# =========================================================================== wrap loops

def _unwrap_body(b):
    """Statements of a loop body (CompoundStmt flattened, NullStmt dropped)."""
    if b is None:
        return []
    if b.get("k") == "CompoundStmt":
        out = []
        for s in b.get("c") or []:
            out.extend(_unwrap_body(s))
        return out
    if b.get("k") == "NullStmt":
        return []
    return [b]


def _same_lvalue(a, b):
    """Structural equality of two lvalue expressions (same variable / same field path)."""
    ka, kb = a.get("k"), b.get("k")
    if ka in CASTS and a.get("c"):
        return _same_lvalue(a["c"][0], b)
    if kb in CASTS and b.get("c"):
        return _same_lvalue(a, b["c"][0])
    if ka != kb:
        return False
    if ka == "DeclRefExpr":
        ra, rb = a["ref"], b["ref"]
        if ra.get("dk") in ("local", "parm"):
            return ra.get("decl") == rb.get("decl") and rb.get("dk") == ra.get("dk")
        return ra.get("qn") == rb.get("qn") and ra.get("name") == rb.get("name")
    if ka == "MemberExpr":
        if a.get("member") != b.get("member") or a.get("owner") != b.get("owner"):
            return False
        ca, cb = a.get("c") or [], b.get("c") or []
        if not ca or not cb:
            return not ca and not cb
        return _same_lvalue(ca[0], cb[0])
    if ka == "CXXThisExpr":
        return True
    if ka in ("ArraySubscriptExpr", "UnaryOperator", "CXXOperatorCallExpr", "CXXMemberCallExpr"):
        ca, cb = a.get("c") or [], b.get("c") or []
        return a.get("op") == b.get("op") and a.get("callee") == b.get("callee") and \
            len(ca) == len(cb) and all(_same_lvalue(x, y) for x, y in zip(ca, cb))
    if ka in ("IntegerLiteral", "FloatingLiteral"):
        return a.get("v") == b.get("v")
    return False


def _mentions(expr, lv):
    for x in walk(expr):
        if x.get("k") == lv.get("k") and _same_lvalue(x, lv):
            return True
    return False


def wrap_loop(loop):
    """Recognise `while (v cmp C) v -+= K` (any loop statement form, operands in any order, `v = v -+ K`
    accepted).  Returns dict(var, cmp (normalised to `v cmp C`), bound node C, step node K, sign (+1/-1),
    kind) or None.  C and K only need to be free of v."""
    k = loop.get("k")
    if k not in ("WhileStmt", "DoStmt", "ForStmt"):
        return None
    if k == "ForStmt" and loop.get("inc") is not None:
        stmts = _unwrap_body(loop.get("body")) + [loop["inc"]]
    else:
        stmts = _unwrap_body(loop.get("body"))
    cond = loop.get("cond")
    if cond is None or cond.get("k") != "BinaryOperator" or cond.get("op") not in ("<", ">", "<=", ">="):
        return None
    if not stmts:
        return None
    # the stepped variable
    var = None
    steps = []
    for s in stmts:
        c = s.get("c") or []
        if s.get("k") == "CompoundAssignOperator" and s.get("op") in ("+=", "-="):
            lv, kk, sign = c[0], c[1], (1 if s["op"] == "+=" else -1)
        elif s.get("k") == "BinaryOperator" and s.get("op") == "=" and c[1].get("k") == "BinaryOperator" \
                and c[1].get("op") in ("+", "-") and _same_lvalue(c[0], c[1]["c"][0]):
            lv, kk, sign = c[0], c[1]["c"][1], (1 if c[1]["op"] == "+" else -1)
        else:
            return None
        if var is None:
            var = lv
        elif not _same_lvalue(var, lv):
            return None
        if _mentions(kk, var):
            return None
        steps.append((sign, kk))
    if len(steps) != 1:
        return None
    l, r = cond["c"]
    op = cond["op"]
    if _same_lvalue(l, var) and not _mentions(r, var):
        bound = r
    elif _same_lvalue(r, var) and not _mentions(l, var):
        bound = l
        op = {"<": ">", ">": "<", "<=": ">=", ">=": "<="}[op]
    else:
        return None
    return {"var": var, "cmp": op, "bound": bound, "step": steps[0][1], "sign": steps[0][0], "kind": k}


# =========================================================================== class helpers

LL = "GNU_gama::local::LocalLinearization"
AOV = "GNU_gama::local::AllObservationsVisitor"
OBS = "GNU_gama::local::Observation"


def class_rec(fx, base):
    """Class record of a base-specifier (by full template name first, then stripped name)."""
    r = fx.class_insts.get(base.get("qnt") or "")
    if r is None:
        r = fx.class_insts.get(base.get("t") or "")
    if r is None:
        r = fx.classes.get(strip_targs(base.get("qn") or ""))
    return r


def all_bases(fx, rec):
    """Transitive base class records, following the exact template instantiations."""
    out, seen, todo = [], set(), [rec]
    while todo:
        r = todo.pop()
        for b in r.get("bases", []):
            br = class_rec(fx, b)
            name = b.get("qnt") or b.get("t") or b.get("qn")
            if name in seen:
                continue
            seen.add(name)
            out.append((name, br))
            if br is not None:
                todo.append(br)
    return out


def derives_from(fx, rec, qn):
    return any(strip_targs(n) == qn for n, _ in all_bases(fx, rec))


def observation_classes(fx):
    """Concrete classes deriving from local::Observation: short name -> record."""
    res = {}
    for q, rec in fx.classes.items():
        if not q.startswith("GNU_gama::local::") or rec.get("abstract"):
            continue
        if derives_from(fx, rec, OBS):
            res[q] = rec
    return res


def visit_target(m):
    """Observation class visited by a `visit(T*)` method record, or None."""
    ps = m.get("params") or []
    if m.get("name") != "visit" or len(ps) != 1:
        return None
    t = ps[0]["t"] if isinstance(ps[0], dict) else ps[0]
    t = t.strip()
    if not t.endswith("*"):
        return None
    t = t[:-1].strip()
    if t.startswith("const "):
        t = t[6:]
    return t


def is_angular(fx, cls):
    """True iff `cls::angular()` is overridden to return the literal true."""
    for f in fx.fns(cls + "::angular"):
        for n in f.walk():
            if n.get("k") == "ReturnStmt":
                for x in walk(n):
                    if x.get("k") == "CXXBoolLiteralExpr":
                        return bool(x.get("v"))
    return False


def methods_in_hierarchy(fx, rec):
    """Function objects of all methods declared in rec and its bases, most-derived first."""
    out = []
    for r in [rec] + [br for _, br in all_bases(fx, rec) if br is not None]:
        for m in r.get("methods", []):
            f = fx.functions.get(m.get("key"))
            if f is not None:
                out.append((r, m, f))
    return out


def dispatch(fx, rec, callee_key, name, nparams_sig):
    """Resolve a call on `this` relative to the most derived class `rec`: the first method in the
    hierarchy (most derived first) with the same name and parameter list that has a body."""
    for r, m, f in methods_in_hierarchy(fx, rec):
        if m.get("name") == name and tuple(m.get("params") or ()) == nparams_sig and f.body is not None:
            return f
    return fx.functions.get(callee_key)


# =========================================================================== handler model (B1 + slots)

class Violation:
    def __init__(self, what, fn, node, msg):
        self.what, self.fn, self.node, self.msg = what, fn, node, msg


class HandlerModel:
    """Abstract interpretation of one visit(T*) activation of the linearisation class.

    State: (n, pc, pi, slots)  n = value of `size` (None = not yet reset), pc/pi = pending coefficient /
    index expression of the slot `size` points at, slots = tuple of completed (index, coeff) pairs.
    Expressions are closures (Sym, node)."""

    def __init__(self, fx, rec, entry, fields, bound, modwrap=False):
        self.fx, self.rec, self.entry = fx, rec, entry
        self.f = fields
        self.bound = bound
        self.violations = []
        self.rhs_sites = []        # (Sym, assignment node)
        self.size_resets = 0
        self.functions = []
        self.closures = {}
        self.modwrap = modwrap
        self._touch = {}
        self._children = {}       # (caller activation, call node) -> callee activation
        sym = Sym(fx, entry, None, modwrap)
        self.final = self.run(entry, sym, {(None, None, None, ())})

    def clo(self, sym, node):
        key = (id(sym), node["id"])
        self.closures[key] = (sym, node)
        return key

    def is_field(self, n, role):
        return F.is_this_field(n, self.f[role])

    def _this_callee(self, n):
        """Function called on `this` inside the class hierarchy, or None."""
        if n.get("k") != "CXXMemberCallExpr":
            return None
        obj = F.call_object(n)
        if obj is None or obj.get("k") != "CXXThisExpr":
            return None
        key = n.get("calleeKey")
        f0 = self.fx.functions.get(key)
        if f0 is None:
            return None
        m = None
        for r, mm, f in methods_in_hierarchy(self.fx, self.rec):
            if f is f0:
                m = mm
        if m is None:
            return None
        return dispatch(self.fx, self.rec, key, m["name"], tuple(m.get("params") or ()))

    def touches(self, fn, stack=()):
        """Does fn (transitively through this-calls) write size/coeff/index/rhs?"""
        if fn.key in self._touch:
            return self._touch[fn.key]
        if fn.key in stack:
            return False
        res = False
        for n in fn.walk():
            k = n.get("k")
            c = n.get("c") or []
            if k in ("BinaryOperator", "CompoundAssignOperator") and c and \
                    n.get("op") in ("=", "+=", "-=", "*=", "/="):
                lhs = c[0]
                if lhs.get("k") == "ArraySubscriptExpr":
                    lhs = lhs["c"][0]
                if any(self.is_field(lhs, r) for r in ("size", "coeff", "index", "rhs")):
                    res = True
            elif k == "UnaryOperator" and n.get("op") in ("++", "--") and c and self.is_field(c[0], "size"):
                res = True
            elif k == "CXXMemberCallExpr":
                cal = self._this_callee(n)
                if cal is not None and cal.body is not None and self.touches(cal, stack + (fn.key,)):
                    res = True
        self._touch[fn.key] = res
        return res

    def _subscript(self, lhs):
        """('size'|'size++'|None) form of the subscript of coeff[..]/index[..]."""
        sub = lhs["c"][1]
        while sub.get("k") in CASTS and sub.get("c"):
            sub = sub["c"][0]
        if self.is_field(sub, "size"):
            return "size", None
        if sub.get("k") == "UnaryOperator" and sub.get("op") == "++" and sub.get("postfix") \
                and self.is_field(sub["c"][0], "size"):
            return "size++", sub
        return None, sub

    def run(self, fn, sym, states):
        if fn.body is None:
            return states
        self.functions.append(fn)
        cfg = fn.cfg
        nodes = fn.nodes
        # events of this function
        deferred_inc = set()
        for n in fn.walk():
            if n.get("k") == "ArraySubscriptExpr" and (self.is_field(n["c"][0], "coeff")
                                                       or self.is_field(n["c"][0], "index")):
                form, sub = self._subscript(n)
                if form == "size++":
                    deferred_inc.add(sub["id"])
        # no relevant event inside a CFG cycle
        cyc = set()
        for b in cfg.blocks:
            for s in cfg.succ.get(b, []):
                if b in cfg.reachable_blocks_from(s):
                    cyc.add(b)
        IN = {b: set() for b in cfg.blocks}
        IN[cfg.entry] = set(states)
        work = [cfg.entry]
        out_states = set()
        guard = 0
        while work:
            guard += 1
            if guard > 100000:
                raise AnalysisBroken("R-BND: state propagation does not converge in %s" % fn.key)
            b = work.pop()
            sts = set(IN[b])
            throws = False
            for e in cfg.blocks[b].get("el", []):
                if not isinstance(e, int):
                    continue
                n = nodes.get(e)
                if n is None:
                    continue
                if n.get("k") == "CXXThrowExpr":
                    throws = True
                new = self.transfer(fn, sym, n, sts, deferred_inc, b in cyc)
                if new is not None:
                    sts = new
            if b == cfg.exit:
                out_states |= sts
                continue
            if throws:
                continue        # the activation is abandoned: nothing is handed to the consumer
            succs = cfg.succ.get(b, [])
            if not succs:
                # noreturn/throw block without edge: path ends
                continue
            for s in succs:
                if not sts <= IN[s]:
                    IN[s] |= sts
                    work.append(s)
        return out_states

    def transfer(self, fn, sym, n, sts, deferred_inc, in_cycle):
        k = n.get("k")
        c = n.get("c") or []

        def loop_check():
            if in_cycle:
                raise AnalysisBroken("R-BND: write to %s/%s/%s inside a loop of %s - the handlers are "
                                     "expected to be loop-free in their slot code"
                                     % (self.f["size"], self.f["coeff"], self.f["index"], fn.key))

        if k == "BinaryOperator" and n.get("op") == "=" and len(c) == 2:
            lhs, rhs = c
            if self.is_field(lhs, "rhs"):
                self.rhs_sites.append((sym, fn, n))
                return None
            if self.is_field(lhs, "size"):
                loop_check()
                v = sym.poly(rhs).numeric()
                if v is None or v != int(v):
                    raise AnalysisBroken("R-BND: %s assigned a non-constant in %s" % (self.f["size"], fn.key))
                if int(v) != 0:
                    raise AnalysisBroken("R-BND: %s set to a non-zero constant in %s" % (self.f["size"], fn.key))
                self.size_resets += 1
                return {(0, None, None, ())}
            if lhs.get("k") == "ArraySubscriptExpr":
                role = "coeff" if self.is_field(lhs["c"][0], "coeff") else \
                    "index" if self.is_field(lhs["c"][0], "index") else None
                if role is None:
                    return None
                loop_check()
                form, sub = self._subscript(lhs)
                if form is None:
                    raise AnalysisBroken("R-BND: unsupported subscript form %s[%s] in %s"
                                         % (self.f[role], F.expr_text(sub), fn.key))
                clo = self.clo(sym, rhs)
                new = set()
                for (cnt, pc, pi, slots) in sts:
                    if cnt is None:
                        self.violations.append(Violation("reset", fn, n,
                                               "%s[%s] written before %s is reset on some path"
                                               % (self.f[role], self.f["size"], self.f["size"])))
                        cnt = 0
                    if cnt >= self.bound:
                        self.violations.append(Violation("bound", fn, n,
                                               "write to %s[%d] but the array bound is %d"
                                               % (self.f[role], cnt, self.bound)))
                    if role == "coeff":
                        pc = clo
                    else:
                        pi = clo
                    st = (cnt, pc, pi, slots)
                    if form == "size++":
                        st = self._inc(fn, n, st)
                    new.add(st)
                return new
            return None
        if k == "CompoundAssignOperator" and c:
            lhs = c[0]
            if self.is_field(lhs, "rhs"):
                raise AnalysisBroken("R-UNIT/R-WRAP: compound update of %s in %s is not modelled"
                                     % (self.f["rhs"], fn.key))
            if self.is_field(lhs, "size"):
                loop_check()
                v = sym.poly(c[1]).numeric()
                if n.get("op") == "+=" and v == 1:
                    return {self._inc(fn, n, st) for st in sts}
                raise AnalysisBroken("R-BND: unsupported update of %s in %s" % (self.f["size"], fn.key))
            if lhs.get("k") == "ArraySubscriptExpr" and (self.is_field(lhs["c"][0], "coeff")
                                                         or self.is_field(lhs["c"][0], "index")):
                raise AnalysisBroken("R-BND: compound write to a slot array in %s" % fn.key)
            return None
        if k == "UnaryOperator" and c and self.is_field(c[0], "size"):
            if n["id"] in deferred_inc:
                return None
            loop_check()
            if n.get("op") == "++":
                return {self._inc(fn, n, st) for st in sts}
            if n.get("op") == "--":
                raise AnalysisBroken("R-BND: decrement of %s in %s" % (self.f["size"], fn.key))
            return None
        if k == "CXXMemberCallExpr":
            cal = self._this_callee(n)
            if cal is not None and cal.body is not None and self.touches(cal):
                loop_check()
                env = {}
                for p, a in zip(cal.params, call_args(n)):
                    if "decl" in p:
                        env[p["decl"]] = (a, sym)
                ck = (id(sym), n["id"])
                ch = self._children.get(ck)
                if ch is None:
                    ch = self._children[ck] = sym.child(cal, env, n)
                return self.run(cal, ch, sts)
        return None

    def _inc(self, fn, n, st):
        cnt, pc, pi, slots = st
        if cnt is None:
            self.violations.append(Violation("reset", fn, n, "%s incremented before it is reset"
                                             % self.f["size"]))
            cnt = 0
        if pc is None or pi is None:
            missing = self.f["coeff"] if pc is None else self.f["index"]
            if pc is None and pi is None:
                missing = "%s and %s" % (self.f["coeff"], self.f["index"])
            self.violations.append(Violation("pair", fn, n,
                                   "%s incremented (slot %d) without a write to %s[%s] since the "
                                   "previous increment" % (self.f["size"], cnt, missing, self.f["size"])))
            return (cnt + 1, None, None, slots)
        return (cnt + 1, None, None, slots + ((pi, pc),))

    # -- results
    def max_count(self):
        return max([st[0] for st in self.final if st[0] is not None] or [0])

    def dangling(self):
        return [st for st in self.final if st[1] is not None or st[2] is not None]

    def maximal_slot_sets(self):
        sets = {st[3] for st in self.final}
        res = []
        for s in sets:
            ss = set(s)
            if not any(ss < set(o) for o in sets):
                res.append(s)
        return res


# =========================================================================== shared model of the class

class LinModel:
    """Everything the rules need about LocalLinearization, extracted once per fact base."""

    def __init__(self, ctx):
        fx = ctx.facts
        T = table()
        self.fx = fx
        self.fields = T["fields"]
        self.rec = fx.cls(LL)
        fl = {f["name"]: f for f in self.rec.get("fields", [])}
        for role, name in self.fields.items():
            if name not in fl:
                raise AnalysisBroken("LocalLinearization has no field %s (role %s)" % (name, role))
        self.bound_coeff = fl[self.fields["coeff"]].get("arraySize")
        self.bound_index = fl[self.fields["index"]].get("arraySize")
        if not self.bound_coeff or not self.bound_index:
            raise AnalysisBroken("LocalLinearization::coeff/index are no longer fixed arrays")
        self.bound = min(self.bound_coeff, self.bound_index)
        self.obs = observation_classes(fx)
        self.visits = {}              # observation class qn -> Fn of visit(T*)
        for r, m, f in methods_in_hierarchy(fx, self.rec):
            t = visit_target(m)
            if t and t in self.obs and f.body is not None and t not in self.visits:
                self.visits[t] = f
        self.models = {}
        self.models_mw = {}           # same, values resolved modulo wrap adjustments (rhs scale)
        for t, f in sorted(self.visits.items()):
            self.models[t] = HandlerModel(fx, self.rec, f, self.fields, self.bound)
            self.models_mw[t] = HandlerModel(fx, self.rec, f, self.fields, self.bound, modwrap=True)
            for g in self.models[t].functions:
                ctx.saw(g)
        self.angular = {t: is_angular(fx, t) for t in self.obs}

    def tname(self, t):
        return t.split("::")[-1]


_MODEL = {}


def lin_model(ctx):
    m = _MODEL.get(id(ctx.facts))
    if m is None or m.fx is not ctx.facts:
        m = LinModel(ctx)
        _MODEL.clear()
        _MODEL[id(ctx.facts)] = m
    else:
        for hm in m.models.values():
            for g in hm.functions:
                ctx.saw(g)
    return m


# =========================================================================== R-BND B1

def rule_bnd(ctx):
    rule = "R-BND"
    fx = ctx.facts
    M = lin_model(ctx)
    f = M.fields
    # (a) per handler: bound, pairing, reset
    for t, hm in sorted(M.models.items()):
        tn = M.tname(t)
        fn = hm.entry
        mx = hm.max_count()
        byk = {}
        for v in hm.violations:
            byk.setdefault(v.what, []).append(v)
        # bound
        vb = byk.get("bound", [])
        ok = not vb and mx <= M.bound
        ctx.report(rule, "LocalLinearization:%s:B1-bound" % tn, ok,
                   (vb[0].fn.where(vb[0].node) if vb else fn.where()), fn.short,
                   msg="" if ok else "up to %d increments of %s on a path, array bound of %s/%s is %d%s"
                   % (mx, f["size"], f["coeff"], f["index"], M.bound,
                      "; " + vb[0].msg if vb else ""),
                   detail={"max_increments": mx, "bound": M.bound, "paths_end_states": len(hm.final)})
        # pairing
        vp = byk.get("pair", [])
        dang = hm.dangling()
        ok = not vp and not dang
        msg = ""
        if vp:
            msg = vp[0].msg
        elif dang:
            msg = "a slot is written at the end of a path but %s is not incremented (the coefficient is " \
                  "dropped)" % f["size"]
        ctx.report(rule, "LocalLinearization:%s:B1-paired" % tn, ok,
                   (vp[0].fn.where(vp[0].node) if vp else fn.where()), fn.short, msg=msg,
                   detail={"slots_on_longest_path": mx})
        # reset
        vr = byk.get("reset", [])
        ok = not vr and hm.size_resets >= 1
        ctx.report(rule, "LocalLinearization:%s:B1-reset" % tn, ok,
                   (vr[0].fn.where(vr[0].node) if vr else fn.where()), fn.short,
                   msg="" if ok else (vr[0].msg if vr else "%s is never reset to 0" % f["size"]))
    ctx.floor(rule, 13, len(M.models), "LocalLinearization handlers (visit(T*) entries)")
    # (b) max_size == array bound
    ctor_vals = []
    for fn in fx.methods_of(LL):
        for init in fn.rec.get("inits", []) or []:
            if init.get("field") == f["max_size"]:
                v = Sym(fx, fn).poly(init["init"]).numeric() if init.get("init") is not None else None
                ctor_vals.append((fn, v))
    if not ctor_vals:
        raise AnalysisBroken("R-BND: no constructor initialiser of %s found" % f["max_size"])
    for fn, v in ctor_vals:
        ctx.saw(fn)
        ok = v is not None and v == M.bound_coeff == M.bound_index
        ctx.report(rule, "LocalLinearization:%s==bound:ctor/%d" % (f["max_size"], len(fn.params)), ok,
                   fn.where(), fn.short,
                   msg="" if ok else "%s is initialised to %s but %s[%s] / %s[%s]"
                   % (f["max_size"], v, f["coeff"], M.bound_coeff, f["index"], M.bound_index))
    # (c) the consumer reserves rows * max_size
    consumers = []
    for g in fx.functions.values():
        if g.body is None or (g.cls and strip_targs(g.cls) == LL):
            continue
        reads = [n for n in g.walk() if n.get("k") == "MemberExpr" and n.get("mk") == "field"
                 and strip_targs(n.get("owner") or "") == LL
                 and n.get("member") in (f["coeff"], f["index"], f["max_size"])]
        if reads:
            consumers.append((g, reads))
    for g, reads in consumers:
        ctx.saw(g)
        sym = Sym(fx, g)
        ms = [n for n in reads if n["member"] == f["max_size"]]
        res = []
        for n in g.walk():
            if n.get("k") in ("CXXConstructExpr", "CXXTemporaryObjectExpr") and \
                    strip_targs(n.get("callee") or "").startswith("GNU_gama::SparseMatrix::SparseMatrix"):
                a = n.get("c") or []
                if len(a) == 3:
                    res.append((n, a))
        ok, msg = True, ""
        if not res:
            ok, msg = False, "reads %s/%s but builds no SparseMatrix reservation here" % (f["coeff"], f["index"])
        elif not ms:
            ok, msg = False, "the reservation does not use %s" % f["max_size"]
        else:
            atom = sym.poly(ms[0])
            for n, a in res:
                if not (sym.poly(a[0]) - sym.poly(a[1]) * atom).is_zero():
                    ok = False
                    msg = "SparseMatrix reservation is %s, expected rows*%s = %s" % (
                        sym.poly(a[0]), f["max_size"], sym.poly(a[1]) * atom)
        ctx.report(rule, "%s:reserves-rows*%s" % (g.sig, f["max_size"]), ok, g.where(), g.short, msg=msg)
    ctx.floor(rule, 1, len(consumers), "consumers of LocalLinearization::coeff/index")


# =========================================================================== slots (shared by L1 / U1)

def resolve_expr(sym, node, depth=0):
    """Follow casts, env-bound parameters and uniquely defined locals to the defining expression."""
    while depth < 50:
        depth += 1
        k = node.get("k")
        if k in CASTS and node.get("c"):
            node = node["c"][0]
            continue
        if _is_local_ref(node):
            r = sym.resolve(node)
            if r[0] == "expr":
                sym, node = r[2], r[1]
                continue
            if r[0] == "def":
                decl, kind, dn, extra = sym.rd.defs[r[1]]
                if kind in ("init", "assign"):
                    node = dn
                    continue
        break
    return sym, node


class Slot:
    def __init__(self, hm, pair):
        isym, inode = hm.closures[pair[0]]
        csym, cnode = hm.closures[pair[1]]
        mark = len(csym.trace)
        self.coeff = csym.poly(cnode)
        self.unmodelled = failed_events(csym.trace, mark)
        self.coeff_node, self.coeff_fn = cnode, csym.fn
        s2, n2 = resolve_expr(isym, inode)
        self.index_text = s2.ctext(n2)
        self.accessor = None
        self.point = None
        if n2.get("k") == "CXXMemberCallExpr":
            self.accessor = strip_targs(n2.get("callee") or "")
            obj = F.call_object(n2)
            self.point = s2.ctext(obj) if obj is not None else None
        self.kind = table()["index_accessors"].get(self.accessor)


def handler_slots(hm):
    """One list of Slot per inclusion-maximal path of the handler."""
    res = []
    for s in hm.maximal_slot_sets():
        res.append([Slot(hm, p) for p in s])
    return res


# =========================================================================== R-LIN L1

def rule_lin(ctx):
    rule = "R-LIN"
    M = lin_model(ctx)
    T = table()
    single = T["single_point_types"]
    n_axes = 0
    n_empty = 0
    for t, hm in sorted(M.models.items()):
        tn = M.tname(t)
        fn = hm.functions[-1] if hm.functions else hm.entry
        paths = handler_slots(hm)
        if not paths or not any(paths):
            n_empty += 1
            ctx.bad(rule, "LocalLinearization:%s:L1-slots" % tn, fn.where(), fn.short,
                    msg="the handler writes no coefficient at all: the observation equation does not "
                    "depend on any unknown")
            continue
        for sl in paths:
            for s in sl:
                if s.kind is None:
                    raise AnalysisBroken("R-LIN: %s: index expression %s is not one of the classified "
                                         "unknown accessors (tables/lin.json index_accessors)"
                                         % (tn, s.index_text))
        if tn in single:
            # exempt, but only as long as it really is a single-point observation
            pts = {s.point for sl in paths for s in sl if s.kind in ("x", "y", "z")}
            ok = len(pts) == 1
            ctx.report(rule, "LocalLinearization:%s:L1-single-point" % tn, ok, fn.where(), fn.short,
                       msg="" if ok else "%s is listed as a single-point observation (exempt from translation "
                       "invariance) but its slots refer to %d points" % (tn, len(pts)),
                       detail={"exempt": single[tn], "points": sorted(pts)})
            continue
        axes = sorted({s.kind for sl in paths for s in sl if s.kind in ("x", "y", "z")})
        for ax in axes:
            n_axes += 1
            bad = None
            info = []
            for sl in paths:
                tot = Poly()
                pts = set()
                for s in sl:
                    if s.kind == ax:
                        tot = tot + s.coeff
                        pts.add(s.point)
                info.append({"points": len(pts), "slots": sum(1 for s in sl if s.kind == ax)})
                if not tot.is_zero() or len(pts) < 2:
                    bad = (tot, pts, sl)
            if bad is None:
                ctx.ok(rule, "LocalLinearization:%s:L1-sum-%s" % (tn, ax), fn.where(), fn.short, detail=info)
            else:
                tot, pts, sl = bad
                evs = [e for s_ in sl if s_.kind == ax for e in s_.unmodelled]
                if evs:
                    raise AnalysisBroken("R-LIN L1: %s: a coefficient passes through a helper that is not "
                                         "modelled (%s)" % (tn, "; ".join(sorted(set(evs)))))
                where = fn.where()
                for s in sl:
                    if s.kind == ax:
                        where = s.coeff_fn.where(s.coeff_node)
                if len(pts) < 2:
                    msg = "only %d point has a %s slot: a two/three-point observation must depend on " \
                          "coordinate differences" % (len(pts), ax)
                else:
                    txt = str(tot)
                    if len(txt) > 300:
                        txt = txt[:300] + "..."
                    msg = "the %s-coefficients over all points do not sum to zero (translation invariance " \
                          "broken): sum = %s" % (ax, txt)
                ctx.bad(rule, "LocalLinearization:%s:L1-sum-%s" % (tn, ax), where, fn.short, msg=msg,
                        detail=info)
    ctx.floor(rule, 13, len(M.models), "LocalLinearization handlers")
    if not n_empty:
        ctx.floor(rule, 18, n_axes, "(observation type, axis) coefficient sums")


# =========================================================================== intervals (W1)

INF = float("inf")
TOPI = (-INF, INF)


def _join(a, b):
    return (min(a[0], b[0]), max(a[1], b[1]))


class Intervals:
    """Forward interval analysis of the floating locals of one function, with closed-form summaries
    for wrap loops (`while (v > C) v -= K`, `while (v < C) v += K`) and range facts for
    fmod/remainder.  Used to bound the value assigned to the right-hand side."""

    def __init__(self, sym, init=None, depth=0):
        self.sym = sym
        self.init = dict(init or {})   # parameter decl -> interval (inlined helper activations)
        self.depth = depth
        self._calls = {}
        self.fn = sym.fn
        self.cfg = self.fn.cfg
        self.nodes = self.fn.nodes
        self.rd = sym.rd
        self.before = {}          # element node id -> state before it (joined over visits)
        self.loops = {}           # header block id -> wrap summary
        for bid, blk in self.cfg.blocks.items():
            t = blk.get("term")
            tn = self.nodes.get(t) if isinstance(t, int) else None
            if tn is not None and tn.get("k") in ("WhileStmt", "ForStmt") and blk.get("cond") is not None:
                w = wrap_loop(tn)
                if w and _is_local_ref(w["var"]) and w["var"]["ref"]["decl"] not in self.rd.escaped:
                    C = self.sym.poly(w["bound"]).numeric()
                    K = self.sym.poly(w["step"]).numeric()
                    if C is not None and K is not None and K > 0:
                        if (w["cmp"] in (">", ">=") and w["sign"] < 0) or \
                                (w["cmp"] in ("<", "<=") and w["sign"] > 0):
                            self.loops[bid] = (w["var"]["ref"]["decl"], w["cmp"], C, K)
        self._run()

    def const(self, n):
        return self.sym.poly(n).numeric()

    def eval(self, n, st):
        k = n.get("k")
        c = n.get("c") or []
        if k in CASTS and c:
            return self.eval(c[0], st)
        if _is_local_ref(n) and n["ref"]["decl"] not in self.rd.escaped:
            d = n["ref"]["decl"]
            if d in st:
                return st[d]
        v = self.const(n)
        if v is not None:
            return (v, v)
        if k == "UnaryOperator" and c and n.get("op") in ("-", "+"):
            a = self.eval(c[0], st)
            return (-a[1], -a[0]) if n["op"] == "-" else a
        if k == "BinaryOperator" and len(c) == 2:
            op = n.get("op")
            if op in ("+", "-"):
                a, b = self.eval(c[0], st), self.eval(c[1], st)
                if op == "-":
                    b = (-b[1], -b[0])
                return (a[0] + b[0], a[1] + b[1])
            if op in ("*", "/") and (n.get("t") or "") not in INT_TYPES:
                a = self.eval(c[0], st)
                kc = self.const(c[1])
                if kc is None and op == "*":
                    kc = self.const(c[0])
                    a = self.eval(c[1], st)
                if kc is not None and kc != 0 and a != TOPI:
                    f = kc if op == "*" else 1.0 / kc
                    lo, hi = a[0] * f, a[1] * f
                    return (min(lo, hi), max(lo, hi))
        if is_call(n) and plain_callee(n) in WRAP_CALLS:
            a = call_args(n)
            if len(a) == 2:
                K = self.const(a[1])
                if K is not None and K != 0:
                    h = abs(K) * WRAP_CALLS[plain_callee(n)]
                    return (-h, h)
        if k in ("CallExpr", "CXXMemberCallExpr"):
            r = self.call_range(n, st)
            if r is not None:
                return r
        if k == "ConditionalOperator" and len(c) == 3:
            return _join(self.eval(c[1], st), self.eval(c[2], st))
        return TOPI

    def call_range(self, n, st):
        """Range of the result of a summarisable helper: the callee's CFG is analysed with the parameters
        bound to the ranges of the arguments; the result is the join over its return statements."""
        cal = helper_callee(self.sym.fx, n)
        if cal is None or self.depth > 8 or not_summarisable(self.sym.fx, cal, self.sym.stack) is not None:
            return None
        args = call_args(n)
        init = {}
        env = {}
        for p, a in zip(cal.params, args):
            if "decl" in p:
                iv = self.eval(a, st)
                if iv != TOPI:
                    init[p["decl"]] = iv
                env[p["decl"]] = (a, self.sym)
        ck = (n["id"], tuple(sorted(init.items())))
        if ck in self._calls:
            return self._calls[ck]
        sub = Intervals(self.sym.child(cal, env, n), init, self.depth + 1)
        res = None
        for r in return_stmts(cal):
            stb = sub.before.get(r["id"])
            v = TOPI if stb is None else sub.eval(r["c"][0], stb)
            res = v if res is None else _join(res, v)
        if res is None:
            res = TOPI
        self._calls[ck] = res
        return res

    def _refine(self, cond, st, truth):
        """State on the true/false edge of a condition `v cmp C` (other conditions: unchanged)."""
        if cond is None or cond.get("k") != "BinaryOperator" or cond.get("op") not in ("<", ">", "<=", ">="):
            return st
        l, r = cond["c"]
        op = cond["op"]
        while l.get("k") in CASTS and l.get("c"):
            l = l["c"][0]
        while r.get("k") in CASTS and r.get("c"):
            r = r["c"][0]
        if _is_local_ref(r) and not _is_local_ref(l):
            l, r = r, l
            op = {"<": ">", ">": "<", "<=": ">=", ">=": "<="}[op]
        if not _is_local_ref(l) or l["ref"]["decl"] in self.rd.escaped:
            return st
        C = self.const(r)
        if C is None:
            return st
        d = l["ref"]["decl"]
        lo, hi = st.get(d, TOPI)
        upper = op in ("<", "<=")          # v < C
        if not truth:
            upper = not upper              # !(v < C)  ->  v >= C
        if upper:
            hi = min(hi, C)
        else:
            lo = max(lo, C)
        st = dict(st)
        st[d] = (lo, hi)
        return st

    def _run(self):
        cfg, nodes = self.cfg, self.nodes
        # definitions by element
        by_el = {}
        for (elk, decl), rec in self.rd.defs.items():
            by_el.setdefault(elk, []).append(rec)
        IN = {b: None for b in cfg.blocks}
        IN[cfg.entry] = dict(self.init)
        visits = {b: 0 for b in cfg.blocks}
        work = [cfg.entry]
        while work:
            b = work.pop()
            visits[b] += 1
            st = dict(IN[b])
            blk = cfg.blocks[b]
            for e in blk.get("el", []):
                ek = ("d", e["decl"]) if isinstance(e, dict) and "decl" in e else e
                if isinstance(ek, dict):
                    continue
                if isinstance(ek, int):
                    old = self.before.get(ek)
                    if old is None:
                        self.before[ek] = dict(st)
                    else:
                        for d in list(old):
                            if d in st:
                                old[d] = _join(old[d], st[d])
                            else:
                                del old[d]
                for (decl, kind, node, extra) in by_el.get(ek, ()):
                    if kind in ("init", "assign"):
                        v = self.eval(node, st)
                    elif kind == "compound":
                        lhs, rhs = node["c"]
                        cur = st.get(decl, TOPI)
                        op = node.get("op")
                        kc = self.const(rhs)
                        if op in ("+=", "-=") :
                            r = self.eval(rhs, st)
                            if op == "-=":
                                r = (-r[1], -r[0])
                            v = (cur[0] + r[0], cur[1] + r[1])
                        elif op in ("*=", "/=") and kc not in (None, 0) and cur != TOPI \
                                and (node.get("t") or "") not in INT_TYPES:
                            f = kc if op == "*=" else 1.0 / kc
                            lo, hi = cur[0] * f, cur[1] * f
                            v = (min(lo, hi), max(lo, hi))
                        else:
                            v = TOPI
                    else:
                        v = TOPI
                    if v == TOPI or v[0] != v[0] or v[1] != v[1]:
                        st.pop(decl, None)
                    else:
                        st[decl] = v
            raw = [s for s in blk.get("succ", [])]
            cond = nodes.get(blk.get("cond")) if isinstance(blk.get("cond"), int) else None
            two_way = len(raw) == 2 and cond is not None
            for i, s in enumerate(raw):
                if s is None or s < 0:
                    continue
                out = st
                if b in self.loops:
                    if i == 0:
                        continue            # body is summarised, not interpreted
                    d, cmp_, C, K = self.loops[b]
                    lo, hi = st.get(d, TOPI)
                    if cmp_ in (">", ">="):
                        if hi > C or (cmp_ == ">=" and hi >= C):
                            lo, hi = min(lo, C - K), min(hi, C)
                    else:
                        if lo < C or (cmp_ == "<=" and lo <= C):
                            lo, hi = max(lo, C), max(hi, C + K)
                    out = dict(st)
                    out[d] = (lo, hi)
                elif two_way:
                    out = self._refine(cond, st, i == 0)
                old = IN[s]
                if old is None:
                    IN[s] = dict(out)
                    work.append(s)
                    continue
                changed = False
                for d in list(old):
                    if d not in out:
                        del old[d]
                        changed = True
                    else:
                        j = _join(old[d], out[d])
                        if j != old[d]:
                            if visits[s] > 6:
                                del old[d]      # widening: give up on this variable
                            else:
                                old[d] = j
                            changed = True
                if changed:
                    work.append(s)

    def value_at(self, assign_node, expr):
        """Interval of `expr` evaluated just before CFG element `assign_node`."""
        st = self.before.get(assign_node["id"])
        if st is None:
            return TOPI
        return self.eval(expr, st)


# =========================================================================== units

MM_PER_M = (Fraction(1000), 0)            # 1e3
CC_PER_RAD = (Fraction(2000000), -1)      # R2CC = 200e4/pi


def cdiv(a, b):
    return (a[0] / b[0], a[1] - b[1])


def obs_scale(angular):
    """internal unit (m | rad) -> unit of residuals/right-hand sides (mm | cc)."""
    return CC_PER_RAD if angular else MM_PER_M


def unknown_scale(kind):
    return CC_PER_RAD if kind == "orientation" else MM_PER_M


def is_value_atom(a):
    return any(a.startswith(v + "(") for v in table()["value_accessors"])


def is_residual_atom(a):
    return any(a.startswith(v + "(") for v in table()["residual_accessors"])


def monomials(p):
    """[(constant (|c|, pi exponent), sign, non-constant factors)]"""
    out = []
    for m, c in p.t.items():
        (cc, pe), rest = Poly.split(m, c)
        out.append(((abs(cc), pe), 1 if cc > 0 else -1, rest))
    return out


def check_rhs_scale(p, angular):
    """None if every term of the right-hand side carries the internal->residual scale factor, else a
    message."""
    exp = obs_scale(angular)
    ms = monomials(p)
    val = [m for m in ms if len(m[2]) == 1 and m[2][0][1] == 1 and is_value_atom(m[2][0][0])]
    if not val:
        return "the right-hand side is not an affine function of obs->value() that the rule can read"
    for const, sign, rest in val:
        if const != exp:
            return "obs->value() enters the right-hand side with factor %s, expected %s" % (
                const_name(*const), const_name(*exp))
    for const, sign, rest in ms:
        if rest and const != exp:
            return "a term of the right-hand side carries the factor %s, the observed value carries %s " \
                   "(mixed units)" % (const_name(*const), const_name(*exp))
    return None


# =========================================================================== R-UNIT U1

def _arith_parent(fn, n):
    p = fn.parent(n)
    if p is None:
        return False
    k = p.get("k")
    if k == "BinaryOperator" and p.get("op") in ("+", "-", "*", "/"):
        return True
    if k == "UnaryOperator" and p.get("op") in ("+", "-"):
        return True
    if k in CASTS and (p.get("t") or "") in FLOAT_TYPES:
        return True
    if k == "InitListExpr":
        return True
    return False


def residual_combinations(fx, rec, fn, sym, out, stack=()):
    """Collect (fn, node, value constant, residual constant) for every additive combination of
    obs->value() with a solution/residual vector element reachable from fn (this-calls inlined,
    virtual calls dispatched relative to the most derived class rec)."""
    if fn.body is None or fn.key in stack:
        return
    out["functions"].append(fn)
    for n in fn.walk():
        k = n.get("k")
        t = n.get("t") or ""
        p = None
        mark = len(sym.trace)
        if k == "CompoundAssignOperator" and n.get("op") in ("+=", "-=") and t in FLOAT_TYPES:
            a, b = sym.poly(n["c"][0]), sym.poly(n["c"][1])
            p = a + b if n["op"] == "+=" else a - b
        elif t in FLOAT_TYPES and k in ("BinaryOperator", "UnaryOperator", "DeclRefExpr") \
                and n.get("op") in (None, "+", "-", "*", "/") and not _arith_parent(fn, n):
            if k == "DeclRefExpr" and not _is_local_ref(n):
                continue
            par = fn.parent(n)
            if par is not None and par.get("k") in ("BinaryOperator", "CompoundAssignOperator") \
                    and par.get("op") in ("=", "+=", "-=", "*=", "/=") and par["c"][0] is n:
                continue            # plain store target
            p = sym.poly(n)
        if p is not None:
            evs = failed_events(sym.trace, mark)
            if evs and any(is_value_atom(a) or is_residual_atom(a) for a in p.atoms()):
                raise AnalysisBroken("R-UNIT U1: %s combines obs->value()/a residual through a helper that is "
                                     "not modelled (%s)" % (fn.short, "; ".join(evs)))
            vals, ress = [], []
            for const, sign, rest in monomials(p):
                if len(rest) == 1 and rest[0][1] == 1:
                    if is_value_atom(rest[0][0]):
                        vals.append(const)
                    elif is_residual_atom(rest[0][0]):
                        ress.append((const, rest[0][0]))
            if vals and ress:
                out["combos"].append((fn, n, vals, ress))
        if k == "CXXMemberCallExpr":
            obj = F.call_object(n)
            if obj is not None and obj.get("k") == "CXXThisExpr":
                f0 = fx.functions.get(n.get("calleeKey"))
                cal = None
                if f0 is not None:
                    for r, mm, f in methods_in_hierarchy(fx, rec):
                        if f is f0 or (mm.get("key") == n.get("calleeKey")):
                            cal = dispatch(fx, rec, n.get("calleeKey"), mm["name"],
                                           tuple(mm.get("params") or ()))
                            break
                else:
                    # pure virtual declared in a base: resolve by name/arity in the hierarchy
                    name = (n.get("callee") or "").split("::")[-1]
                    for r, mm, f in methods_in_hierarchy(fx, rec):
                        if mm.get("name") == name and len(mm.get("params") or ()) == len(call_args(n)) \
                                and f.body is not None:
                            cal = f
                            break
                if cal is not None and cal.body is not None:
                    env = {}
                    for pp, a in zip(cal.params, call_args(n)):
                        if "decl" in pp:
                            env[pp["decl"]] = (a, sym)
                    residual_combinations(fx, rec, cal, sym.child(cal, env, n), out, stack + (fn.key,))


def visitor_classes(fx, M):
    """Concrete classes that implement visit(T*) for local observation classes: qn -> (rec, {T: Fn})."""
    res = {}
    for q, rec in sorted(fx.classes.items()):
        own = [m for m in rec.get("methods", []) if visit_target(m) in M.obs]
        inherited = False
        if not own:
            for _, br in all_bases(fx, rec):
                if br is not None and any(visit_target(m) in M.obs for m in br.get("methods", [])):
                    inherited = True
        if not own and not inherited:
            continue
        tm = {}
        for r, m, f in methods_in_hierarchy(fx, rec):
            t = visit_target(m)
            if t in M.obs and t not in tm and not m.get("pure"):
                tm[t] = (m, f)
        res[q] = (rec, tm)
    return res


def rule_unit(ctx):
    rule = "R-UNIT"
    fx = ctx.facts
    M = lin_model(ctx)
    f = M.fields
    # (a) right-hand sides and coefficients of the linearisation
    for t in sorted(M.models):
        tn = M.tname(t)
        ang = M.angular[t]
        hm, hw = M.models[t], M.models_mw[t]
        fn = hm.functions[-1] if hm.functions else hm.entry
        unitname = "cc" if ang else "mm"
        if not hw.rhs_sites:
            ctx.bad(rule, "LocalLinearization:%s:U1-rhs-scale" % tn, fn.where(), fn.short,
                    msg="%s is never assigned for this observation type" % f["rhs"])
        else:
            msgs = []
            where = fn.where()
            for sym, g, n in hw.rhs_sites:
                mark = len(sym.trace)
                m = check_rhs_scale(sym.poly(n["c"][1]), ang)
                if m:
                    evs = failed_events(sym.trace, mark)
                    if evs:
                        raise AnalysisBroken("R-UNIT U1: %s: the right-hand side passes through a helper "
                                             "that is not modelled (%s)" % (tn, "; ".join(evs)))
                    msgs.append(m)
                    where = g.where(n)
            ctx.report(rule, "LocalLinearization:%s:U1-rhs-scale" % tn, not msgs, where, fn.short,
                       msg="; ".join(msgs) + (" (%s observation: right-hand side in %s)"
                                              % ("angular" if ang else "linear", unitname) if msgs else ""),
                       detail={"angular": ang, "expected": const_name(*obs_scale(ang))})
        msgs = []
        where = fn.where()
        nslots = 0
        for sl in handler_slots(hm):
            for s in sl:
                if s.kind is None:
                    raise AnalysisBroken("R-UNIT: %s: unclassified index expression %s" % (tn, s.index_text))
                nslots += 1
                exp = cdiv(obs_scale(ang), unknown_scale(s.kind))
                for const, sign, rest in monomials(s.coeff):
                    if const != exp and s.unmodelled:
                        raise AnalysisBroken("R-UNIT U1: %s: a coefficient passes through a helper that is "
                                             "not modelled (%s)" % (tn, "; ".join(s.unmodelled)))
                    if const != exp:
                        msgs.append("coefficient of the %s unknown carries the factor %s, expected %s "
                                    "(%s per %s)" % (s.kind, const_name(*const), const_name(*exp), unitname,
                                                     "cc" if s.kind == "orientation" else "mm"))
                        where = s.coeff_fn.where(s.coeff_node)
                        break
        ctx.report(rule, "LocalLinearization:%s:U1-coeff-scale" % tn, not msgs, where, fn.short,
                   msg="; ".join(sorted(set(msgs))), detail={"slots": nslots, "angular": ang})
    ctx.floor(rule, 13, len(M.models), "LocalLinearization handlers")
    # (b) sibling visitors combining obs->value() with a residual / unknown
    n_sib = 0
    sib_classes = set()
    for q, (rec, tm) in visitor_classes(fx, M).items():
        if q == LL or rec.get("abstract"):
            continue
        for t, (m, fn) in sorted(tm.items()):
            if fn.body is None:
                continue
            out = {"combos": [], "functions": []}
            residual_combinations(fx, rec, fn, Sym(fx, fn), out)
            if not out["combos"]:
                continue
            for g in out["functions"]:
                ctx.saw(g)
            ang = M.angular[t]
            exp = obs_scale(ang)
            msgs = []
            where = fn.where()
            for g, n, vals, ress in out["combos"]:
                for vc in vals:
                    for rc, ratom in ress:
                        ratio = cdiv(vc, rc)
                        if ratio != exp:
                            msgs.append("obs->value() is scaled by %s and the residual/unknown element by %s: "
                                        "ratio %s, expected %s (%s per %s)"
                                        % (const_name(*vc), const_name(*rc), const_name(*ratio),
                                           const_name(*exp), "cc" if ang else "mm", "rad" if ang else "m"))
                            where = g.where(n)
            n_sib += 1
            sib_classes.add(q)
            ctx.report(rule, "%s::visit(%s):U1-residual-scale" % (short(q), M.tname(t)), not msgs, where,
                       fn.short, msg="; ".join(sorted(set(msgs))),
                       detail={"combinations": len(out["combos"]), "angular": ang})
    ctx.floor(rule, 42, n_sib, "visit(T*) methods combining obs->value() with a residual element")
    ctx.floor(rule, 4, len(sib_classes), "sibling visitor classes")


# =========================================================================== R-WRAP W1 / W2

def _interval_of(sym, at_node, expr, cache):
    """Interval of expr at CFG element at_node of sym's function; parameters of inlined helpers are
    followed to the caller's argument at the call site."""
    iv = cache.get(id(sym))
    if iv is None:
        iv = cache[id(sym)] = Intervals(sym)
    v = iv.value_at(at_node, expr)
    if v != TOPI:
        return v
    e = expr
    while e.get("k") in CASTS and e.get("c"):
        e = e["c"][0]
    if _is_local_ref(e) and e["ref"].get("dk") == "parm" and e["ref"]["decl"] in sym.env \
            and sym.parent is not None and sym.callsite is not None:
        node, psym = sym.env[e["ref"]["decl"]]
        return _interval_of(psym, sym.callsite, node, cache)
    return v


def wrap_sites(fx):
    """All wrap loops of the library: fn -> list of recognised loop descriptions."""
    res = {}
    for key, fn in fx.functions.items():
        if fn.body is None or not fn.file.startswith("lib/"):
            continue
        for n in fn.walk():
            if n.get("k") in ("WhileStmt", "DoStmt", "ForStmt"):
                w = wrap_loop(n)
                if w:
                    res.setdefault(fn.key, (fn, []))[1].append((n, w))
    return res


def _guard_holds(fx, fn, guard):
    """Structural guard of an `unreached` classification."""
    if not guard:
        return False, "no guard given"
    if guard.get("no_callers"):
        for g in fx.functions.values():
            if g.body is None or g is fn:
                continue
            for c in g.calls():
                if c.get("calleeKey") == fn.key:
                    return False, "%s is now called from %s" % (fn.short, g.short)
        return True, "no call of %s in the analysed sources" % fn.short
    cls = guard.get("no_construction_of")
    if cls:
        for g in fx.functions.values():
            if g.body is None or (g.cls and strip_targs(g.cls) == cls):
                continue
            for n in g.walk():
                if n.get("k") in ("CXXConstructExpr", "CXXTemporaryObjectExpr", "CXXNewExpr") and \
                        (strip_targs(n.get("calleeClass") or "") == cls
                         or strip_targs(n.get("callee") or "").startswith(cls + "::")):
                    return False, "%s is now constructed in %s" % (cls, g.short)
            for d in (x for n in g.walk() if n.get("k") == "DeclStmt" for x in n.get("decls", [])):
                if strip_targs((d.get("t") or "").replace("const ", "").strip()) == cls:
                    return False, "%s is now instantiated in %s" % (cls, g.short)
        return True, "class %s is never constructed in the analysed sources" % cls
    return False, "unknown guard"


def rule_wrap(ctx):
    """W1 + W2.  (C05 only needs `rule_wrap_w1`, C11 only `rule_wrap_w2`.)"""
    rule_wrap_w1(ctx)
    return rule_wrap_w2(ctx)


def rule_wrap_w1(ctx):
    """W1: angular right-hand sides that are differences of directions are reduced to the half circle."""
    rule = "R-WRAP"
    M = lin_model(ctx)
    T = table()
    exempt = T["w1_exempt"]
    n_w1 = 0
    for t in sorted(M.models):
        if not M.angular[t]:
            continue
        tn = M.tname(t)
        hm = M.models_mw[t]
        fn = hm.functions[-1] if hm.functions else hm.entry
        if tn in exempt:
            ctx.ok(rule, "LocalLinearization:%s:W1-exempt" % tn, fn.where(), fn.short,
                   detail={"exempt": exempt[tn]})
            continue
        n_w1 += 1
        H = obs_scale(True)
        half = float(H[0]) * math.pi ** (H[1] + 1)         # scale * pi  (= 200e4 cc)
        if not hm.rhs_sites:
            ctx.bad(rule, "LocalLinearization:%s:W1-half-circle" % tn, fn.where(), fn.short,
                    msg="%s is never assigned" % M.fields["rhs"])
            continue
        cache = {}
        worst = None
        where = fn.where()
        for sym, g, n in hm.rhs_sites:
            lo, hi = _interval_of(sym, n, n["c"][1], cache)
            if lo < -half * (1 + 1e-9) or hi > half * (1 + 1e-9):
                mark = len(sym.trace)
                sym.poly(n["c"][1])
                evs = failed_events(sym.trace, mark, structural_only=True)
                if evs:
                    raise AnalysisBroken("R-WRAP W1: %s: the right-hand side passes through a helper that is "
                                         "not modelled (%s)" % (tn, "; ".join(evs)))
                worst = (lo, hi)
                where = g.where(n)
        ok = worst is None
        ctx.report(rule, "LocalLinearization:%s:W1-half-circle" % tn, ok, where, fn.short,
                   msg="" if ok else "the angular right-hand side is not reduced to [-%g, %g] cc before the "
                   "assignment: derivable range is [%g, %g]" % (half, half, worst[0], worst[1]),
                   detail={"half_circle_cc": half})
    ctx.floor(rule, 3, n_w1, "angular difference-of-directions handlers")


def rule_wrap_w2(ctx):
    """W2: wrap-by-repeated-subtraction sites of lib/, classified in tables/lin.json (w2_sites)."""
    rule = "R-WRAP"
    fx = ctx.facts
    T = table()
    sites = wrap_sites(fx)
    tab = T["w2_sites"]
    seen = set()
    n_loops = 0
    for key, (fn, loops) in sorted(sites.items()):
        ctx.saw(fn)
        n_loops += len(loops)
        sig = fn.sig
        seen.add(sig)
        vars_ = []
        for n, w in loops:
            if not any(_same_lvalue(w["var"], v) for v in vars_):
                vars_.append(w["var"])
        ent = tab.get(sig)
        keyi = "%s:W2-wrap-loop" % sig
        where = fn.where(loops[0][0])
        det = {"loops": len(loops), "wrapped_variables": len(vars_)}
        if ent is None:
            ctx.bad(rule, keyi, where, fn.short, detail=det,
                    msg="unclassified normalisation by repeated addition/subtraction (%d loop(s)): decide "
                    "whether the operand is bounded only by the input and add it to tables/lin.json w2_sites"
                    % len(loops))
            continue
        det["class"] = ent["class"]
        det["reason"] = ent["reason"]
        if ent.get("repaired"):
            ctx.bad(rule, keyi, where, fn.short, detail=det,
                    msg="a wrap loop `while (v cmp C) v -+= K` is back in a function that had been repaired "
                    "(%s); its operand is %s: %s" % (ent["repaired"].split(":")[0], ent["class"], ent["reason"]))
            continue
        if len(vars_) > ent.get("vars", 0):
            ctx.bad(rule, keyi, where, fn.short, detail=det,
                    msg="%d wrapped variables, only %d were read and classified (%s): a new wrap loop appeared"
                    % (len(vars_), ent.get("vars", 0), ent["class"]))
            continue
        if ent["class"] == "input-facing":
            ctx.bad(rule, keyi, where, fn.short, detail=det,
                    msg="wrap loop `while (v cmp C) v -+= K` applied to a value bounded only by the input: "
                    "does not terminate (in practice) for huge operands - %s" % ent["reason"])
        elif ent["class"] == "internal":
            ctx.ok(rule, keyi, where, fn.short, detail=det)
        elif ent["class"] == "unreached":
            g_ok, g_msg = _guard_holds(fx, fn, ent.get("guard"))
            det["guard"] = g_msg
            ctx.report(rule, keyi, g_ok, where, fn.short, detail=det,
                       msg="" if g_ok else "classified as unreached, but %s - reclassify" % g_msg)
        else:
            raise AnalysisBroken("R-WRAP: unknown class %r for %s in tables/lin.json" % (ent["class"], sig))
    for sig in tab:
        if sig not in seen and not tab[sig].get("repaired"):
            ctx.note("R-WRAP W2: table entry %s has no wrap loop any more (rewritten or removed)" % sig)
    # 14 on the tree as read; the floor leaves room for the reported sites to be rewritten with fmod
    ctx.floor(rule, 6, len(sites), "functions with wrap loops")
    return sites


# =========================================================================== R-VIS V1

def rule_vis_local(ctx):
    rule = "R-VIS"
    fx = ctx.facts
    M = lin_model(ctx)
    obs = M.obs
    aov = fx.cls(AOV)
    # (a) the common base lists every concrete observation class
    visited = set()
    for b in aov.get("bases", []):
        name = b.get("qnt") or b.get("t") or ""
        if strip_targs(name) == "GNU_gama::Visitor" and "<" in name:
            visited.add(name[name.index("<") + 1:name.rindex(">")].strip())
    for t in sorted(obs):
        ok = t in visited
        ctx.report(rule, "AllObservationsVisitor:covers:%s" % M.tname(t), ok,
                   "%s:%s" % (aov.get("file"), aov.get("line")), short(AOV),
                   msg="" if ok else "concrete observation class %s is not a Visitor<> base of "
                   "AllObservationsVisitor: exhaustiveness of every local visitor is no longer enforced "
                   "by the compiler" % short(t))
    for t in sorted(visited - set(obs)):
        ctx.bad(rule, "AllObservationsVisitor:covers:%s" % t.split("::")[-1],
                "%s:%s" % (aov.get("file"), aov.get("line")), short(AOV),
                msg="Visitor<%s> base but %s is not a concrete class derived from local::Observation" % (t, t))
    ctx.floor(rule, 13, len(obs), "concrete local observation classes")
    # (b) every class implementing visit(T*) derives from AllObservationsVisitor and overrides all
    n_cls = 0
    for q, (rec, tm) in visitor_classes(fx, M).items():
        if q == AOV:
            continue
        n_cls += 1
        where = "%s:%s" % (rec.get("file"), rec.get("line"))
        ok = derives_from(fx, rec, AOV)
        ctx.report(rule, "%s:derives-AllObservationsVisitor" % short(q), ok, where, short(q),
                   msg="" if ok else "implements visit(T*) for local observations without deriving from "
                   "AllObservationsVisitor: a new observation type can be silently skipped")
        if rec.get("abstract"):
            continue
        missing = sorted(M.tname(t) for t in obs if t not in tm or tm[t][1].body is None)
        ctx.report(rule, "%s:overrides-all" % short(q), not missing, where, short(q),
                   msg="" if not missing else "no visit() implementation for: %s" % ", ".join(missing),
                   detail={"implemented": len(tm)})
    ctx.floor(rule, 16, n_cls, "local visitor classes")
    # (c) the linearisation handles every concrete observation class
    for t in sorted(obs):
        hm = M.models.get(t)
        ok = hm is not None and bool(hm.rhs_sites) and hm.size_resets >= 1
        fn = hm.entry if hm is not None else None
        ctx.report(rule, "LocalLinearization:handles:%s" % M.tname(t), ok,
                   fn.where() if fn else "", fn.short if fn else short(LL),
                   msg="" if ok else ("no visit(%s*) in LocalLinearization" % M.tname(t) if hm is None else
                                      "visit(%s*) does not produce an equation (no assignment of %s / reset of "
                                      "%s)" % (M.tname(t), M.fields["rhs"], M.fields["size"])))
