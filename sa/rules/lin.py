"""Linearisation shape rules: R-BND B1, R-LIN L1, R-WRAP W1/W2, R-UNIT U1, R-VIS V1.

Everything is decided on the exported AST/CFG:

* a small reaching-definitions analysis (`ReachDefs`) and a symbolic normaliser (`Sym`) turn
  arithmetic expressions into formal polynomials over *atoms* (calls, fields, opaque locals) with
  exact rational coefficients and a symbolic `pi`; locals are resolved through their unique
  reaching definition, parameters of inlined same-class helpers through the call arguments;
* an abstract interpretation of every `LocalLinearization::visit(T*)` (same-class calls inlined)
  follows the `size` member and the `coeff[]/index[]` writes along all CFG paths (`HandlerModel`);
* a one-variable-at-a-time interval analysis with summaries for wrap loops (`Intervals`) decides the
  half-circle reduction of angular right-hand sides.

Nothing is executed and no source text, line number or statement order is matched.
"""
import math
from fractions import Fraction

import engine
import facts as F
from facts import AnalysisBroken, walk, is_call, call_args, strip_targs, short

CASTS = ("ImplicitCastExpr", "CXXStaticCastExpr", "CStyleCastExpr", "CXXFunctionalCastExpr",
         "CXXConstCastExpr", "CXXReinterpretCastExpr", "CXXDynamicCastExpr")
INT_TYPES = ("int", "long", "unsigned int", "unsigned long", "short", "unsigned short", "char",
             "long long", "unsigned long long", "bool", "unsigned char", "signed char",
             "const int", "const long", "const unsigned int", "const unsigned long")
FLOAT_TYPES = ("double", "float", "long double", "const double", "const float", "const long double")
PI = "pi"

_TABLE = None


def table():
    global _TABLE
    if _TABLE is None:
        _TABLE = engine.load_table("lin.json")
    return _TABLE


# =========================================================================== polynomials

class Poly:
    """Formal polynomial: {monomial: Fraction}, monomial = sorted tuple of (atom, exponent)."""
    __slots__ = ("t",)

    def __init__(self, t=None):
        self.t = {m: c for m, c in (t or {}).items() if c != 0}

    @staticmethod
    def const(c):
        return Poly({(): Fraction(c)})

    @staticmethod
    def atom(a, e=1):
        return Poly({((a, e),): Fraction(1)})

    def __add__(self, o):
        t = dict(self.t)
        for m, c in o.t.items():
            t[m] = t.get(m, 0) + c
        return Poly(t)

    def __neg__(self):
        return Poly({m: -c for m, c in self.t.items()})

    def __sub__(self, o):
        return self + (-o)

    @staticmethod
    def _mulmono(a, b):
        d = dict(a)
        for x, e in b:
            d[x] = d.get(x, 0) + e
        return tuple(sorted((x, e) for x, e in d.items() if e != 0))

    def __mul__(self, o):
        t = {}
        for m1, c1 in self.t.items():
            for m2, c2 in o.t.items():
                m = Poly._mulmono(m1, m2)
                t[m] = t.get(m, 0) + c1 * c2
        return Poly(t)

    def div(self, o):
        if not o.t:
            return self * Poly.atom("(0)", -1)
        if len(o.t) == 1:
            (m, c), = o.t.items()
            inv = tuple((x, -e) for x, e in m)
            return self * Poly({inv: 1 / c})
        return self * Poly.atom("(" + str(o) + ")", -1)

    def is_zero(self):
        return not self.t

    def atoms(self):
        return {x for m in self.t for x, _ in m}

    def numeric(self):
        """Float value when the polynomial is a constant (only `pi` atoms), else None."""
        v = 0.0
        for m, c in self.t.items():
            f = float(c)
            for x, e in m:
                if x != PI:
                    return None
                f *= math.pi ** e
            v += f
        return v

    @staticmethod
    def split(m, c):
        """(constant part as (Fraction, pi exponent), tuple of non-constant factors)."""
        pe = 0
        rest = []
        for x, e in m:
            if x == PI:
                pe += e
            else:
                rest.append((x, e))
        return (c, pe), tuple(rest)

    def __str__(self):
        if not self.t:
            return "0"
        parts = []
        for m, c in sorted(self.t.items(), key=lambda kv: repr(kv[0])):
            fs = []
            if c != 1 or not m:
                fs.append(str(c))
            for x, e in m:
                fs.append(x if e == 1 else "%s^%d" % (x, e))
            parts.append("*".join(fs))
        return " + ".join(parts)

    __repr__ = __str__


def const_name(c, pe):
    """Readable name of a constant c*pi^pe for messages."""
    names = {(Fraction(1000), 0): "1e3 (mm/m)", (Fraction(1, 1000), 0): "1/1000",
             (Fraction(200), -1): "R2G", (Fraction(1, 200), 1): "G2R",
             (Fraction(2000000), -1): "R2CC", (Fraction(1, 2000000), 1): "CC2R",
             (Fraction(2000), -1): "10*R2G", (Fraction(1, 10000), 0): "1/10000",
             (Fraction(10000), 0): "10000 (cc/gon)", (Fraction(1), 0): "1",
             (Fraction(20000), -1): "100*R2G", (Fraction(648000), -1): "R2SS",
             (Fraction(180), -1): "R2D"}
    c = abs(c)
    if (c, pe) in names:
        return names[(c, pe)]
    s = str(c)
    if pe:
        s += "*pi^%d" % pe
    return s


# =========================================================================== reaching definitions

def _is_local_ref(n):
    return n.get("k") == "DeclRefExpr" and n["ref"].get("dk") in ("local", "parm")


def param_types(fx, call):
    """Parameter types of a call's callee (list of strings) or None."""
    key = call.get("calleeKey")
    f = fx.functions.get(key) if key else None
    if f is not None:
        return [p["t"] for p in f.params]
    c = call.get("c") or []
    t = None
    if call.get("k") in ("CallExpr", "CXXOperatorCallExpr", "CXXMemberCallExpr") and c:
        t = c[0].get("t")
    if not t or "(" not in t:
        return None
    inner = t[t.index("(") + 1:]
    depth = 0
    out, cur = [], ""
    for ch in inner:
        if ch in "(<[":
            depth += 1
        elif ch in ")>]":
            if depth == 0:
                break
            depth -= 1
        if ch == "," and depth == 0:
            out.append(cur.strip())
            cur = ""
        else:
            cur += ch
    if cur.strip():
        out.append(cur.strip())
    return out


def _mutable_ref(t):
    t = t.strip()
    return (t.endswith("&") and not t.endswith("&&") and not t.startswith("const ")) or \
           (t.endswith("*") and not t.startswith("const "))


class ReachDefs:
    """Reaching definitions of the scalar locals/params of one function."""

    def __init__(self, fx, fn):
        self.fn = fn
        self.defs = {}       # def id -> (decl, kind, node, extra)
        self.at = {}         # use node id -> frozenset(def ids) reaching the use
        self.escaped = set()
        self.declinfo = {}
        if fn.body is None:
            return
        for n in fn.walk():
            k = n.get("k")
            if k == "DeclStmt":
                for d in n.get("decls", []):
                    if "decl" in d:
                        self.declinfo[d["decl"]] = d
                        init = d.get("init")
                        if d.get("t", "").endswith("&") and not d["t"].startswith("const ") \
                                and init is not None and _is_local_ref(init):
                            self.escaped.add(init["ref"]["decl"])
            elif k == "LambdaExpr":
                for x in walk(n):
                    if _is_local_ref(x):
                        self.escaped.add(x["ref"]["decl"])
            elif k == "UnaryOperator" and n.get("op") == "&":
                c = n.get("c") or []
                if c and _is_local_ref(c[0]):
                    self.escaped.add(c[0]["ref"]["decl"])
        cfg = fn.cfg
        nodes = fn.nodes
        gens = {}            # element key -> list of (decl, def id)

        def add(elkey, decl, kind, node, extra=None):
            did = (elkey, decl)
            self.defs[did] = (decl, kind, node, extra)
            gens.setdefault(elkey, []).append((decl, did))

        for bid, blk in cfg.blocks.items():
            for e in blk.get("el", []):
                if isinstance(e, dict):
                    if "decl" in e:
                        d = self.declinfo.get(e["decl"])
                        if d is not None and d.get("init") is not None:
                            add(("d", e["decl"]), e["decl"], "init", d["init"])
                        else:
                            add(("d", e["decl"]), e["decl"], "uninit", None)
                    continue
                n = nodes.get(e)
                if n is None:
                    continue
                k = n.get("k")
                c = n.get("c") or []
                if k == "DeclStmt":
                    for d in n.get("decls", []):
                        if "decl" not in d:
                            continue
                        if d.get("init") is not None:
                            add(e, d["decl"], "init", d["init"])
                        else:
                            add(e, d["decl"], "uninit", None)
                elif k == "BinaryOperator" and n.get("op") == "=" and _is_local_ref(c[0]):
                    add(e, c[0]["ref"]["decl"], "assign", c[1])
                elif k == "CompoundAssignOperator" and _is_local_ref(c[0]):
                    add(e, c[0]["ref"]["decl"], "compound", n)
                elif k == "UnaryOperator" and n.get("op") in ("++", "--") and c and _is_local_ref(c[0]):
                    add(e, c[0]["ref"]["decl"], "incdec", n)
                elif is_call(n):
                    args = call_args(n)
                    pts = param_types(fx, n)
                    if k == "CXXOperatorCallExpr" and n.get("memberOp") and args:
                        # object is args[0]; parameters start at args[1]
                        obj = args[0]
                        if _is_local_ref(obj) and n.get("op") in ("=", "+=", "-=", "*=", "/=", "++", "--",
                                                                   ">>", "<<="):
                            add(e, obj["ref"]["decl"], "call", n)
                        args = args[1:]
                    for i, a in enumerate(args):
                        if not _is_local_ref(a):
                            continue
                        if pts is None or i >= len(pts):
                            if a.get("t") in FLOAT_TYPES or a.get("t") in INT_TYPES:
                                continue          # unknown callee: scalars assumed by value
                            continue
                        if _mutable_ref(pts[i]):
                            add(e, a["ref"]["decl"], "out", n, i)
        # dataflow
        entry_state = {}
        for p in fn.params:
            if "decl" in p:
                did = (("p", p["decl"]), p["decl"])
                self.defs[did] = (p["decl"], "param", None, None)
                entry_state[p["decl"]] = frozenset([did])
        IN = {b: None for b in cfg.blocks}
        IN[cfg.entry] = entry_state
        work = [cfg.entry]
        while work:
            b = work.pop()
            st = dict(IN[b])
            for e in cfg.blocks[b].get("el", []):
                ek = ("d", e["decl"]) if isinstance(e, dict) and "decl" in e else e
                if isinstance(ek, int):
                    n = nodes.get(ek)
                    if n is not None and _is_local_ref(n):
                        self.at[ek] = self.at.get(ek, frozenset()) | st.get(n["ref"]["decl"], frozenset())
                if isinstance(ek, dict):
                    continue
                for decl, did in gens.get(ek, ()):
                    st[decl] = frozenset([did])
            for s in cfg.succ.get(b, []):
                old = IN[s]
                if old is None:
                    IN[s] = dict(st)
                    work.append(s)
                else:
                    changed = False
                    for d, v in st.items():
                        nv = old.get(d, frozenset()) | v
                        if nv != old.get(d):
                            old[d] = nv
                            changed = True
                    if changed:
                        work.append(s)

    def reaching(self, use):
        """Definitions reaching a DeclRefExpr use node, or None if unknown/escaped."""
        if use["ref"].get("decl") in self.escaped:
            return None
        r = self.at.get(use["id"])
        if not r:
            return None
        return r


_RD_CACHE = {}


def reach_defs(fx, fn):
    r = _RD_CACHE.get(id(fn))
    if r is None or r.fn is not fn:
        r = ReachDefs(fx, fn)
        _RD_CACHE[id(fn)] = r
    return r


# =========================================================================== symbolic normaliser

WRAP_CALLS = {"fmod": 1.0, "fmodf": 1.0, "fmodl": 1.0,
              "remainder": 0.5, "remainderf": 0.5, "remainderl": 0.5, "drem": 0.5}


def plain_callee(n):
    c = strip_targs(n.get("callee") or "")
    if c.startswith("std::"):
        c = c[5:]
    return c


class Sym:
    """Symbolic view of one function activation (env binds parameters to caller expressions)."""

    def __init__(self, fx, fn, env=None, modwrap=False):
        self.fx = fx
        self.fn = fn
        self.env = env or {}          # param decl -> (node, Sym)
        self.rd = reach_defs(fx, fn)
        self.modwrap = modwrap        # resolve values modulo full-circle adjustments
        self._depth = 0

    def child(self, fn, env):
        return Sym(self.fx, fn, env, self.modwrap)

    # -- resolution of a local/param use to the expression that defines it
    def _wrap_adjust_source(self, did):
        """If definition `did` only shifts its variable by a constant multiple (wrap adjustment),
        return the use node of the previous value, else None."""
        decl, kind, node, extra = self.rd.defs[did]
        if kind == "compound" and node.get("op") in ("+=", "-="):
            lhs, rhs = node["c"]
            if self.poly(rhs).numeric() is not None:
                return lhs
        if kind == "assign":
            v = node
            if is_call(v) and plain_callee(v) in WRAP_CALLS:
                a = call_args(v)
                if len(a) == 2 and _is_local_ref(a[0]) and a[0]["ref"]["decl"] == decl \
                        and self.poly(a[1]).numeric() is not None:
                    return a[0]
            if v.get("k") == "BinaryOperator" and v.get("op") in ("+", "-"):
                l, r = v["c"]
                if _is_local_ref(l) and l["ref"]["decl"] == decl and self.poly(r).numeric() is not None:
                    return l
        return None

    def resolve(self, use):
        """('expr', node, sym) | ('def', did) | ('opaque', text)"""
        ref = use["ref"]
        decl = ref.get("decl")
        if ref.get("dk") == "parm" and decl in self.env:
            rs = self.rd.reaching(use)
            if rs is not None and all(self.rd.defs[d][1] == "param" for d in rs):
                node, sym = self.env[decl]
                return ("expr", node, sym)
        rs = self.rd.reaching(use)
        if rs is None:
            return ("opaque", "%s~?" % ref.get("name"))
        if self.modwrap and len(rs) >= 1:
            base = set()
            seen = set()
            todo = list(rs)
            ok = True
            while todo:
                d = todo.pop()
                if d in seen:
                    continue
                seen.add(d)
                src = self._wrap_adjust_source(d)
                if src is None:
                    base.add(d)
                else:
                    r2 = self.rd.reaching(src)
                    if r2 is None:
                        ok = False
                        break
                    todo.extend(r2)
            if ok and len(base) == 1:
                rs = frozenset(base)
        if len(rs) == 1:
            (did,) = rs
            return ("def", did)
        return ("opaque", "%s@%s" % (ref.get("name"), ",".join(sorted(str(d[0]) for d in rs))))

    # -- polynomials
    def poly(self, n):
        self._depth += 1
        try:
            if self._depth > 200:
                return Poly.atom("<deep>")
            return self._poly(n)
        finally:
            self._depth -= 1

    def _poly(self, n):
        k = n.get("k")
        c = n.get("c") or []
        if k == "IntegerLiteral":
            return Poly.const(int(n["v"]))
        if k == "FloatingLiteral":
            v = float(n["v"])
            if abs(v - math.pi) < 1e-13:
                return Poly.atom(PI)
            return Poly.const(Fraction(repr(v)))
        if k == "CXXBoolLiteralExpr":
            return Poly.const(1 if n.get("v") else 0)
        if k in CASTS and c:
            if n.get("castKind") == "FloatingToIntegral":
                return Poly.atom("int(%s)" % self.ctext(c[0]))
            return self.poly(c[0])
        if k == "InitListExpr" and len(c) == 1:
            return self.poly(c[0])
        if k == "UnaryOperator" and c and n.get("op") in ("-", "+"):
            p = self.poly(c[0])
            return -p if n["op"] == "-" else p
        if k == "BinaryOperator" and len(c) == 2:
            op = n.get("op")
            if op in ("+", "-", "*"):
                a, b = self.poly(c[0]), self.poly(c[1])
                return a + b if op == "+" else a - b if op == "-" else a * b
            if op == "/":
                if (n.get("t") or "") in INT_TYPES:
                    return Poly.atom("idiv(%s,%s)" % (self.ctext(c[0]), self.ctext(c[1])))
                return self.poly(c[0]).div(self.poly(c[1]))
            if op == ",":
                return self.poly(c[1])
        if k == "DeclRefExpr":
            dk = n["ref"].get("dk")
            if dk in ("local", "parm"):
                r = self.resolve(n)
                if r[0] == "expr":
                    return r[2].poly(r[1])
                if r[0] == "def":
                    decl, kind, node, extra = self.rd.defs[r[1]]
                    if kind in ("init", "assign"):
                        if self.modwrap and is_call(node) \
                                and plain_callee(node) in WRAP_CALLS and len(call_args(node)) == 2 \
                                and self.poly(call_args(node)[1]).numeric() is not None:
                            return self.poly(call_args(node)[0])
                        return self.poly(node)
                    if kind == "compound":
                        lhs, rhs = node["c"]
                        op = node.get("op")
                        a, b = self.poly(lhs), self.poly(rhs)
                        if op == "+=":
                            return a + b
                        if op == "-=":
                            return a - b
                        if op == "*=":
                            return a * b
                        if op == "/=" and (node.get("t") or "") not in INT_TYPES:
                            return a.div(b)
                    if kind == "out":
                        return Poly.atom(self._out_text(node, extra))
                    return Poly.atom("%s@%s" % (n["ref"].get("name"), r[1][0]))
                return Poly.atom(r[1])
            if dk == "enumconst":
                return Poly.const(int(n["ref"].get("v", 0)))
            if dk in ("global", "staticmember"):
                g = self.fx.globals.get(n["ref"].get("qn"))
                if g is not None and g.get("init") is not None and (g.get("t") or "").startswith("const"):
                    return Sym(self.fx, self.fn).poly(g["init"])
                return Poly.atom(n["ref"].get("qn") or n["ref"].get("name"))
        return Poly.atom(self.ctext(n))

    def _out_text(self, call, idx):
        args = call_args(call)
        if call.get("k") == "CXXOperatorCallExpr" and call.get("memberOp"):
            args = args[1:]
        pts = param_types(self.fx, call) or []
        parts = []
        for i, a in enumerate(args):
            if i < len(pts) and _mutable_ref(pts[i]) and _is_local_ref(a):
                parts.append("_")
            else:
                parts.append(self.ctext(a))
        return "out%d:%s(%s)" % (idx, plain_callee(call), ",".join(parts))

    # -- canonical text of an expression (locals resolved, casts dropped)
    def ctext(self, n):
        self._depth += 1
        try:
            if self._depth > 200:
                return "<deep>"
            return self._ctext(n)
        finally:
            self._depth -= 1

    def _ctext(self, n):
        if n is None:
            return ""
        k = n.get("k")
        c = n.get("c") or []
        t = n.get("t") or ""
        if k in ("IntegerLiteral", "FloatingLiteral") or \
                (k in ("BinaryOperator", "UnaryOperator") and (t in FLOAT_TYPES or t in INT_TYPES)
                 and n.get("op") in ("+", "-", "*", "/")):
            return str(self.poly(n))
        if k in CASTS and c:
            return self.ctext(c[0])
        if k == "DeclRefExpr":
            dk = n["ref"].get("dk")
            if dk in ("local", "parm"):
                if t in FLOAT_TYPES or t in INT_TYPES:
                    return str(self.poly(n))
                r = self.resolve(n)
                if r[0] == "expr":
                    return r[2].ctext(r[1])
                if r[0] == "def":
                    decl, kind, node, extra = self.rd.defs[r[1]]
                    if kind in ("init", "assign"):
                        return self.ctext(node)
                    if kind == "param":
                        return "arg:%s" % n["ref"].get("name")
                    return "%s@%s" % (n["ref"].get("name"), r[1][0])
                return r[1]
            return n["ref"].get("qn") or n["ref"].get("name") or "?"
        if k == "CXXThisExpr":
            return "this"
        if k == "MemberExpr":
            base = self.ctext(c[0]) if c else "this"
            return "%s.%s" % (base, n.get("member"))
        if k == "CXXMemberCallExpr":
            obj = F.call_object(n)
            return "%s(%s;%s)" % (plain_callee(n), self.ctext(obj) if obj is not None else "",
                                  ",".join(self.ctext(a) for a in call_args(n)))
        if k == "CallExpr":
            return "%s(%s)" % (plain_callee(n), ",".join(self.ctext(a) for a in call_args(n)))
        if k == "CXXOperatorCallExpr":
            return "op%s(%s)" % (n.get("op"), ",".join(self.ctext(a) for a in call_args(n)))
        if k in ("CXXConstructExpr", "CXXTemporaryObjectExpr"):
            if len(c) == 1:
                return self.ctext(c[0])
            return "%s(%s)" % (plain_callee(n), ",".join(self.ctext(a) for a in c))
        if k == "ArraySubscriptExpr" and len(c) == 2:
            return "%s[%s]" % (self.ctext(c[0]), self.ctext(c[1]))
        if k == "UnaryOperator" and c:
            return "%s(%s)" % (n.get("op"), self.ctext(c[0]))
        if k == "BinaryOperator" and len(c) == 2:
            return "(%s%s%s)" % (self.ctext(c[0]), n.get("op"), self.ctext(c[1]))
        if k == "ConditionalOperator" and len(c) == 3:
            return "(%s?%s:%s)" % tuple(self.ctext(x) for x in c)
        if k == "InitListExpr" and len(c) == 1:
            return self.ctext(c[0])
        return "%s#%s" % (k, ",".join(self.ctext(x) for x in c))


# =========================================================================== wrap loops

def _unwrap_body(b):
    """Statements of a loop body (CompoundStmt flattened, NullStmt dropped)."""
    if b is None:
        return []
    if b.get("k") == "CompoundStmt":
        out = []
        for s in b.get("c") or []:
            out.extend(_unwrap_body(s))
        return out
    if b.get("k") == "NullStmt":
        return []
    return [b]


def _same_lvalue(a, b):
    """Structural equality of two lvalue expressions (same variable / same field path)."""
    ka, kb = a.get("k"), b.get("k")
    if ka in CASTS and a.get("c"):
        return _same_lvalue(a["c"][0], b)
    if kb in CASTS and b.get("c"):
        return _same_lvalue(a, b["c"][0])
    if ka != kb:
        return False
    if ka == "DeclRefExpr":
        ra, rb = a["ref"], b["ref"]
        if ra.get("dk") in ("local", "parm"):
            return ra.get("decl") == rb.get("decl") and rb.get("dk") == ra.get("dk")
        return ra.get("qn") == rb.get("qn") and ra.get("name") == rb.get("name")
    if ka == "MemberExpr":
        if a.get("member") != b.get("member") or a.get("owner") != b.get("owner"):
            return False
        ca, cb = a.get("c") or [], b.get("c") or []
        if not ca or not cb:
            return not ca and not cb
        return _same_lvalue(ca[0], cb[0])
    if ka == "CXXThisExpr":
        return True
    if ka in ("ArraySubscriptExpr", "UnaryOperator", "CXXOperatorCallExpr", "CXXMemberCallExpr"):
        ca, cb = a.get("c") or [], b.get("c") or []
        return a.get("op") == b.get("op") and a.get("callee") == b.get("callee") and \
            len(ca) == len(cb) and all(_same_lvalue(x, y) for x, y in zip(ca, cb))
    if ka in ("IntegerLiteral", "FloatingLiteral"):
        return a.get("v") == b.get("v")
    return False


def _mentions(expr, lv):
    for x in walk(expr):
        if x.get("k") == lv.get("k") and _same_lvalue(x, lv):
            return True
    return False


def wrap_loop(loop):
    """Recognise `while (v cmp C) v -+= K` (any loop statement form, operands in any order, `v = v -+ K`
    accepted).  Returns dict(var, cmp (normalised to `v cmp C`), bound node C, step node K, sign (+1/-1),
    kind) or None.  C and K only need to be free of v."""
    k = loop.get("k")
    if k not in ("WhileStmt", "DoStmt", "ForStmt"):
        return None
    if k == "ForStmt" and loop.get("inc") is not None:
        stmts = _unwrap_body(loop.get("body")) + [loop["inc"]]
    else:
        stmts = _unwrap_body(loop.get("body"))
    cond = loop.get("cond")
    if cond is None or cond.get("k") != "BinaryOperator" or cond.get("op") not in ("<", ">", "<=", ">="):
        return None
    if not stmts:
        return None
    # the stepped variable
    var = None
    steps = []
    for s in stmts:
        c = s.get("c") or []
        if s.get("k") == "CompoundAssignOperator" and s.get("op") in ("+=", "-="):
            lv, kk, sign = c[0], c[1], (1 if s["op"] == "+=" else -1)
        elif s.get("k") == "BinaryOperator" and s.get("op") == "=" and c[1].get("k") == "BinaryOperator" \
                and c[1].get("op") in ("+", "-") and _same_lvalue(c[0], c[1]["c"][0]):
            lv, kk, sign = c[0], c[1]["c"][1], (1 if c[1]["op"] == "+" else -1)
        else:
            return None
        if var is None:
            var = lv
        elif not _same_lvalue(var, lv):
            return None
        if _mentions(kk, var):
            return None
        steps.append((sign, kk))
    if len(steps) != 1:
        return None
    l, r = cond["c"]
    op = cond["op"]
    if _same_lvalue(l, var) and not _mentions(r, var):
        bound = r
    elif _same_lvalue(r, var) and not _mentions(l, var):
        bound = l
        op = {"<": ">", ">": "<", "<=": ">=", ">=": "<="}[op]
    else:
        return None
    return {"var": var, "cmp": op, "bound": bound, "step": steps[0][1], "sign": steps[0][0], "kind": k}
