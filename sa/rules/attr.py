"""R-ATTR (attribute tables, parsed-value flow, scratch members, export agreement),
R-NUM (numeric conversion guards) and R-FUNNEL (exception funnel of the mains).

Everything is decided on the exported AST/CFG facts (and, for the vocabulary clause of
R-ATTR A4, on xml/gama-local.xsd parsed with Python).  Nothing of gama is executed.

  rule_attr_flow     A1 attribute names a GKFparser handler accepts, A2 def-use of every
                     accepted attribute value up to a storing use
  rule_attr_scratch  A3 no parser member carries data from one element instance to the next
  rule_attr_export   A4 LocalNetwork::export_xml writes only accepted attributes and writes
                     back every attribute that a handler stores
  rule_numconv       atof/atoi/... dominated by IsFloat/IsInteger on the same string;
                     float->int casts in parser scopes dominated by an upper-bound test
  rule_main_funnel   catch clauses of main(): coverage and non-zero exit on every path
"""
import os
import re
import xml.etree.ElementTree as ET

import facts as F
from facts import AnalysisBroken, walk, is_call, strip_targs
import engine

GKF = "GNU_gama::local::GKFparser"
CORE = "GNU_gama::CoreParser"
ERROR_FN = "GNU_gama::CoreParser::error"
PARSER_HIER = {GKF, CORE, "GNU_gama::BaseParser"}

_TABLE = None


def table():
    global _TABLE
    if _TABLE is None:
        _TABLE = engine.load_table("attr.json")
    return _TABLE


# --------------------------------------------------------------------------- small AST helpers

def _strip(n):
    """Look through value-preserving wrappers (casts, copy/conversion constructors of one argument)."""
    while n is not None:
        k = n.get("k")
        c = n.get("c") or []
        if k in ("ImplicitCastExpr", "CXXStaticCastExpr", "CStyleCastExpr", "CXXFunctionalCastExpr",
                 "CXXConstCastExpr") and len(c) == 1 and n.get("castKind") not in ("FloatingToIntegral",):
            n = c[0]
            continue
        if k in ("CXXConstructExpr", "CXXTemporaryObjectExpr"):
            real = [x for x in c if x.get("k") != "CXXDefaultArgExpr"]
            if len(real) == 1:
                n = real[0]
                continue
        break
    return n


def _var_key(n):
    """('l', decl) for a local/parameter reference, ('f', name) for a field of *this, else None."""
    if n is None:
        return None
    if n.get("k") == "DeclRefExpr" and n["ref"].get("dk") in ("local", "parm"):
        return ("l", n["ref"]["decl"])
    if F.is_this_field(n):
        return ("f", n["member"])
    return None


def _root(n):
    """Root object of an lvalue/receiver expression: follows member access, ->, [], *, call
    receivers and wrappers down to a local, a field of *this or `this` itself."""
    seen = 0
    while n is not None and seen < 64:
        seen += 1
        vk = _var_key(n)
        if vk is not None:
            return n
        k = n.get("k")
        c = n.get("c") or []
        if k == "CXXThisExpr":
            return n
        if k == "MemberExpr" and c:
            n = c[0]
        elif k == "CXXMemberCallExpr":
            n = F.call_object(n)
        elif k == "CXXOperatorCallExpr" and len(c) > 1:
            n = c[1]
        elif k in ("UnaryOperator", "ArraySubscriptExpr") and c:
            n = c[0]
        else:
            s = _strip(n)
            if s is n:
                return None
            n = s
    return None


def _callee(n):
    return strip_targs(n.get("callee") or "")


def _param_types(facts, call):
    """Parameter types of the resolved callee (from the exported function, else parsed from the key)."""
    key = call.get("calleeKey") or ""
    fn = facts.functions.get(key)
    if fn is not None:
        return [p["t"] for p in fn.params]
    i = key.rfind(")")
    if i < 0:
        return []
    depth = 0
    j = i
    while j >= 0:
        ch = key[j]
        if ch == ")":
            depth += 1
        elif ch == "(":
            depth -= 1
            if depth == 0:
                break
        j -= 1
    inner = key[j + 1:i]
    out, cur, d = [], "", 0
    for ch in inner:
        if ch in "<(":
            d += 1
        elif ch in ">)":
            d -= 1
        if ch == "," and d == 0:
            out.append(cur.strip())
            cur = ""
        else:
            cur += ch
    if cur.strip():
        out.append(cur.strip())
    return out


def _is_out_ref(t):
    t = t.strip()
    return t.endswith("&") and not t.endswith("&&") and not t.startswith("const ")


def _callee_is_const(call):
    return (call.get("calleeKey") or "").rstrip().endswith(" const")


def _call_parts(n):
    """(receiver or None, [argument nodes]) of any call node."""
    k = n.get("k")
    c = n.get("c") or []
    if k in ("CXXConstructExpr", "CXXTemporaryObjectExpr"):
        return None, list(c)
    if k == "CXXMemberCallExpr":
        return F.call_object(n), list(c[1:])
    if k == "CXXOperatorCallExpr":
        if n.get("memberOp") and len(c) > 1:
            return c[1], list(c[2:])
        return None, list(c[1:])
    return None, list(c[1:])


def _is_error_call(n):
    return is_call(n) and _callee(n) == ERROR_FN


def _ids(node):
    return {x["id"] for x in walk(node)} if node is not None else set()


def _is_empty_string_lit(n):
    n = _strip(n)
    return n is not None and n.get("k") == "StringLiteral" and n.get("v") == ""


def _zero_const(n):
    """True if the expression is a literal zero value (0, 0.0, false, nullptr, "")."""
    n = _strip(n)
    if n is None:
        return False
    k = n.get("k")
    if k in ("IntegerLiteral", "FloatingLiteral"):
        try:
            return float(n.get("v")) == 0.0
        except (TypeError, ValueError):
            return False
    if k == "CXXBoolLiteralExpr":
        return n.get("v") in (False, "false", 0)
    if k in ("CXXNullPtrLiteralExpr", "GNUNullExpr"):
        return True
    if k == "StringLiteral":
        return n.get("v") == ""
    if k == "ImplicitCastExpr" and n.get("c"):
        return _zero_const(n["c"][0])
    return False


def _zero_or_default(n):
    """Literal zero value or a default-constructed object (empty string/container)."""
    if _zero_const(n):
        return True
    n = _strip(n)
    return n is not None and n.get("k") in ("CXXConstructExpr", "CXXTemporaryObjectExpr") and \
        not [x for x in (n.get("c") or []) if x.get("k") != "CXXDefaultArgExpr"]


def _edge_dominates(cfg, b, s, target):
    """Every path from the entry to block `target` takes the edge b->s."""
    if target not in cfg.reach:
        return False
    seen = {cfg.entry}
    stack = [cfg.entry]
    if cfg.entry == target:
        return False
    while stack:
        x = stack.pop()
        for y in cfg.succ.get(x, []):
            if x == b and y == s:
                # multi-edges b->s (both successors equal) cannot be told apart: no domination
                if cfg.succ.get(x, []).count(y) > 1:
                    return False
                continue
            if y == target:
                return False
            if y not in seen:
                seen.add(y)
                stack.append(y)
    return True


def _branch_value(fn, bid):
    """The expression whose truth value selects the successor of a two-way block, or None."""
    blk = fn.cfg.blocks[bid]
    if len(blk.get("succ") or []) != 2:
        return None
    if blk.get("termK") in ("SwitchStmt", "CXXTryStmt", None):
        return None
    for e in reversed(blk.get("el") or []):
        if isinstance(e, int):
            return fn.nodes.get(e)
    return None


def _polarity(n):
    """Strip logical negations: returns (inner expression, positive?)."""
    pos = True
    n = _strip(n)
    while n is not None and n.get("k") == "UnaryOperator" and n.get("op") == "!" and n.get("c"):
        pos = not pos
        n = _strip(n["c"][0])
    return n, pos


def _polarity0(n):
    """like _polarity, additionally `x != 0` / `x == 0` / `0 != x` (comparison of a result with zero)"""
    n, pos = _polarity(n)
    for _ in range(4):
        if n is not None and n.get("k") == "BinaryOperator" and n.get("op") in ("!=", "==") and len(n.get("c") or []) == 2:
            a, b = _strip(n["c"][0]), _strip(n["c"][1])
            zero = [x for x in (a, b) if x is not None and x.get("k") == "IntegerLiteral" and x.get("v") == 0]
            if len(zero) != 1:
                break
            if n["op"] == "==":
                pos = not pos
            inner, p2 = _polarity(b if zero[0] is a else a)
            n, pos = inner, (pos if p2 else not pos)
        else:
            break
    return n, pos


# =========================================================================== A1 / A2

class Handler:
    """Attribute dispatch of one handler: name/value variables, accepted names, branch per name."""

    def __init__(self, fn):
        self.fn = fn
        self.atts = None          # decl id of the `const char **` parameter
        self.name_var = None
        self.value_var = None
        self.branches = {}        # attribute name -> [then-subtree nodes]
        self.delegates = []       # same-class callees that receive atts


def _atts_param(fn):
    for p in fn.params:
        if p["t"].replace(" ", "") == "constchar**":
            return p["decl"]
    return None


def _refs_decl(node, decl):
    return any(x.get("k") == "DeclRefExpr" and x["ref"].get("decl") == decl for x in walk(node))


def _deref_sites(fn, atts):
    """[(node, parity or None)] for every read of an element of the attribute array."""
    sites = []
    for n in fn.walk():
        k = n.get("k")
        c = n.get("c") or []
        if k == "UnaryOperator" and n.get("op") == "*" and c and _refs_decl(c[0], atts):
            sites.append(n)
        elif k == "ArraySubscriptExpr" and c and _refs_decl(c[0], atts):
            sites.append(n)
    return sites


def _increments_before(fn, atts, node):
    """Number of increments of the attribute pointer evaluated before `node`'s own increment
    in the same CFG block (parity of the element index within one name/value pair)."""
    cfg = fn.cfg
    pos = cfg.pos.get(node["id"])
    if pos is None:
        return None
    own = {x["id"] for x in walk(node)}
    cnt = 0
    for e in cfg.blocks[pos[0]]["el"][:pos[1]]:
        if not isinstance(e, int) or e in own:
            continue
        x = fn.nodes.get(e)
        if x is None:
            continue
        if x.get("k") == "UnaryOperator" and x.get("op") == "++" and _refs_decl(x, atts):
            cnt += 1
        elif x.get("k") == "CompoundAssignOperator" and x.get("op") == "+=" and \
                _var_key((x.get("c") or [None])[0]) == ("l", atts):
            v = _strip(x["c"][1])
            if v is not None and v.get("k") == "IntegerLiteral":
                cnt += int(v["v"])
    return cnt


def _assignment_target(fn, node):
    """Variable that receives the value of expression `node` (through wrappers): the LHS of
    the enclosing assignment/initialisation, or None."""
    cur = node
    for a in fn.ancestors(node):
        k = a.get("k")
        c = a.get("c") or []
        if k == "BinaryOperator" and a.get("op") == "=" and len(c) == 2 and cur is c[1]:
            return _var_key(c[0])
        if k == "CXXOperatorCallExpr" and a.get("op") == "=" and len(c) == 3 and cur is c[2]:
            return _var_key(c[1])
        if k == "DeclStmt":
            for d in a.get("decls", []):
                if d.get("init") is cur:
                    return ("l", d["decl"])
            return None
        if k in ("CXXConstructExpr", "CXXTemporaryObjectExpr", "CXXFunctionalCastExpr", "ImplicitCastExpr",
                 "CXXStaticCastExpr", "CStyleCastExpr"):
            cur = a
            continue
        return None
    return None


def _literal_compare(n, var):
    """If n compares variable `var` for equality with a string literal, return the literal."""
    n, pos = _polarity(n)
    if n is None:
        return None
    k = n.get("k")
    c = n.get("c") or []
    if k == "CXXOperatorCallExpr" and n.get("op") == "==" and pos and len(c) == 3:
        a, b = _strip(c[1]), _strip(c[2])
        for x, y in ((a, b), (b, a)):
            if _var_key(x) == var and y is not None and y.get("k") == "StringLiteral":
                return y["v"]
    # strcmp(var, "lit") == 0   /   !strcmp(var, "lit")
    call, want_zero = None, None
    if k == "CallExpr" and _callee(n) in ("strcmp", "std::strcmp") and not pos:
        call = n
    elif k == "BinaryOperator" and n.get("op") == "==" and pos and len(c) == 2:
        for x, y in ((c[0], c[1]), (c[1], c[0])):
            xs = _strip(x)
            if xs is not None and xs.get("k") == "CallExpr" and _callee(xs) in ("strcmp", "std::strcmp") \
                    and _zero_const(y):
                call = xs
    if call is not None:
        args = [_strip(a) for a in (call.get("c") or [])[1:]]
        if len(args) == 2:
            for x, y in ((args[0], args[1]), (args[1], args[0])):
                r = _root(x)
                if r is not None and _var_key(r) == var and y is not None and y.get("k") == "StringLiteral":
                    return y["v"]
    return None


def _and_leaves(n):
    n = _strip(n)
    if n is not None and n.get("k") == "BinaryOperator" and n.get("op") == "&&":
        for x in n.get("c") or []:
            yield from _and_leaves(x)
    elif n is not None:
        yield n


def _literal_compare_neg(n, var):
    """literal of `var != "lit"` / `!(var == "lit")` / `strcmp(var, "lit") != 0` / `strcmp(var, "lit")`"""
    inner, pos = _polarity(n)
    if inner is None:
        return None
    k = inner.get("k")
    c = inner.get("c") or []
    if k == "CXXOperatorCallExpr" and inner.get("op") == "!=" and pos and len(c) == 3:
        a, b = _strip(c[1]), _strip(c[2])
        for x, y in ((a, b), (b, a)):
            if _var_key(x) == var and y is not None and y.get("k") == "StringLiteral":
                return y["v"]
        return None
    if not pos:
        # !(positive comparison)
        return _literal_compare(inner, var)
    if k == "CallExpr" and _callee(inner) in ("strcmp", "std::strcmp"):
        args = [_strip(a) for a in c[1:]]
        if len(args) == 2:
            for x, y in ((args[0], args[1]), (args[1], args[0])):
                r = _root(x)
                if r is not None and _var_key(r) == var and y is not None and y.get("k") == "StringLiteral":
                    return y["v"]
    if k == "BinaryOperator" and inner.get("op") == "!=" and len(c) == 2:
        for x, y in ((c[0], c[1]), (c[1], c[0])):
            xs = _strip(x)
            if xs is not None and xs.get("k") == "CallExpr" and _callee(xs) in ("strcmp", "std::strcmp") and _zero_const(y):
                return _literal_compare_neg(xs, var)
    return None


def _or_leaves(n):
    """Leaves of a disjunction a || b || c (a plain condition is its own leaf)."""
    n = _strip(n)
    if n is not None and n.get("k") == "BinaryOperator" and n.get("op") == "||":
        for x in n.get("c") or []:
            yield from _or_leaves(x)
    elif n is not None:
        yield n


def analyse_handler(ctx, fn):
    """A1: the attribute dispatch of one handler (None if fn takes no attribute array)."""
    atts = _atts_param(fn)
    if atts is None:
        return None
    h = Handler(fn)
    h.atts = atts
    by_parity = {0: set(), 1: set()}
    for site in _deref_sites(fn, atts):
        tgt = _assignment_target(fn, site)
        if tgt is None:
            continue                                   # `while (*atts)` / `if (*atts)`
        if site.get("k") == "ArraySubscriptExpr":
            idx = _strip(site["c"][1])
            if idx is None or idx.get("k") != "IntegerLiteral":
                raise AnalysisBroken("%s: attribute array indexed by a non-constant" % fn.short)
            par = int(idx["v"]) % 2
        else:
            cnt = _increments_before(fn, atts, site)
            if cnt is None:
                raise AnalysisBroken("%s: attribute read outside the CFG" % fn.short)
            par = cnt % 2
        by_parity[par].add(tgt)
    for n in fn.calls():
        if n.get("k") == "CXXMemberCallExpr" and strip_targs(n.get("calleeClass") or "") in PARSER_HIER:
            recv, args = _call_parts(n)
            if recv is not None and recv.get("k") == "CXXThisExpr" and \
                    any(_var_key(_strip(a)) == ("l", atts) for a in args):
                h.delegates.append(n.get("calleeKey"))
    if not by_parity[0] and not by_parity[1]:
        return h
    if len(by_parity[0]) != 1 or len(by_parity[1]) != 1:
        raise AnalysisBroken("%s: cannot identify the attribute name/value variables (%s)"
                             % (fn.short, by_parity))
    h.name_var = next(iter(by_parity[0]))
    h.value_var = next(iter(by_parity[1]))
    for n in fn.walk():
        if n.get("k") != "IfStmt":
            continue
        for leaf in _or_leaves(n.get("cond")):
            lit = _literal_compare(leaf, h.name_var)
            if lit is not None:
                h.branches.setdefault(lit, []).append(n.get("then"))
        # the negated form: `if (name != "a" && name != "b") refuse; else accept;` - the names are
        # accepted on the else branch (or, without an else and a then-branch that leaves, by what follows)
        neg = []
        for leaf in _and_leaves(n.get("cond")):
            lit = _literal_compare_neg(leaf, h.name_var)
            if lit is None:
                neg = []
                break
            neg.append(lit)
        if neg:
            branch = n.get("else") if isinstance(n.get("else"), dict) else None
            if branch is None:
                par = fn.parent(n)
                sib = (par.get("c") or []) if par is not None and par.get("k") == "CompoundStmt" else []
                rest = []
                seen = False
                for x in sib:
                    if seen:
                        rest.append(x)
                    if x is n or x.get("id") == n.get("id"):
                        seen = True
                branch = {"k": "CompoundStmt", "id": -n["id"], "c": rest, "line": n.get("line")}
            for lit in neg:
                h.branches.setdefault(lit, []).append(branch)
    return h


def gkf_handlers(ctx):
    """{function key: Handler} for every GKFparser method that receives the attribute array."""
    cache = getattr(ctx, "_attr_handlers", None)
    if cache is not None:
        return cache
    fx = ctx.facts
    fx.cls(GKF)
    res = {}
    for fn in fx.methods_of(GKF):
        if fn.body is None or fn.name in ("startElement",):
            continue
        h = analyse_handler(ctx, fn)
        if h is not None:
            res[fn.key] = h
    ctx._attr_handlers = res
    return res


def accepted_attributes(ctx, key, _seen=None):
    """Names accepted by a handler including the handlers it passes the attribute array to."""
    hs = gkf_handlers(ctx)
    _seen = _seen or set()
    if key in _seen or key not in hs:
        return set()
    _seen.add(key)
    out = set(hs[key].branches)
    for d in hs[key].delegates:
        out |= accepted_attributes(ctx, d, _seen)
    return out


class Flow:
    """A2: flow-insensitive def-use of one attribute's value inside its handler.

    Region of attribute a = the handler body minus the dispatch branches of the other
    attributes.  Seeds: occurrences of the value variable inside a's branch.  Taint moves
    through assignments, initialisations, compound assignments, mutating calls on local
    objects and non-const reference (out) parameters.  A *storing use* is one of
      field   assignment / out-parameter / mutating call that writes a field of the parser which
              some parser method reads
      new     operand of a new-expression (the object being built)
      call    argument of a non-const member call whose receiver is rooted at a parser field or at
              a local pointer/reference, or of a non-const method of the parser itself (except
              the error function)
      lvalue  right-hand side of an assignment through a pointer/reference/field-rooted lvalue
      control condition of an if/?:/switch whose controlled statements contain a storing effect
    Not storing: arguments of the error function, comparisons whose branches only report
    errors or convert, conversions themselves."""

    def __init__(self, ctx, h, field_readers):
        self.ctx = ctx
        self.h = h
        self.fn = h.fn
        self.facts = ctx.facts
        self.field_readers = field_readers
        self.all_branch_ids = {}
        for a, subs in h.branches.items():
            ids = set()
            for s in subs:
                ids |= _ids(s)
            self.all_branch_ids[a] = ids
        self._effects = None

    # -- classification of one call/assignment as a storing effect (independent of taint)
    def _receiver_is_model(self, recv):
        r = _root(recv)
        if r is None:
            return False
        vk = _var_key(r)
        if vk is None:
            return False                      # `this` itself handled separately
        if vk[0] == "f":
            return True
        t = (r.get("t") or "")
        decl_t = self._decl_type(vk[1]) or t
        return decl_t.rstrip().endswith("*") or decl_t.rstrip().endswith("&")

    def _decl_type(self, decl):
        if not hasattr(self, "_dt"):
            self._dt = {p["decl"]: p["t"] for p in self.fn.params}
            for n in self.fn.walk():
                if n.get("k") == "DeclStmt":
                    for d in n.get("decls", []):
                        self._dt[d["decl"]] = d.get("t", "")
        return self._dt.get(decl)

    def storing_sites(self):
        """[(kind, node, [source expressions], dest var key or None)] for every storing effect."""
        if self._effects is not None:
            return self._effects
        out = []
        fn = self.fn
        for n in fn.walk():
            k = n.get("k")
            c = n.get("c") or []
            if k == "CXXNewExpr":
                out.append(("new", n, list(c), None))
            elif k in ("BinaryOperator", "CompoundAssignOperator") and len(c) == 2 and \
                    (n.get("op") == "=" or k == "CompoundAssignOperator"):
                lhs = c[0]
                vk = _var_key(lhs)
                if vk is not None and vk[0] == "f":
                    out.append(("field", n, [c[1]], vk))
                elif vk is None:
                    r = _root(lhs)
                    if r is not None and _var_key(r) is not None and self._receiver_is_model(lhs):
                        out.append(("lvalue", n, [c[1]], None))
                elif vk[0] == "l" and (self._decl_type(vk[1]) or "").rstrip().endswith("&"):
                    out.append(("lvalue", n, [c[1]], None))
            elif is_call(n) and k not in ("CXXConstructExpr", "CXXTemporaryObjectExpr"):
                if _is_error_call(n):
                    continue
                recv, args = _call_parts(n)
                pt = _param_types(self.facts, n)
                # out-parameters that are parser fields
                for i, a in enumerate(args):
                    vk = _var_key(_strip(a))
                    if vk is not None and vk[0] == "f" and i < len(pt) and _is_out_ref(pt[i]):
                        out.append(("field", n, [x for j, x in enumerate(args) if j != i], vk))
                if recv is None:
                    continue
                if _callee_is_const(n):
                    continue
                if recv.get("k") == "CXXThisExpr":
                    if strip_targs(n.get("calleeClass") or "") in PARSER_HIER:
                        out.append(("call", n, args, None))
                    continue
                rvk = _var_key(_strip(recv))
                if rvk is not None and rvk[0] == "f":
                    out.append(("field", n, args, rvk))
                elif self._receiver_is_model(recv):
                    out.append(("call", n, args, None))
        self._effects = out
        return out

    def run(self, attr):
        """-> dict(kind=..., sinks=[...], converted=bool, copied=bool, compared=bool)"""
        fn, h = self.fn, self.h
        own = self.all_branch_ids[attr]
        excluded = set()
        for b, ids in self.all_branch_ids.items():
            if b != attr:
                excluded |= (ids - own)
        tainted = set()
        converted = set()

        def seed(n):
            return _var_key(n) == h.value_var and n["id"] in own

        def has_taint(expr):
            for x in walk(expr):
                if x["id"] in excluded:
                    continue
                vk = _var_key(x)
                if vk is None:
                    continue
                if seed(x) or (vk in tainted and vk != h.value_var):
                    return True
            return False

        region = [n for n in fn.walk() if n["id"] not in excluded]
        changed = True
        rounds = 0
        while changed:
            rounds += 1
            if rounds > 50:
                raise AnalysisBroken("%s: taint closure did not converge" % fn.short)
            changed = False

            def add(vk, conv=False):
                nonlocal changed
                if vk is None or vk == h.value_var or vk == h.name_var:
                    return
                if vk not in tainted:
                    tainted.add(vk)
                    changed = True
                if conv and vk not in converted:
                    converted.add(vk)
                    changed = True

            for n in region:
                k = n.get("k")
                c = n.get("c") or []
                if k == "DeclStmt":
                    for d in n.get("decls", []):
                        if d.get("init") is not None and has_taint(d["init"]):
                            add(("l", d["decl"]), conv=not (d.get("t") or "").startswith("std::basic_string"))
                elif k in ("BinaryOperator", "CompoundAssignOperator") and len(c) == 2 and \
                        (n.get("op") == "=" or k == "CompoundAssignOperator"):
                    if has_taint(c[1]):
                        add(_var_key(c[0]))
                elif is_call(n) and k not in ("CXXConstructExpr", "CXXTemporaryObjectExpr"):
                    if _is_error_call(n):
                        continue
                    recv, args = _call_parts(n)
                    pt = _param_types(self.facts, n)
                    src_t = [has_taint(a) for a in args]
                    recv_t = recv is not None and has_taint(recv)
                    for i, a in enumerate(args):
                        if i < len(pt) and _is_out_ref(pt[i]):
                            vk = _var_key(_strip(a))
                            if vk is not None and (recv_t or any(t for j, t in enumerate(src_t) if j != i)):
                                add(vk, conv=True)
                    if recv is not None and not _callee_is_const(n) and any(src_t):
                        rvk = _var_key(_strip(recv))
                        if rvk is not None:
                            add(rvk)

        sinks = []
        for kind, node, sources, dest in self.storing_sites():
            if node["id"] in excluded:
                continue
            if kind == "field" and not self.field_readers.get(dest[1]):
                continue
            if any(has_taint(s) for s in sources):
                sinks.append("%s:%s" % (kind, dest[1] if dest else F.expr_text(node)[:60]))
        # control sinks
        effect_ids = {node["id"] for kind, node, _s, dest in self.storing_sites()
                      if node["id"] not in excluded and
                      (kind != "field" or self.field_readers.get(dest[1]))}
        compared = False
        for n in region:
            k = n.get("k")
            cond, controlled = None, []
            if k == "IfStmt":
                cond, controlled = n.get("cond"), [n.get("then"), n.get("else")]
            elif k == "ConditionalOperator" and len(n.get("c") or []) == 3:
                cond, controlled = n["c"][0], n["c"][1:]
            elif k == "SwitchStmt":
                cond, controlled = n.get("cond"), [n.get("body")]
            if cond is None or not has_taint(cond):
                continue
            compared = True
            for sub in controlled:
                if sub is not None and any(x["id"] in effect_ids for x in walk(sub)):
                    sinks.append("control:%s" % F.expr_text(cond)[:60])
                    break
        used_anywhere = bool(tainted) or any(seed(x) for x in region)
        res = {"sinks": sorted(set(sinks)), "converted": bool(converted), "copied": bool(tainted),
               "compared": compared, "seen": used_anywhere,
               "locals": sorted(str(v[1]) for v in tainted)}
        if res["sinks"]:
            res["kind"] = "stored"
        elif converted or tainted:
            res["kind"] = "dropped"
        elif compared or used_anywhere:
            res["kind"] = "validated-only"
        else:
            res["kind"] = "ignored"
        return res


def parser_field_readers(ctx):
    """{field: [function short names]} rvalue uses of GKFparser fields in GKFparser methods."""
    cache = getattr(ctx, "_attr_field_readers", None)
    if cache is not None:
        return cache
    fx = ctx.facts
    readers = {}
    for fn in fx.methods_of(GKF):
        if fn.body is None:
            continue
        for n in fn.walk():
            if F.is_this_field(n) and _is_read(fn, n):
                readers.setdefault(n["member"], set()).add(fn.short)
    ctx._attr_field_readers = readers
    return readers


def _is_read(fn, n):
    """False only if the field occurrence is purely overwritten (LHS of `=`, object of
    operator=, out-parameter of a call); everything else reads the old value."""
    p = fn.parent(n)
    if p is None:
        return True
    k = p.get("k")
    c = p.get("c") or []
    if k == "BinaryOperator" and p.get("op") == "=" and c and c[0] is n:
        return False
    if k == "CXXOperatorCallExpr" and p.get("op") == "=" and len(c) > 1 and c[1] is n:
        return False
    return True


def attr_dispositions(ctx):
    """{(handler key, attribute): flow result} (A2), computed once."""
    cache = getattr(ctx, "_attr_disp", None)
    if cache is not None:
        return cache
    readers = parser_field_readers(ctx)
    res = {}
    for key, h in gkf_handlers(ctx).items():
        if not h.branches:
            continue
        fl = Flow(ctx, h, readers)
        for a in sorted(h.branches):
            res[(key, a)] = fl.run(a)
    ctx._attr_disp = res
    return res


def rule_attr_flow(ctx):
    rule = "R-ATTR"
    fx = ctx.facts
    tb = table()
    exempt = tb["flow_exempt"]
    hs = gkf_handlers(ctx)
    disp = attr_dispositions(ctx)
    n_handlers = 0
    for key, h in sorted(hs.items()):
        fn = h.fn
        ctx.saw(fn)
        n_handlers += 1
        acc = sorted(h.branches)
        # A1 instance: the attribute table the engine read off the handler
        ctx.ok(rule, "%s:attribute-table" % fn.short, fn.where(), fn.short,
               detail={"accepted": acc, "delegates_to": [F.short(d) for d in h.delegates],
                       "name_variable_found": h.name_var is not None})
        for a in acc:
            r = disp[(key, a)]
            ikey = "%s:attr:%s" % (fn.short, a)
            ex = exempt.get("%s@%s" % (fn.name, a))
            if r["kind"] == "stored":
                ctx.ok(rule, ikey, fn.where(), fn.short, detail=r)
            elif r["kind"] == "dropped":
                ctx.bad(rule, ikey, fn.where(), fn.short,
                        msg="attribute '%s' is accepted, its value is copied/converted into %s and then "
                            "never reaches the object being built, a parser member or a model call: the "
                            "parsed value is dropped" % (a, r["locals"]), detail=r)
            elif ex and ex.get("kind") == r["kind"]:
                ctx.ok(rule, ikey, fn.where(), fn.short, msg="exempt: " + ex["reason"], detail=r)
            else:
                ctx.bad(rule, ikey, fn.where(), fn.short,
                        msg="attribute '%s' is accepted but its value is %s (no storing use, no table entry)"
                            % (a, r["kind"]), detail=r)
    ctx.floor(rule, tb["floors"]["handlers_with_atts"], n_handlers, "GKFparser handlers receiving attributes")
    ctx.floor(rule, tb["floors"]["accepted_attributes"], len(disp), "accepted (handler, attribute) pairs")


# =========================================================================== GKFparser automaton with handlers

class GkfModel:
    """Reachable configurations of the GKFparser automaton with, per transition, the parser
    methods the dispatcher calls.  Built with R-FSM's state propagation (fsm.StateProp);
    this module only adds the stack of open tags and the handler sets."""

    def __init__(self, ctx):
        import fsm
        fx = ctx.facts
        self.fx = fx
        self.start_fn = fx.fn(GKF + "::startElement")
        self.end_fn = fx.fn(GKF + "::endElement")
        self.chr_fn = fx.fn(GKF + "::characterDataHandler")
        self.tag_fn = fx.fn(GKF + "::tag")
        for f in (self.start_fn, self.end_fn, self.chr_fn, self.tag_fn):
            ctx.saw(f)
        self.states = {e["v"]: e["name"] for e in fx.enum(GKF + "::gkf_state")["enumerators"]}
        self.tags = {e["v"]: e["name"] for e in fx.enum(GKF + "::gkf_tag")["enumerators"]}
        inv = {v: k for k, v in self.states.items()}
        if "state_error" not in inv or "state_start" not in inv:
            raise AnalysisBroken("GKFparser: state_error/state_start enumerators not found")
        self.error = inv["state_error"]
        self.start_state = inv["state_start"]
        self.sp = fsm.StateProp(fx, hierarchy=PARSER_HIER, error_value=self.error)
        self.tag_local = None
        for n in self.start_fn.walk():
            if n.get("k") == "DeclStmt":
                for d in n.get("decls", []):
                    init = d.get("init")
                    if init is not None and any(is_call(x) and _callee(x) == GKF + "::tag" for x in walk(init)):
                        self.tag_local = d["name"]
        if self.tag_local is None:
            raise AnalysisBroken("GKFparser::startElement: local initialised from tag() not found")
        self.tag_names = {}            # xml element name -> tag enumerator value
        for lit, (_nm, v) in fsm.tag_function_map(self.tag_fn).items():
            self.tag_names[lit] = v
        self.names_of_tag = {}
        for lit, v in self.tag_names.items():
            self.names_of_tag.setdefault(v, []).append(lit)
        self.start = {}
        self.end = {}
        for s in self.states:
            for t in self.tags:
                pin = {self.tag_local: t}
                toks = self.sp.run(self.start_fn, ("c", s, "in"), pin)
                mkey = (self.start_fn.key, ("c", s, "in"), tuple(sorted(pin.items())))
                self.start[(s, t)] = (self._posts(toks), self._handlers(self.sp.calls_seen.get(mkey, ())))
            toks = self.sp.run(self.end_fn, ("c", s, "in"))
            mkey = (self.end_fn.key, ("c", s, "in"), ())
            self.end[s] = (self._posts(toks), self._handlers(self.sp.calls_seen.get(mkey, ())))
        self._explore()

    def _posts(self, toks):
        out = set()
        for t in toks:
            if t == ("top",):
                raise AnalysisBroken("GKFparser: non-constant parser state (R-FSM must hold first)")
            out.add(t[1])
        return out

    def _handlers(self, qns):
        out = []
        for q in sorted(qns):
            if q == ERROR_FN or not q.startswith(GKF + "::"):
                continue
            for f in self.fx.fns(q):
                out.append(f)
        return out

    def _explore(self, max_depth=12):
        init = (self.start_state, ())
        self.configs = {init}
        self.edges = []               # (config, 'start'|'end', tag value, [handler Fn], config')
        work = [init]
        while work:
            s, st = work.pop()
            if len(st) >= max_depth:
                raise AnalysisBroken("GKFparser automaton: nesting deeper than %d" % max_depth)
            for t in self.tags:
                posts, hs = self.start[(s, t)]
                for p in posts:
                    if p == self.error:
                        continue
                    c = (p, st + (t,))
                    self.edges.append(((s, st), "start", t, hs, c))
                    if c not in self.configs:
                        self.configs.add(c)
                        work.append(c)
            if st:
                posts, hs = self.end[s]
                for p in posts:
                    if p == self.error:
                        continue
                    c = (p, st[:-1])
                    self.edges.append(((s, st), "end", st[-1], hs, c))
                    if c not in self.configs:
                        self.configs.add(c)
                        work.append(c)

    def tag_name(self, v):
        """Preferred XML name of a tag value (the first literal mapped to it, documented name first)."""
        names = sorted(self.names_of_tag.get(v, []), key=lambda x: (x == "gama-xml", x))
        return names[0] if names else self.tags.get(v, str(v))

    def start_handlers(self):
        """{(parent element name or None, element name): set of handler Fn}"""
        out = {}
        for (s, st), kind, t, hs, _c in self.edges:
            if kind != "start":
                continue
            parent = self.tag_name(st[-1]) if st else None
            for nm in self.names_of_tag.get(t, []):
                out.setdefault((parent, nm), set()).update(hs)
        return out


def gkf_model(ctx):
    m = getattr(ctx, "_attr_model", None)
    if m is None:
        m = GkfModel(ctx)
        ctx._attr_model = m
    return m


# =========================================================================== A4 writer / reader agreement

EXPORT_FN = "GNU_gama::local::LocalNetwork::export_xml"
_TOK = re.compile(r"<\?|\?>|<!--|-->|</([A-Za-z][\w.-]*)\s*>|<([A-Za-z][\w.-]*)|<$|/>|>|"
                  r"(?:^|(?<=[\s\"']))([A-Za-z_][\w.-]*)\s*=")


class ExportScan:
    """Markup written by export_xml: the string literals of the function (and of the
    LocalNetwork methods it calls, in place of the call) are scanned in evaluation order
    with a small XML tokenizer.  An element whose name is not a literal (`"<" + name`) is
    recorded as '*' under its parent."""

    def __init__(self, ctx, fn):
        self.ctx = ctx
        self.fx = ctx.facts
        self.stack = []            # open elements: [name, start_tag_open]
        self.groups = {}           # (parent, name) -> set(attrs)
        self.children = {}         # parent -> set(child names)
        self.mode = None           # inside <? ?> or <!-- -->
        self._active = set()
        self.scan_fn(fn)
        if self.stack:
            raise AnalysisBroken("export_xml: element(s) %s left open by the literal scan - tokenizer out of step"
                                 % [s[0] for s in self.stack])

    def scan_fn(self, fn):
        if fn.key in self._active:
            return
        self._active.add(fn.key)
        self.ctx.saw(fn)
        self._scan(fn.body)
        self._active.discard(fn.key)

    def _scan(self, node):
        if node is None:
            return
        k = node.get("k")
        if k == "StringLiteral":
            self.text(node.get("v") or "")
            return
        if k == "CXXMemberCallExpr":
            callee = self.fx.functions.get(node.get("calleeKey") or "")
            recv = F.call_object(node)
            if callee is not None and callee.body is not None and recv is not None and \
                    recv.get("k") == "CXXThisExpr" and callee.cls and \
                    strip_targs(callee.cls) == "GNU_gama::local::LocalNetwork" and \
                    any(x.get("k") == "StringLiteral" and "<" in (x.get("v") or "") for x in callee.walk()):
                for a in F.call_args(node):
                    self._scan(a)
                self.scan_fn(callee)
                return
        for ch in F.children(node):
            self._scan(ch)

    def text(self, s):
        pos = 0
        for m in _TOK.finditer(s):
            tok = m.group(0)
            if self.mode == "pi":
                if tok == "?>":
                    self.mode = None
                continue
            if self.mode == "comment":
                if tok == "-->":
                    self.mode = None
                continue
            if tok == "<?":
                self.mode = "pi"
            elif tok == "<!--":
                self.mode = "comment"
            elif m.group(1):                      # </name>
                if not self.stack or self.stack[-1][0] != m.group(1):
                    raise AnalysisBroken("export_xml: </%s> closes %s" % (m.group(1),
                                         self.stack[-1][0] if self.stack else "nothing"))
                self.stack.pop()
            elif m.group(2) or tok == "<":        # <name   or dynamic "<" + expr
                name = m.group(2) or "*"
                parent = self.stack[-1][0] if self.stack else None
                if self.stack and self.stack[-1][1]:
                    raise AnalysisBroken("export_xml: '<%s' inside the open start tag of <%s>"
                                         % (name, self.stack[-1][0]))
                self.stack.append([name, True])
                self.groups.setdefault((parent, name), set())
                self.children.setdefault(parent, set()).add(name)
            elif tok == "/>":
                if self.stack and self.stack[-1][1]:
                    self.stack.pop()
            elif tok == ">":
                if self.stack and self.stack[-1][1]:
                    self.stack[-1][1] = False
            elif m.group(3):
                if self.stack and self.stack[-1][1]:
                    parent = self.stack[-2][0] if len(self.stack) > 1 else None
                    self.groups[(parent, self.stack[-1][0])].add(m.group(3))


def xsd_attributes(root):
    """{element name: set(attribute names)} of xml/gama-local.xsd (flat global elements)."""
    path = os.path.join(root, "xml", "gama-local.xsd")
    if not os.path.exists(path):
        raise AnalysisBroken("xml/gama-local.xsd not found under %s" % root)
    ns = "{http://www.w3.org/2001/XMLSchema}"
    try:
        tree = ET.parse(path)
    except ET.ParseError as e:
        raise AnalysisBroken("xml/gama-local.xsd is not well-formed: %s" % e)
    out = {}
    for el in tree.getroot().findall(ns + "element"):
        out[el.get("name")] = {a.get("name") for a in el.iter(ns + "attribute") if a.get("name")}
    return out


def rule_attr_export(ctx):
    rule = "R-ATTR"
    fx = ctx.facts
    tb = table()
    exp = fx.fn(EXPORT_FN)
    scan = ExportScan(ctx, exp)
    model = gkf_model(ctx)
    hs = gkf_handlers(ctx)
    disp = attr_dispositions(ctx)
    readers = model.start_handlers()
    xsd = xsd_attributes(ctx.root)
    xsd_ns_ok = True
    written_by_handler = {}        # handler key -> set of attributes written in some group it reads
    n_w = 0
    where = exp.where()
    for (parent, name), attrs in sorted(scan.groups.items(), key=str):
        # the reading handlers of this writer group
        if name == "*":
            static = scan.children.get(parent, set()) - {"*"}
            cands = sorted(nm for (p, nm) in readers if p == parent and nm not in static)
        else:
            cands = [name] if (parent, name) in readers else []
        gname = "%s/%s" % (parent or "", name)
        if not cands:
            if attrs:
                ctx.bad(rule, "export_xml:%s:read-by-a-handler" % gname, where, exp.short,
                        msg="export writes <%s> under <%s> with attributes %s but the parser has no start "
                            "transition for it there" % (name, parent, sorted(attrs)))
            continue
        hkeys = set()
        for nm in cands:
            for f in readers[(parent, nm)]:
                if f.key in hs:
                    hkeys.add(f.key)
        accepted = set()
        for k in hkeys:
            accepted |= accepted_attributes(ctx, k)
        xsd_decl = set()
        for nm in cands:
            if nm not in xsd:
                xsd_ns_ok = False
            xsd_decl |= xsd.get(nm, set())
        for k in hkeys:
            stack = [k]
            seen = set()
            while stack:
                x = stack.pop()
                if x in seen or x not in hs:
                    continue
                seen.add(x)
                written_by_handler.setdefault(x, set()).update(attrs)
                stack.extend(hs[x].delegates)
        for a in sorted(attrs):
            n_w += 1
            if a == "xmlns":
                decl = True     # namespace declaration, not an attribute of the schema
            else:
                decl = a in xsd_decl
            ok = a in accepted
            ctx.report(rule, "export_xml:%s@%s:accepted" % (gname, a), ok, where, exp.short,
                       msg="" if ok else "export_xml writes attribute '%s' on <%s> but %s do(es) not accept it: the "
                       "exported file is refused by gama-local" % (a, gname, sorted(F.short(k) for k in hkeys)),
                       detail={"readers": sorted(F.short(k) for k in hkeys)})
            ctx.report(rule, "export_xml:%s@%s:in-xsd" % (gname, a), decl, where, exp.short,
                       msg="" if decl else "export_xml writes attribute '%s' on <%s>, which gama-local.xsd does "
                       "not declare for %s" % (a, gname, cands))
    ctx.floor(rule, tb["floors"]["exported_attributes"], n_w, "attributes written by export_xml")
    # every stored attribute is written back
    exempt = tb["export_exempt"]
    n_r = 0
    for (key, a), r in sorted(disp.items()):
        if key not in written_by_handler:
            continue                                  # handler of an element export never writes: see below
        if r["kind"] != "stored":
            continue
        h = hs[key]
        n_r += 1
        ikey = "%s:attr:%s:exported" % (h.fn.short, a)
        ex = exempt.get("%s@%s" % (h.fn.name, a))
        if a in written_by_handler[key]:
            ctx.ok(rule, ikey, h.fn.where(), h.fn.short)
        elif ex:
            ctx.ok(rule, ikey, h.fn.where(), h.fn.short, msg="exempt: " + ex)
        else:
            ctx.bad(rule, ikey, h.fn.where(), h.fn.short,
                    msg="attribute '%s' is accepted and stored by %s but never written by export_xml: the datum "
                        "is lost on export" % (a, h.fn.short), detail={"stored_by": r["sinks"][:4]})
    for key, h in sorted(hs.items()):
        if h.branches and key not in written_by_handler:
            ctx.bad(rule, "%s:element-exported" % h.fn.short, h.fn.where(), h.fn.short,
                    msg="handler accepts attributes %s but export_xml never writes its element"
                        % sorted(h.branches))
    ctx.floor(rule, tb["floors"]["stored_attributes"], n_r, "stored (handler, attribute) pairs checked against export")
    if not xsd_ns_ok:
        ctx.note("some exported element names are not declared in gama-local.xsd")


# =========================================================================== R-NUM numeric conversion guards

FLOAT_CONV = {"atof", "strtod", "strtof", "strtold", "std::atof", "std::strtod", "std::strtof", "std::strtold",
              "std::stod", "std::stof", "std::stold"}
INT_CONV = {"atoi", "atol", "atoll", "strtol", "strtoll", "strtoul", "strtoull", "std::atoi", "std::atol",
            "std::atoll", "std::strtol", "std::strtoll", "std::strtoul", "std::strtoull",
            "std::stoi", "std::stol", "std::stoll", "std::stoul", "std::stoull"}
RECOGNISERS = {"GNU_gama::IsFloat": {"float"}, "GNU_gama::IsInteger": {"float", "int"}}


def main_of(ctx, relfile):
    """`main` of one program (the fact base keeps every main, keyed `main(...)@file` on collisions)."""
    return ctx.facts.fn("main", file=relfile)


def _writes_of(fn, vk):
    """Nodes that may modify variable vk in fn (assignment, ++/--, out-parameter, mutating call)."""
    out = []
    for n in fn.walk():
        k = n.get("k")
        c = n.get("c") or []
        if k in ("BinaryOperator", "CompoundAssignOperator") and c and \
                (n.get("op") == "=" or k == "CompoundAssignOperator") and _var_key(c[0]) == vk:
            out.append(n)
        elif k == "UnaryOperator" and n.get("op") in ("++", "--") and c and _var_key(c[0]) == vk:
            out.append(n)
        elif is_call(n) and k not in ("CXXConstructExpr", "CXXTemporaryObjectExpr"):
            recv, args = _call_parts(n)
            if recv is not None and _var_key(_strip(recv)) == vk and not _callee_is_const(n):
                out.append(n)
    return out


def _out_param_writes(facts, fn, vk):
    out = []
    for n in fn.calls():
        if n.get("k") in ("CXXConstructExpr", "CXXTemporaryObjectExpr"):
            continue
        _recv, args = _call_parts(n)
        pt = _param_types(facts, n)
        for i, a in enumerate(args):
            if i < len(pt) and _is_out_ref(pt[i]) and _var_key(_strip(a)) == vk:
                out.append(n)
    return out


def _between(cfg, a, w, b):
    """Node w can execute after node a and before node b."""
    pa, pw, pb = cfg.block_of(a), cfg.block_of(w), cfg.block_of(b)
    if pa is None or pw is None or pb is None:
        return True
    def reach(x, y):
        if x[0] == y[0] and x[1] < y[1]:
            return True
        return any(y[0] in cfg.reachable_blocks_from(s) for s in cfg.succ.get(x[0], []))
    return reach(pa, pw) and reach(pw, pb)


def _guarded_by(facts, fn, target, vk, test):
    """Is `target` dominated by the satisfied outcome of a branch for which test(cond) returns
    the index of the successor on which the property holds, with no write of vk in between?"""
    cfg = fn.cfg
    tb = cfg.block_of(target)
    if tb is None:
        return None
    writes = _writes_of(fn, vk) + _out_param_writes(facts, fn, vk)
    for bid in cfg.blocks:
        cond = _branch_value(fn, bid)
        if cond is None:
            continue
        inner, pos = _polarity(cond)
        side = test(inner)
        if side is None:
            continue
        if not pos:
            side = 1 - side
        succ = cfg.blocks[bid]["succ"]
        s = succ[side]
        if s is None or s < 0:
            continue
        if not _edge_dominates(cfg, bid, s, tb[0]):
            continue
        if any(_between(cfg, inner, w, target) for w in writes if w["id"] != target["id"]):
            continue
        return inner
    return None


def _num_scope(ctx):
    tb = table()["num_scope"]
    fx = ctx.facts
    fns = []
    for c in tb["classes"]:
        fx.cls(c)
        fns.extend(f for f in fx.methods_of(c) if f.body is not None)
    for q in tb["functions"]:
        fns.append(fx.fn(q))
    for m in tb["mains"]:
        fns.append(main_of(ctx, m))
    return fns


def rule_numconv(ctx):
    rule = "R-NUM"
    fx = ctx.facts
    n_inst = 0
    n_conv = 0
    for fn in _num_scope(ctx):
        ctx.saw(fn)
        per_callee = {}
        for n in fn.walk():
            if is_call(n) and (_callee(n) in FLOAT_CONV or _callee(n) in INT_CONV):
                callee = _callee(n)
                kind = "float" if callee in FLOAT_CONV else "int"
                _recv, args = _call_parts(n)
                per_callee[callee] = per_callee.get(callee, 0) + 1
                key = "%s:%s#%d" % (fn.short if fn.cls else "%s@%s" % (fn.name, fn.file), callee.split("::")[-1],
                                    per_callee[callee])
                n_inst += 1
                n_conv += 1
                r = _root(args[0]) if args else None
                vk = _var_key(r) if r is not None else None
                if vk is None:
                    ctx.bad(rule, key, fn.where(n), fn.short,
                            msg="%s(%s): the converted string is not a variable the engine can track"
                                % (callee, F.expr_text(args[0]) if args else ""))
                    continue

                def test(cond, vk=vk, kind=kind):
                    if cond is None or not is_call(cond):
                        return None
                    if kind not in RECOGNISERS.get(_callee(cond), ()):
                        return None
                    _r, a = _call_parts(cond)
                    rr = _root(a[0]) if a else None
                    if rr is not None and _var_key(rr) == vk:
                        return 0
                    return None

                g = _guarded_by(fx, fn, n, vk, test)
                ctx.report(rule, key, g is not None, fn.where(n), fn.short,
                           msg="" if g is not None else
                           "%s(%s) is not dominated by a successful %s on the same string: malformed input "
                           "is converted silently" % (callee, F.expr_text(args[0]),
                                                      "IsInteger" if kind == "int" else "IsFloat/IsInteger"),
                           detail={"guard": F.expr_text(g) if g is not None else None})
        # float -> int conversions of non-constant values
        k_cast = 0
        for n in fn.walk():
            if n.get("castKind") != "FloatingToIntegral":
                continue
            c = n.get("c") or []
            if not c:
                continue
            op = _strip(c[0])
            if op is None or op.get("k") in ("FloatingLiteral", "IntegerLiteral"):
                continue
            k_cast += 1
            n_inst += 1
            key = "%s:float-to-int#%d" % (fn.short if fn.cls else "%s@%s" % (fn.name, fn.file), k_cast)
            r = _root(op)
            vk = _var_key(r) if r is not None else None
            if vk is None:
                ctx.bad(rule, key, fn.where(n), fn.short,
                        msg="float->int conversion of %s: operand is not a variable, no range test can "
                            "be matched" % F.expr_text(op))
                continue

            def test(cond, vk=vk):
                if cond is None or cond.get("k") != "BinaryOperator" or cond.get("op") not in ("<", "<=", ">", ">="):
                    return None
                a, b = cond["c"]

                def is_v(x):
                    x = _strip(x)
                    if x is not None and x.get("k") == "CallExpr" and \
                            _callee(x).split("::")[-1] in ("fabs", "abs", "fabsl", "fabsf"):
                        x = _strip((x.get("c") or [None, None])[1])
                    return x is not None and _var_key(x) == vk

                def mentions(x):
                    return any(_var_key(y) == vk for y in walk(x))
                if is_v(a) and not mentions(b):
                    return 0 if cond["op"] in ("<", "<=") else 1       # v < K holds on the true edge
                if is_v(b) and not mentions(a):
                    return 0 if cond["op"] in (">", ">=") else 1       # K > v
                return None

            g = _guarded_by(fx, fn, n, vk, test)
            ctx.report(rule, key, g is not None, fn.where(n), fn.short,
                       msg="" if g is not None else
                       "the value %s is converted from floating point to an integer type without a dominating "
                       "upper-bound test: an out-of-range value is undefined behaviour" % F.expr_text(op),
                       detail={"bound": F.expr_text(g) if g is not None else None})
    ctx.floor(rule, table()["floors"]["numeric_conversions"], n_conv, "atof/atoi/strto*/sto* calls in parser scopes")
    return n_inst


# =========================================================================== R-FUNNEL exception funnel of main()

def _catch_types(fx, sub, exc_t):
    """Class named by a catch clause type (cv/ref stripped); '...' for catch-all."""
    if exc_t == "...":
        return "..."
    t = exc_t.replace("const ", "").replace("&", "").replace("*", "").strip()
    return strip_targs(t)


def _bases_closure(facts_list, cls):
    out = {cls}
    todo = [cls]
    while todo:
        c = todo.pop()
        for fx in facts_list:
            rec = fx.classes.get(c)
            if not rec:
                continue
            for b in rec.get("bases", []):
                bq = strip_targs(b.get("qn", b.get("t", "")))
                if bq and bq not in out:
                    out.add(bq)
                    todo.append(bq)
    return out


def rule_main_funnel(ctx):
    rule = "R-FUNNEL"
    fx = ctx.facts
    tb = table()["funnel"]
    n_catch = 0
    for relfile in tb["mains"]:
        fn = main_of(ctx, relfile)
        ctx.saw(fn)
        facts_list = [fx]
        prog = os.path.splitext(os.path.basename(relfile))[0]
        cfg = fn.cfg
        tries = [n for n in fn.walk() if n.get("k") == "CXXTryStmt"]
        if not tries:
            raise AnalysisBroken("%s: main has no try statement" % relfile)
        # the funnel = the try statement that is not nested in another try of main
        outer = [t for t in tries if not any(a.get("k") in ("CXXTryStmt", "CXXCatchStmt") for a in fn.ancestors(t))]
        if len(outer) != 1:
            raise AnalysisBroken("%s: expected one outermost try in main, found %d" % (relfile, len(outer)))
        funnel = outer[0]
        clauses = [c for c in (funnel.get("c") or []) if c.get("k") == "CXXCatchStmt"]
        caught = [_catch_types(fx, None, c.get("excT", "")) for c in clauses]
        # coverage
        for req in tb["must_be_caught_by_a_typed_clause"]:
            bases = _bases_closure(facts_list, req)
            known = any(req in f.classes for f in facts_list)
            if not known:
                raise AnalysisBroken("exception class %s not found in the fact base" % req)
            by = [t for t in caught if t != "..." and t in bases]
            ctx.report(rule, "%s:main:covers:%s" % (prog, F.short(req)), bool(by), fn.where(funnel), "main",
                       msg="" if by else "no typed catch clause of main's funnel catches %s (clauses: %s): it "
                       "would end in the anonymous catch-all without its message" % (req, caught),
                       detail={"caught_by": by})
        ok_all = "..." in caught and caught[-1] == "..."
        ctx.report(rule, "%s:main:covers:catch-all" % prog, ok_all, fn.where(funnel), "main",
                   msg="" if ok_all else "main's funnel has no final catch (...) clause")
        # every catch clause of main ends in a non-zero return, a diagnostic-document return or a rethrow
        seen_sig = {}
        for t in tries:
            cl = [c for c in (t.get("c") or []) if c.get("k") == "CXXCatchStmt"]
            if t is funnel:
                sig = "funnel"
            else:
                # an inner try is named after the (alphabetically first) gama method its body calls
                body = [x for x in (t.get("c") or []) if x.get("k") != "CXXCatchStmt"]
                names = sorted({F.short(_callee(x)) for b0 in body for x in walk(b0)
                                if x.get("k") == "CXXMemberCallExpr" and _callee(x).startswith("GNU_gama::")})
                sig = "try(%s)" % (names[0] if names else "?")
            seen_sig[sig] = seen_sig.get(sig, 0) + 1
            tname = "%s%s" % (sig, "" if seen_sig[sig] == 1 else "#%d" % seen_sig[sig])
            for c in cl:
                n_catch += 1
                typ = _catch_types(fx, None, c.get("excT", ""))
                key = "%s:main:%s:catch(%s):exit" % (prog, tname, F.short(typ))
                hb = [b for b, blk in cfg.blocks.items() if blk.get("label") == c["id"]]
                if not hb:
                    raise AnalysisBroken("%s: no CFG block for catch clause %s" % (relfile, typ))
                problems = []
                seen = set()
                stack = list(hb)
                while stack:
                    b = stack.pop()
                    if b in seen:
                        continue
                    seen.add(b)
                    blk = cfg.blocks[b]
                    if blk.get("termK") == "CXXTryStmt" and b not in hb:
                        continue                      # (re)throw inside an enclosing try: handled there
                    els = [fn.nodes.get(e) for e in blk.get("el", []) if isinstance(e, int)]
                    els = [e for e in els if e is not None]
                    succs = cfg.succ.get(b, [])
                    if cfg.exit in succs:
                        last = els[-1] if els else None
                        if last is not None and last.get("k") == "CXXThrowExpr":
                            pass
                        elif last is not None and last.get("k") == "ReturnStmt":
                            v = _strip((last.get("c") or [last.get("value")])[0]) if (last.get("c") or last.get("value")) else None
                            if v is None:
                                problems.append("return without a value")
                            elif v.get("k") == "IntegerLiteral":
                                if int(v.get("v")) == 0:
                                    problems.append("return 0 at %s" % fn.where(last))
                            elif is_call(v) and _callee(v) in tb["diagnostic_returns"]:
                                pass
                            else:
                                problems.append("return %s at %s (not a non-zero literal)"
                                                % (F.expr_text(v)[:40], fn.where(last)))
                        else:
                            problems.append("control falls off the end of main (= return 0) after %s"
                                            % (fn.where(last) if last is not None else fn.where(c)))
                    for s in succs:
                        if s != cfg.exit:
                            stack.append(s)
                ctx.report(rule, key, not problems, fn.where(c), "main",
                           msg="" if not problems else "a path through this catch clause ends the program with exit "
                           "status 0 or an unproven status: %s" % "; ".join(sorted(set(problems))),
                           detail={"problems": sorted(set(problems))})
    ctx.floor(rule, tb["floor_catch_clauses"], n_catch, "catch clauses in the mains")


# =========================================================================== A3 scratch members

SCALAR_T = ("int", "bool", "double", "float", "unsigned", "long", "char", "short", "size_t")


def _is_scalar_type(t):
    t = (t or "").strip()
    return t.endswith("*") or t.split(" ")[-1] in SCALAR_T or t in SCALAR_T


class ScratchUnit:
    """Abstract interpretation of one scratch field (optionally together with its guard
    flag) over the GKFparser automaton.

    Value of a field = (age, truth): age C clean (initial/reset value, or known equal to its
    zero value), F fresh (written during the current instance of the field's scope element),
    S stale (written during an instance that has since closed, or never initialised);
    truth z / n / u (zero, non-zero, unknown).  A token is (parser state, values of the
    unit's fields); tokens are propagated path-wise (no joins), so a flag and the field it
    guards stay correlated.  A read of a field whose age is S is the violation."""

    def __init__(self, ctx, model, fields, scopes, init):
        import fsm
        self.fsm = fsm
        self.ctx = ctx
        self.fx = ctx.facts
        self.m = model
        self.fields = list(fields)
        self.idx = {f: i for i, f in enumerate(self.fields)}
        self.scopes = scopes            # field -> set of tag values
        self.init = init                # field -> (age, truth)
        self.memo = {}
        self.active = set()
        self.reads = {}                 # (fn short, field) -> set of ages seen at reads
        self.stale = {}                 # (fn short, field) -> first offending node 'where'
        self.converters = set(table()["scratch_out_param_converters"])
        self._touch = {}
        self._branch_calls = {}
        self.steps = 0

    # ---- which functions matter
    def touches(self, fn, _stack=None):
        if fn.key in self._touch:
            return self._touch[fn.key]
        _stack = _stack or set()
        if fn.key in _stack:
            return False
        _stack.add(fn.key)
        res = False
        if fn.body is not None:
            for n in fn.walk():
                if F.is_this_field(n) and (n["member"] in self.idx or n["member"] == "state"):
                    res = True
                    break
                if n.get("k") == "CXXMemberCallExpr" and strip_targs(n.get("calleeClass") or "") in PARSER_HIER:
                    if _callee(n) == ERROR_FN:
                        res = True
                        break
                    cal = self.fx.functions.get(n.get("calleeKey") or "")
                    if cal is not None and self.touches(cal, _stack):
                        res = True
                        break
        _stack.discard(fn.key)
        self._touch[fn.key] = res
        return res

    def is_state(self, n):
        return (n is not None and n.get("k") == "MemberExpr" and n.get("mk") == "field" and
                n.get("member") == "state" and strip_targs(n.get("owner", "")) == CORE and
                (n.get("c") or [{}])[0].get("k") == "CXXThisExpr")

    def unit_field(self, n):
        if n is not None and F.is_this_field(n) and n["member"] in self.idx and \
                strip_targs(n.get("owner", "")) == GKF:
            return n["member"]
        return None

    # ---- value helpers
    @staticmethod
    def _set(vals, i, v):
        l = list(vals)
        l[i] = v
        return tuple(l)

    def assigned_value(self, rhs):
        """abstract value written by `field = rhs`"""
        r = _strip(rhs)
        while r is not None and r.get("k") == "BinaryOperator" and r.get("op") == "=":
            r = _strip(r["c"][1])
        if r is None:
            return ("F", "u")
        if _zero_const(r):
            return ("C", "z")
        k = r.get("k")
        if k in ("IntegerLiteral", "FloatingLiteral", "CXXBoolLiteralExpr"):
            return ("F", "n")
        if k == "CXXNewExpr":
            return ("F", "n")
        if k == "StringLiteral":
            return ("F", "n")
        if k in ("CXXConstructExpr", "CXXTemporaryObjectExpr") and \
                not [x for x in (r.get("c") or []) if x.get("k") != "CXXDefaultArgExpr"]:
            return ("C", "z")                       # default-constructed value
        return ("F", "u")

    def use_kind(self, fn, n):
        """How the occurrence n of a unit field is used: 'target' (pure overwrite, effect at an
        ancestor), 'reset' / 'rmw' / 'read' for method calls on it, 'outparam', 'read'."""
        p = fn.parent(n)
        if p is None:
            return "read", None
        k = p.get("k")
        c = p.get("c") or []
        if k == "BinaryOperator" and p.get("op") == "=" and c and c[0] is n:
            return "target", p
        if k == "CompoundAssignOperator" and c and c[0] is n:
            return "rmw", p
        if k == "UnaryOperator" and p.get("op") in ("++", "--"):
            return "rmw", p
        if k == "CXXOperatorCallExpr" and len(c) > 1 and c[1] is n and p.get("memberOp"):
            if p.get("op") == "=":
                return "target", p
            if not _callee_is_const(p):
                return "rmw", p
            return "read", p
        if k == "MemberExpr" and p.get("mk") == "method":
            g = fn.parent(p)
            if g is not None and g.get("k") == "CXXMemberCallExpr":
                name = p.get("member")
                args = F.call_args(g)
                if name == "clear" and not args:
                    return "reset", g
                if name == "erase" and len(args) == 2 and self._is_begin_end(args):
                    return "reset", g
                if _callee_is_const(g):
                    return "read", g
                return "rmw", g
        if is_call(p) and k not in ("CXXConstructExpr", "CXXTemporaryObjectExpr"):
            _recv, args = _call_parts(p)
            pt = _param_types(self.fx, p)
            for i, a in enumerate(args):
                if a is n and i < len(pt) and _is_out_ref(pt[i]):
                    return "outparam", p
        return "read", p

    def _is_begin_end(self, args):
        names = []
        for a in args:
            a = _strip(a)
            if a is None or a.get("k") != "CXXMemberCallExpr":
                return False
            names.append(((a.get("c") or [{}])[0]).get("member"))
            if self.unit_field(F.call_object(a)) is None:
                return False
        return names == ["begin", "end"]

    def branch_calls(self, fn):
        """call id -> (block, positive polarity) for calls whose value decides a branch"""
        if fn.key in self._branch_calls:
            return self._branch_calls[fn.key]
        out = {}
        for bid in fn.cfg.blocks:
            v = _branch_value(fn, bid)
            if v is None:
                continue
            inner, pos = _polarity(v)
            if inner is not None and is_call(inner):
                out[inner["id"]] = (bid, pos)
        self._branch_calls[fn.key] = out
        return out

    def field_test(self, cond):
        """(field, truthy successor index) if the branch value tests one unit field against zero;
        (field, successor index, 'nz-only') if an ordering test with an integer literal implies
        that the field is non-zero on that successor (`idim < 1` false => idim != 0)."""
        inner, pos = _polarity(cond)
        if inner is None:
            return None
        if inner.get("k") == "BinaryOperator" and inner.get("op") in ("<", "<=", ">", ">=") and \
                len(inner.get("c") or []) == 2:
            a, b = inner["c"]
            op = inner["op"]
            fa, fb = self.unit_field(_strip(a)), self.unit_field(_strip(b))
            lit = None
            if fa is not None and fb is None:
                lit, fld = _strip(b), fa
            elif fb is not None and fa is None:
                lit, fld = _strip(a), fb
                op = {"<": ">", "<=": ">=", ">": "<", ">=": "<="}[op]        # K op f  ==  f op' K
            if lit is not None and lit.get("k") == "IntegerLiteral":
                kk = int(lit["v"])
                # f op K : on which outcome is f certainly non-zero?
                nz_true = (op == "<" and kk <= 0) or (op == "<=" and kk < 0) or \
                          (op == ">" and kk >= 0) or (op == ">=" and kk > 0)
                nz_false = (op == "<" and kk >= 1) or (op == "<=" and kk >= 0) or \
                           (op == ">" and kk <= -1) or (op == ">=" and kk <= 0)
                if not pos:
                    nz_true, nz_false = nz_false, nz_true
                if nz_true:
                    return fld, 0, "nz-only"
                if nz_false:
                    return fld, 1, "nz-only"
            return None
        f = self.unit_field(inner)
        if f is not None:
            return f, (0 if pos else 1)
        k = inner.get("k")
        c = inner.get("c") or []
        if k == "BinaryOperator" and inner.get("op") in ("==", "!=") and len(c) == 2:
            for a, b in ((c[0], c[1]), (c[1], c[0])):
                f = self.unit_field(_strip(a))
                if f is not None and _zero_const(b):
                    eq = inner["op"] == "=="
                    truthy_on_true = not eq
                    if not pos:
                        truthy_on_true = not truthy_on_true
                    return f, (0 if truthy_on_true else 1)
        if k == "CXXOperatorCallExpr" and inner.get("op") in ("==", "!=") and len(c) == 3:
            for a, b in ((c[1], c[2]), (c[2], c[1])):
                f = self.unit_field(_strip(a))
                if f is not None and _is_empty_string_lit(b):
                    eq = inner["op"] == "=="
                    truthy_on_true = not eq
                    if not pos:
                        truthy_on_true = not truthy_on_true
                    return f, (0 if truthy_on_true else 1)
        if k == "CXXMemberCallExpr" and ((inner.get("c") or [{}])[0]).get("member") == "empty":
            f = self.unit_field(F.call_object(inner))
            if f is not None:
                truthy_on_true = False
                if not pos:
                    truthy_on_true = True
                return f, (0 if truthy_on_true else 1)
        return None

    def state_test(self, cond, sv):
        """successor index taken when the branch value compares the parser state with a constant"""
        inner, pos = _polarity(cond)
        if inner is None or sv is None:
            return None
        if inner.get("k") == "BinaryOperator" and inner.get("op") in ("==", "!="):
            a, b = inner["c"]
            for x, y in ((a, b), (b, a)):
                if self.is_state(_strip(x)):
                    v = self.fsm._const_of(y)
                    if v is None:
                        return None
                    res = (sv == v) if inner["op"] == "==" else (sv != v)
                    if not pos:
                        res = not res
                    return 0 if res else 1
        return None

    # ---- one function, one input token
    def run(self, fn, tok, pins=None):
        pins = pins or {}
        mkey = (fn.key, tok, tuple(sorted(pins.items())))
        if mkey in self.memo:
            return self.memo[mkey]
        if mkey in self.active:
            raise AnalysisBroken("recursion among parser handlers at %s" % fn.short)
        self.active.add(mkey)
        try:
            out = self._run(fn, tok, pins)
        finally:
            self.active.discard(mkey)
        self.memo[mkey] = out
        return out

    def ret_class(self, expr, tok, last_call, last_rets, var_rets=None):
        """Return-value classes of `return expr;` for one token: 0 (zero), 'nz', '?'.  Keeps the
        error exits of a callee apart from its normal exits in `if (handler(atts)) return 1;`."""
        e = _strip(expr)
        if e is None:
            return {"?"}
        k = e.get("k")
        if k in ("IntegerLiteral", "CXXBoolLiteralExpr"):
            return {0 if _zero_const(e) else "nz"}
        if last_call is not None and e.get("id") == last_call:
            return set(last_rets.get(tok, {"?"}))
        if k == "DeclRefExpr" and var_rets and e["ref"].get("decl") in var_rets:
            return set(var_rets[e["ref"]["decl"]].get(tok, {"?"}))
        if k == "BinaryOperator" and e.get("op") == "=" and self.is_state(e["c"][0]):
            v = self.fsm._const_of(e["c"][1])
            if v is not None:
                return {0 if v == 0 else "nz"}
        return {"?"}

    def _read(self, fn, node, field, tokens):
        res = set()
        key = (fn.short, field)
        i = self.idx[field]
        for sv, vals in tokens:
            age = vals[i][0]
            self.reads.setdefault(key, set()).add(age)
            if age == "S":
                self.stale.setdefault(key, fn.where(node))
                vals = self._set(vals, i, ("F", vals[i][1]))      # reported once per lineage
            res.add((sv, vals))
        return res

    def _write(self, field, tokens, value, weak=False):
        i = self.idx[field]
        res = set()
        for sv, vals in tokens:
            if weak:
                res.add((sv, vals))
            res.add((sv, self._set(vals, i, value)))
        return res

    def _run(self, fn, tok, pins):
        self.ctx.saw(fn)
        cfg = fn.cfg
        nodes = fn.nodes
        bcalls = self.branch_calls(fn)
        IN = {b: set() for b in cfg.blocks}
        IN[cfg.entry] = {tok}
        work = [cfg.entry]
        exits = set()
        ret_pairs = set()      # (token, return class) recorded at return statements
        var_rets = {}          # local holding the result of a same-class call: decl -> {token: classes}
        while work:
            self.steps += 1
            if self.steps > 2000000:
                raise AnalysisBroken("scratch analysis did not converge (%s)" % fn.short)
            b = work.pop()
            toks = set(IN[b])
            blk = cfg.blocks[b]
            edge_writes = []      # (field, true successor index) for converter calls deciding this branch
            last_call, last_rets = None, {}
            for e in blk.get("el", []):
                if not isinstance(e, int) or not toks:
                    continue
                n = nodes.get(e)
                if n is None:
                    continue
                k = n.get("k")
                if k == "ReturnStmt":
                    rv = (n.get("c") or [n.get("value")])[0] if (n.get("c") or n.get("value")) else None
                    for t in toks:
                        for r in self.ret_class(rv, t, last_call, last_rets, var_rets):
                            ret_pairs.add((t, r))
                    continue
                if k == "DeclStmt" and last_call is not None:
                    for d in n.get("decls", []) or []:
                        init = _strip(d.get("init"))
                        if init is not None and init.get("id") == last_call and "decl" in d:
                            dst = var_rets.setdefault(d["decl"], {})
                            for t_, rs_ in last_rets.items():
                                dst.setdefault(t_, set()).update(rs_)
                    continue
                f = self.unit_field(n)
                if f is not None:
                    kind, anc = self.use_kind(fn, n)
                    if kind in ("read", "rmw"):
                        toks = self._read(fn, n, f, toks)
                    elif kind == "outparam":
                        if _callee(anc) not in self.converters:
                            toks = self._read(fn, n, f, toks)
                    continue
                if k == "BinaryOperator" and n.get("op") == "=":
                    lhs, rhs = n["c"]
                    if self.is_state(lhs):
                        v = self.fsm._const_of(rhs)
                        if v is None:
                            raise AnalysisBroken("%s: non-constant assignment to the parser state" % fn.short)
                        toks = {(v, vals) for _sv, vals in toks}
                        continue
                    f = self.unit_field(lhs)
                    if f is not None:
                        toks = self._write(f, toks, self.assigned_value(rhs))
                    continue
                if k in ("CompoundAssignOperator", "UnaryOperator") and n.get("c"):
                    f = self.unit_field(n["c"][0])
                    if f is not None and (k == "CompoundAssignOperator" or n.get("op") in ("++", "--")):
                        toks = self._write(f, toks, ("F", "u"))
                    continue
                if not is_call(n):
                    continue
                if k == "CXXOperatorCallExpr" and n.get("memberOp") and len(n.get("c") or []) > 1:
                    f = self.unit_field(n["c"][1])
                    if f is not None:
                        if n.get("op") == "=":
                            toks = self._write(f, toks, self.assigned_value(n["c"][2]) if len(n["c"]) > 2 else ("F", "u"))
                        elif not _callee_is_const(n):
                            toks = self._write(f, toks, ("F", "u"))
                        continue
                if k == "CXXMemberCallExpr":
                    recv = F.call_object(n)
                    f = self.unit_field(recv)
                    if f is not None:
                        kind, _a = self.use_kind(fn, recv)
                        if kind == "reset":
                            toks = self._write(f, toks, ("C", "z"))
                        elif kind == "rmw":
                            toks = self._write(f, toks, ("F", "u"))
                        continue
                    if recv is not None and recv.get("k") == "CXXThisExpr" and \
                            strip_targs(n.get("calleeClass") or "") in PARSER_HIER:
                        callee = _callee(n)
                        if callee == ERROR_FN:
                            toks = set()               # the error state is absorbing (R-FSM F3)
                            continue
                        args = F.call_args(n)
                        pt = _param_types(self.fx, n)
                        outs = [(i, self.unit_field(a)) for i, a in enumerate(args)
                                if i < len(pt) and _is_out_ref(pt[i]) and self.unit_field(a) is not None]
                        if outs:
                            if callee in self.converters and n["id"] in bcalls and bcalls[n["id"]][0] == b:
                                pos = bcalls[n["id"]][1]
                                for _i, of in outs:
                                    edge_writes.append((of, 0 if pos else 1))
                            else:
                                for _i, of in outs:
                                    toks = self._write(of, toks, ("F", "u"), weak=True)
                            continue
                        cal = self.fx.functions.get(n.get("calleeKey") or "")
                        if cal is not None and cal.body is not None and self.touches(cal):
                            new = set()
                            last_call, last_rets = n["id"], {}
                            for t in toks:
                                for t2, r in self.run(cal, t):
                                    new.add(t2)
                                    last_rets.setdefault(t2, set()).add(r)
                            toks = new
                        continue
                # any other call that receives a unit field by non-const reference: may write
                _recv, args = _call_parts(n)
                pt = _param_types(self.fx, n)
                for i, a in enumerate(args):
                    f = self.unit_field(a)
                    if f is not None and i < len(pt) and _is_out_ref(pt[i]):
                        toks = self._write(f, toks, ("F", "u"), weak=True)
            # ---- successors
            succs = blk.get("succ") or []
            if b == cfg.exit:
                exits |= toks
                continue
            real = [(i, s) for i, s in enumerate(succs) if s is not None and s >= 0]
            if not real or not toks:
                continue
            out_edges = {}        # successor -> tokens
            if blk.get("termK") == "CXXTryStmt":
                continue
            if blk.get("termK") == "SwitchStmt" and blk.get("cond") is not None:
                cond = nodes.get(blk["cond"])
                labels, default = {}, None
                for _i, s in real:
                    lab = nodes.get(cfg.blocks[s].get("label")) if cfg.blocks[s].get("label") else None
                    if lab is not None and lab.get("k") == "CaseStmt" and "v" in lab:
                        labels.setdefault(lab["v"], s)
                    else:
                        default = s
                for t in toks:
                    sel = None
                    if cond is not None and self.is_state(_strip(cond)):
                        sel = t[0]
                    elif cond is not None and cond.get("k") == "DeclRefExpr" and cond["ref"].get("decl") in pins:
                        sel = pins[cond["ref"]["decl"]]
                    if sel is None:
                        for _i, s in real:
                            out_edges.setdefault(s, set()).add(t)
                    else:
                        tgt = labels.get(sel, default)
                        if tgt is not None:
                            out_edges.setdefault(tgt, set()).add(t)
            elif len(succs) == 2:
                cond = _branch_value(fn, b)
                ft = self.field_test(cond) if cond is not None else None
                on_call = None         # the branch tests the value of the same-class call just made
                on_rets = last_rets
                if cond is not None:
                    inner, pos = _polarity0(cond)
                    if inner is not None and last_call is not None and inner.get("id") == last_call:
                        on_call = pos
                    elif inner is not None and inner.get("k") == "DeclRefExpr" and inner["ref"].get("decl") in var_rets:
                        on_call = pos
                        on_rets = var_rets[inner["ref"]["decl"]]
                for t in toks:
                    st = self.state_test(cond, t[0]) if cond is not None else None
                    for i, s in real:
                        if st is not None and i != st:
                            continue
                        if on_call is not None:
                            rcs = on_rets.get(t, {"?"})
                            nonzero_edge = 0 if on_call else 1
                            if i == nonzero_edge and not (rcs & {"nz", "?"}):
                                continue
                            if i != nonzero_edge and not (rcs & {0, "?"}):
                                continue
                        t2 = t
                        if ft is not None and len(ft) == 3:
                            fld, nz_i, _tag = ft
                            j = self.idx[fld]
                            age, truth = t2[1][j]
                            if i == nz_i:
                                if truth == "z":
                                    continue
                                t2 = (t2[0], self._set(t2[1], j, (age, "n")))
                        elif ft is not None:
                            fld, truthy_i = ft
                            j = self.idx[fld]
                            age, truth = t2[1][j]
                            if i == truthy_i:
                                if truth == "z":
                                    continue
                                t2 = (t2[0], self._set(t2[1], j, (age, "n")))
                            else:
                                if truth == "n":
                                    continue
                                t2 = (t2[0], self._set(t2[1], j, ("C", "z")))
                        for fld, true_i in edge_writes:
                            if i == true_i:
                                t2 = (t2[0], self._set(t2[1], self.idx[fld], ("F", "u")))
                        out_edges.setdefault(s, set()).add(t2)
            else:
                for _i, s in real:
                    out_edges.setdefault(s, set()).update(toks)
            for s, ts in out_edges.items():
                if not ts <= IN[s]:
                    IN[s] |= ts
                    work.append(s)
        out = {p for p in ret_pairs if p[0] in exits}
        for t in exits:
            if not any(p[0] == t for p in out):
                out.add((t, "?"))
        return frozenset(out)

    # ---- the automaton
    def age_scope(self, vals, tag):
        l = list(vals)
        for f, i in self.idx.items():
            if tag in self.scopes.get(f, ()):
                if l[i][0] == "F":
                    l[i] = ("S", l[i][1])
        return tuple(l)

    def explore(self, max_depth=12):
        m = self.m
        tag_decl = None
        for n in m.start_fn.walk():
            if n.get("k") == "DeclStmt":
                for d in n.get("decls", []):
                    if d.get("name") == m.tag_local:
                        tag_decl = d["decl"]
        init_vals = tuple(self.init[f] for f in self.fields)
        start = (m.start_state, ())
        store = {start: {init_vals}}
        work = [start]
        rounds = 0
        while work:
            rounds += 1
            if rounds > 200000:
                raise AnalysisBroken("scratch exploration did not converge")
            cfgk = work.pop()
            s, st = cfgk
            if len(st) > max_depth:
                raise AnalysisBroken("GKFparser automaton: nesting deeper than %d" % max_depth)
            for vals in list(store[cfgk]):
                succs = []
                # character data between any two events
                for (sv, v2), _r in self.run(m.chr_fn, (s, vals)):
                    if sv != m.error:
                        succs.append(((sv, st), v2))
                for t in m.tags:
                    v0 = self.age_scope(vals, t)
                    for (sv, v2), _r in self.run(m.start_fn, (s, v0), {tag_decl: t}):
                        if sv != m.error:
                            succs.append(((sv, st + (t,)), v2))
                if st:
                    for (sv, v2), _r in self.run(m.end_fn, (s, vals)):
                        if sv != m.error:
                            succs.append(((sv, st[:-1]), self.age_scope(v2, st[-1])))
                for c2, v2 in succs:
                    cur = store.setdefault(c2, set())
                    if v2 not in cur:
                        cur.add(v2)
                        work.append(c2)
        return store


def scratch_fields(ctx):
    """Derived set: non-reference fields declared by GKFparser that a method reachable from the
    three expat callbacks writes and that some such method reads."""
    fx = ctx.facts
    rec = fx.cls(GKF)
    decl = {f["name"]: f for f in rec.get("fields", [])}
    roots = [fx.fn(GKF + "::startElement"), fx.fn(GKF + "::endElement"), fx.fn(GKF + "::characterDataHandler")]
    reach = {}
    stack = list(roots)
    while stack:
        f = stack.pop()
        if f.key in reach or f.body is None:
            continue
        reach[f.key] = f
        for n in f.calls():
            if n.get("k") == "CXXMemberCallExpr" and strip_targs(n.get("calleeClass") or "") == GKF:
                cal = fx.functions.get(n.get("calleeKey") or "")
                if cal is not None:
                    stack.append(cal)
    written, read = {}, {}
    probe = ScratchUnit.__new__(ScratchUnit)
    probe.fx = fx
    for f in reach.values():
        for n in f.walk():
            if not F.is_this_field(n) or n["member"] not in decl or strip_targs(n.get("owner", "")) != GKF:
                continue
            probe.idx = {n["member"]: 0}
            kind, _a = ScratchUnit.use_kind(probe, f, n)
            if kind in ("target", "reset", "rmw", "outparam"):
                written.setdefault(n["member"], set()).add(f.short)
            if kind in ("read", "rmw"):
                read.setdefault(n["member"], set()).add(f.short)
    out = {}
    for name, fr in decl.items():
        if fr["t"].rstrip().endswith("&"):
            continue
        if name in written and name in read:
            out[name] = {"t": fr["t"], "hasInit": bool(fr.get("hasInit")),
                         "writers": sorted(written[name]), "readers": sorted(read[name])}
    return out, reach


def _initial_value(ctx, name, info):
    """Abstract value of a field after construction."""
    fx = ctx.facts
    ctors = [f for f in fx.methods_of(GKF) if f.name == "GKFparser" and f.body is not None]
    if not ctors:
        raise AnalysisBroken("GKFparser constructor not found")
    val = None
    for c in ctors:
        for init in c.rec.get("inits", []) or []:
            if init.get("field") == name:
                val = ("C", "z" if _zero_or_default(init.get("init")) else "u")
        for n in c.walk():
            if n.get("k") == "BinaryOperator" and n.get("op") == "=" and F.is_this_field(n["c"][0], name):
                val = ("C", "z" if _zero_or_default(n["c"][1]) else "u")
    if val is not None:
        return val
    if info["hasInit"]:
        return ("C", "u")
    if not _is_scalar_type(info["t"]):
        return ("C", "z")                 # class type: default constructed (empty)
    return ("S", "u")                     # indeterminate: reading it before a write is a violation


def check_converter_contract(ctx, qn):
    """The analysis treats `if (conv(str, member))` as: member written iff conv returned true.
    Verified on the converter: every `return true` is dominated by a write of the reference
    parameter and no write of it reaches a `return false`."""
    fx = ctx.facts
    fn = fx.fn(qn)
    ctx.saw(fn)
    outs = [p for p in fn.params if _is_out_ref(p["t"])]
    if len(outs) != 1:
        raise AnalysisBroken("%s: expected exactly one non-const reference parameter" % qn)
    vk = ("l", outs[0]["decl"])
    writes = _writes_of(fn, vk) + _out_param_writes(fx, fn, vk)
    cfg = fn.cfg
    for r in fn.walk():
        if r.get("k") != "ReturnStmt":
            continue
        v = _strip((r.get("c") or [r.get("value")])[0]) if (r.get("c") or r.get("value")) else None
        if v is None or v.get("k") != "CXXBoolLiteralExpr":
            raise AnalysisBroken("%s: return value is not a boolean literal, the out-parameter contract "
                                 "cannot be established" % qn)
        truth = v.get("v") in (True, "true", 1)
        if truth and not any(cfg.dominates(w, r) for w in writes):
            raise AnalysisBroken("%s returns true on a path that does not write its out-parameter" % qn)
        if not truth:
            pr = cfg.block_of(r)
            for w in writes:
                pw = cfg.block_of(w)
                if pw is None or pr is None:
                    continue
                if (pw[0] == pr[0] and pw[1] < pr[1]) or any(
                        pr[0] in cfg.reachable_blocks_from(x) for x in cfg.succ.get(pw[0], [])):
                    raise AnalysisBroken("%s writes its out-parameter on a path that returns false" % qn)


def rule_attr_scratch(ctx):
    rule = "R-ATTR"
    fx = ctx.facts
    tb = table()["scratch"]
    model = gkf_model(ctx)
    for qn in table()["scratch_out_param_converters"]:
        check_converter_contract(ctx, qn)
    derived, reach = scratch_fields(ctx)
    missing = sorted(set(derived) - set(tb))
    if missing:
        raise AnalysisBroken("scratch member(s) %s of GKFparser have no protocol row in tables/attr.json "
                             "(writers %s)" % (missing, {m: derived[m]["writers"] for m in missing}))
    n_fields = 0
    n_inst = 0
    for name in sorted(derived):
        row = tb[name]
        info = derived[name]
        guard = row.get("with") or []
        for g in guard:
            if g not in derived:
                raise AnalysisBroken("member %s analysed jointly with %s is not a scratch member" % (g, name))
        unit = list(guard) + [name]
        scopes = {}
        for f in unit:
            tags = set()
            for el in tb[f]["scope"]:
                if el not in model.tag_names:
                    raise AnalysisBroken("scope element <%s> of %s is not a tag of the parser" % (el, f))
                tags.add(model.tag_names[el])
            scopes[f] = tags
        init = {f: _initial_value(ctx, f, derived[f]) for f in unit}
        su = ScratchUnit(ctx, model, unit, scopes, init)
        su.explore()
        n_fields += 1
        fns = sorted({k[0] for k in su.reads if k[1] == name})
        for fshort in fns:
            n_inst += 1
            key = "%s:reads:%s" % (fshort, name)
            fn = [f for f in reach.values() if f.short == fshort]
            where = su.stale.get((fshort, name)) or (fn[0].where() if fn else "")
            if (fshort, name) in su.stale:
                ctx.bad(rule, key, where, fshort,
                        msg="%s reads parser member '%s' holding a value written while a previous <%s> element was "
                            "processed (or never initialised): nothing on this path wrote or reset it for the "
                            "current element" % (fshort, name, "|".join(row["scope"])),
                        detail={"scope": row["scope"], "guard": guard, "initial": init[name],
                                "ages_seen": sorted(su.reads[(fshort, name)])})
            else:
                ctx.ok(rule, key, where, fshort,
                       detail={"scope": row["scope"], "guard": guard, "protocol": row.get("protocol"),
                               "ages_seen": sorted(su.reads[(fshort, name)])})
    ctx.floor(rule, table()["floors"]["scratch_fields"], n_fields, "GKFparser scratch members analysed")
    ctx.floor(rule, table()["floors"]["scratch_reads"], n_inst, "(reader function, scratch member) pairs")
