"""R-PROGRESS: a propagation loop's progress flag is raised after every state-changing step.

gama computes missing approximate coordinates by propagation: a loop goes over the observations that are
still unusable, every observation with exactly one known end determines the other end, and the loop is
repeated *while the last pass made progress*:

    do { updated = false;  for (obs ...) if (...) { to.set_z(...); updated = true; } ... } while (updated && ...);

(g3 `Init::approx_xyz_height` with the flag as a member raised in the `visit` callbacks, the local
acord classes AcordHdiff / AcordVector / ApproximateHeights / ApproximateVectors with a local flag).
If one branch determines a point and does not raise the flag, the loop stops after a pass that *did* make
progress and observations that became usable are never revisited: whether a point gets coordinates then
depends on the order of the records (C19: "for any order of the input records"; C14: a determinable point
is removed as indeterminable; C06).

Decided statically, per progress loop found in the sources (nothing is executed):
  * a *progress loop* is a do/while/for statement whose condition reads a bool variable F (local or member of
    the enclosing class) that the loop body assigns the literal `false`;
  * its *scope* is the loop body and, for a member flag, every other method of the class (the callbacks);
  * every call in scope of a *point setter* (table `setters`: the functions that give a point a coordinate)
    must be followed, on every path to the next evaluation of the loop condition (callbacks: to the function
    exit), by an assignment to F of something other than the literal `false`.  Paths that leave the loop by
    `return`/`throw` have no obligation.
Not decided: that the loop terminates, that the values set are right.
"""
import engine
import facts as F
from facts import AnalysisBroken, strip_targs

RULE = "R-PROGRESS"
_LOOPS = ("DoStmt", "WhileStmt", "ForStmt")


def _unwrap(n):
    while n is not None and n.get("k") in ("ParenExpr", "ImplicitCastExpr", "ExprWithCleanups") and n.get("c"):
        n = n["c"][0]
    return n


def _var_id(n):
    """Identity of a bool variable reference: ('L', decl) for locals, ('F', owner, name) for this-members."""
    n = _unwrap(n)
    if n is None or n.get("t") not in ("bool", "_Bool"):
        return None
    if n.get("k") == "DeclRefExpr" and n["ref"].get("dk") == "local":
        return ("L", n["ref"].get("decl"), n["ref"].get("name"))
    if n.get("k") == "MemberExpr" and F.is_this_field(n):
        return ("F", strip_targs(n.get("owner", "")), n.get("member"))
    return None


def _assignments(fn, var, stop_value=False):
    """[(node, is_stop_literal)] of the assignments to var in fn; the stop literal is the value with which
    the loop condition ends the loop (`false` for `while (F ..)`, `true` for `while (!F ..)`)."""
    out = []
    for n in fn.walk():
        if n.get("k") == "BinaryOperator" and n.get("op") == "=" and len(n.get("c") or []) == 2:
            if _var_id(n["c"][0]) == var:
                r = _unwrap(n["c"][1])
                out.append((n, r.get("k") == "CXXBoolLiteralExpr" and bool(r.get("v")) == stop_value))
        elif n.get("k") == "CompoundAssignOperator" and len(n.get("c") or []) == 2 and _var_id(n["c"][0]) == var:
            # `updated |= true` / `finished &= false` raise the flag; other compound forms are neither
            r = _unwrap(n["c"][1])
            lit = r.get("v") if r.get("k") == "CXXBoolLiteralExpr" else None
            if (n.get("op") == "|=" and not stop_value and lit is not False) or \
                    (n.get("op") == "&=" and stop_value and lit is not True):
                out.append((n, False))
    return out


def _negated(fn, ref, cond):
    """The reference to the flag inside the condition stands under an odd number of `!`."""
    neg = False
    n = ref
    while n is not None and n is not cond:
        p = fn.parent(n)
        if p is not None and p.get("k") == "UnaryOperator" and p.get("op") == "!":
            neg = not neg
        n = p
    return neg


def _cond_of(loop):
    return loop.get("cond")


def _inside(fn, node, anc):
    if node is anc:
        return True
    for a in fn.ancestors(node):
        if a is anc:
            return True
    return False


def _name(var):
    return var[2]


def rule_progress(ctx):
    fx = ctx.facts
    table = engine.load_table("prog.json")
    setters = set(table["setters"])
    for s in setters:
        fx.fn(s)                                      # vanished setter -> analysis broken
    loops = []                                        # (fn, loop node, var)
    for fn in fx.functions.values():
        if fn.body is None or fn.cfg is None:
            continue
        for n in fn.walk():
            if n.get("k") not in _LOOPS or _cond_of(n) is None:
                continue
            vars_in_cond = {}
            for m in F.walk(_cond_of(n)):
                v = _var_id(m)
                if v is not None:
                    vars_in_cond[v] = m
            for v, ref in vars_in_cond.items():
                body = n.get("body")
                if body is None:
                    continue
                stop = _negated(fn, ref, _cond_of(n))        # while (!finished): `true` ends the loop
                resets = [a for a, isstop in _assignments(fn, v, stop) if isstop and _inside(fn, a, body)]
                if resets:
                    loops.append((fn, n, v, stop))
    seen_keys = {}
    n_sites = 0
    n_loops_with_sites = 0
    done = set()
    for fn, loop, var, stop in sorted(loops, key=lambda x: (x[0].file, x[0].line, x[0].key)):
        ident = (fn.key, loop.get("id"), var)
        if ident in done:
            continue
        done.add(ident)
        ctx.saw(fn)
        scopes = [(fn, loop.get("body"), "loop")]
        if var[0] == "F":
            # callbacks of a member flag: the methods of the class the loop body calls directly, and - when the
            # body hands `this` to a callee (accept(this)) - the methods that override a virtual of a base class
            body = loop.get("body")
            direct, hands_this = set(), False
            for m in F.walk(body):
                if F.is_call(m):
                    if m.get("calleeKey"):
                        direct.add(m["calleeKey"])
                    for a in F.call_args(m):
                        if _unwrap(a) is not None and _unwrap(a).get("k") == "CXXThisExpr":
                            hands_this = True
            for g in fx.functions.values():
                if g.cls and strip_targs(g.cls) == var[1] and g.file == fn.file and g.key != fn.key and \
                        g.body is not None and g.cfg is not None and not g.rec.get("inits"):
                    if g.key in direct or (hands_this and g.rec.get("overrides")):
                        scopes.append((g, g.body, "callback"))
        sites_here = 0
        for g, region, kind in scopes:
            cfg = g.cfg
            assigns = _assignments(g, var, stop)
            raises = [a for a, isstop in assigns if not isstop]
            resets = [a for a, isstop in assigns if isstop]
            raise_pos = [cfg.pos.get(a.get("id")) or cfg.block_of(a) for a in raises]
            raise_pos = [p for p in raise_pos if p is not None]
            if kind == "loop":
                cp = cfg.block_of(_cond_of(loop))
                if cp is None:
                    raise AnalysisBroken("%s: loop condition of %s not in the CFG" % (RULE, fn.short))
                targets, tpos = {cp[0]}, cp
            else:
                targets, tpos = {cfg.exit}, None
            for call in g.calls():
                if strip_targs(call.get("callee") or "") not in setters or not _inside(g, call, region):
                    continue
                if kind == "callback":
                    ctx.saw(g)
                sp = cfg.pos.get(call.get("id")) or cfg.block_of(call)
                if sp is None:
                    raise AnalysisBroken("%s: setter call in %s not in the CFG" % (RULE, g.short))
                sites_here += 1
                n_sites += 1
                same_after = [p for p in raise_pos if p[0] == sp[0] and p[1] > sp[1]]
                if tpos is not None and tpos[0] == sp[0] and tpos[1] > sp[1]:
                    ok = any(p[1] < tpos[1] for p in same_after)       # condition follows in the same block
                elif same_after:
                    ok = True
                else:
                    avoid = {p[0] for p in raise_pos if p[0] != sp[0]}
                    ok = True
                    for s in cfg.succ.get(sp[0], []):
                        if cfg.paths_avoiding(s, avoid, targets):
                            ok = False
                            break
                if not ok:
                    # raised earlier in the same pass: a raise inside the region that is executed on every path
                    # to the setter, with no reset in between
                    for r in raises:
                        if _inside(g, r, region) and cfg.dominates(r, call) and not any(
                                cfg.dominates(r, x) and cfg.dominates(x, call) for x in resets):
                            ok = True
                            break
                obj = F.call_object(call)
                key = "%s:%s:%s.%s" % (F.short(g.sig) if getattr(g, "sig", None) else g.short, _name(var), F.expr_text(obj) if obj is not None else "?",
                                       (call.get("callee") or "").rsplit("::", 1)[-1])
                seen_keys[key] = seen_keys.get(key, 0) + 1
                if seen_keys[key] > 1:
                    key += "#%d" % seen_keys[key]
                ctx.report(RULE, key, ok, g.where(call), g.short,
                           msg="" if ok else
                           "the point setter is not followed on every path by raising the progress flag `%s` of the "
                           "propagation loop in %s: a pass that determined this point can end the loop, and "
                           "observations that became usable are never revisited (result depends on record order)"
                           % (_name(var), fn.short),
                           detail={"loop_in": fn.short, "flag": _name(var), "scope": kind,
                                   "raises_in_function": len(raises)})
        if sites_here:
            n_loops_with_sites += 1
    fl = table.get("floors", {})
    ctx.floor(RULE, fl.get("loops", 1), n_loops_with_sites, "propagation loops with a progress flag and point setters")
    ctx.floor(RULE, fl.get("sites", 1), n_sites, "point-setter calls under a progress flag")
    return {"loops": n_loops_with_sites, "sites": n_sites}
