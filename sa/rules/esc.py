"""R-ESC (escape discipline at markup sinks) and R-YSIGN (every writer restores the y sign).

Both rules are decided on the exported AST only.

R-ESC is a three-valued taint analysis (CLEAN < SANITISED < TAINTED) that is
  * flow-insensitive and field-based (one value per local, per class field),
  * inter-procedural through summaries of every callee whose body is in the fact base
    (the value of the returned expression as a function of the argument values),
  * whole-program for parameters (the value of a parameter is the join over the call
    sites found in the analysed sources), and
  * typed: an arithmetic / bool / enum expression is never tainted, an expression of a
    tainted type (PointID) always is.
A *sink* is a write into the markup produced by a writer scope: `operator<<` on a
stream that is not a local string-stream buffer, and `=`/`+=`/append on a markup buffer
(a std::string local that the function returns, a std::string& parameter, or a field the
table names as markup buffer, also through a local reference bound to it).  Every leaf
of a string concatenation written to a sink whose value is not CLEAN is one instance;
it holds iff the value is SANITISED.

R-YSIGN is a small sign algebra (Y = internal y, S = y-sign factor, R = restored y)
over arithmetic expressions; an instance is every place where a y-carrying value leaves
arithmetic (call argument, stream operand, store into a non-local, return).
"""
import re

import facts as F
from facts import AnalysisBroken, walk, is_call, strip_targs
import engine

CLEAN, SAN, TAINT = 0, 1, 2
LEVEL = {CLEAN: "clean", SAN: "sanitised", TAINT: "tainted"}

_ARITH = {"int", "unsigned int", "long", "unsigned long", "long long", "unsigned long long",
          "short", "unsigned short", "double", "float", "long double", "bool", "void",
          "std::nullptr_t", "unsigned", "size_t", "__int128", "unsigned __int128"}
_OSTREAMS = {"std::basic_ostream", "std::basic_ostringstream", "std::basic_ofstream",
             "std::basic_stringstream", "std::basic_fstream", "std::basic_iostream"}
_BUFFER_STREAMS = {"std::basic_ostringstream", "std::basic_stringstream"}
_STRING_T = "std::basic_string"
_MUTATORS = {"push_back", "append", "assign", "insert", "push_front", "emplace_back", "replace",
             "emplace", "emplace_front", "operator+=", "operator=", "str"}
_CASTS = ("CXXStaticCastExpr", "CStyleCastExpr", "CXXFunctionalCastExpr", "ImplicitCastExpr",
          "CXXReinterpretCastExpr", "CXXConstCastExpr", "CXXDynamicCastExpr")


def norm_type(t):
    """Canonical type without cv-qualifiers and references."""
    if not t:
        return ""
    t = re.sub(r"\b(const|volatile)\b", "", t)
    t = t.replace("&", "")
    return re.sub(r"\s+", " ", t).strip()


def base_type(t):
    """norm_type without template arguments and pointer stars."""
    return strip_targs(norm_type(t)).replace("*", "").strip()


def _split_top(s, sep=","):
    out, depth, cur = [], 0, ""
    for ch in s:
        if ch in "<(":
            depth += 1
        elif ch in ">)":
            depth -= 1
        if ch == sep and depth == 0:
            out.append(cur.strip())
            cur = ""
        else:
            cur += ch
    if cur.strip():
        out.append(cur.strip())
    return out


_SIG_CACHE = {}


def stable_sig(fx, fn):
    """fn.sig made independent of the template instantiation: all exported functions defined at the
    same source position are instantiations of one template; a parameter position whose type
    differs between them is rendered as $T (the exporter does not give the template pattern)."""
    ck = id(fx)
    idx = _SIG_CACHE.get(ck)
    if idx is None:
        idx = {}
        for f in fx.functions.values():
            idx.setdefault((f.file, f.line, f.qn, len(f.params)), []).append(f)
        _SIG_CACHE.clear()
        _SIG_CACHE[ck] = idx
    group = idx.get((fn.file, fn.line, fn.qn, len(fn.params)), [fn])
    if len(group) < 2:
        return fn.sig
    types = []
    for i, p in enumerate(fn.params):
        ts = {g.params[i].get("t") for g in group}
        types.append("$T" if len(ts) > 1 else F.short(p.get("t", "")))
    tail = fn.key[fn.key.rfind(")") + 1:]
    return "%s(%s)%s" % (F.short(fn.rec["qn"]), ", ".join(types), tail)


class Val:
    """Taint value: level, text of the root source expression, ambiguity of the root."""
    __slots__ = ("lv", "root", "amb")

    def __init__(self, lv=CLEAN, root=None, amb=False):
        self.lv, self.root, self.amb = lv, root, amb

    def __repr__(self):
        return "<%s %s>" % (LEVEL[self.lv], self.root)


V_CLEAN = Val()


def join(a, b):
    if a.lv > b.lv:
        return a
    if b.lv > a.lv:
        return b
    if a.lv == CLEAN:
        return a
    if a.root == b.root:
        return a
    return Val(a.lv, a.root, True)


def _unwrap(n):
    """Skip copy/move constructions, casts and unary * / & to reach the referenced object."""
    while n is not None:
        k = n.get("k")
        c = n.get("c") or []
        if k in ("CXXConstructExpr", "CXXTemporaryObjectExpr") and len(c) == 1 and \
                norm_type(n.get("t")) == norm_type(c[0].get("t")):
            n = c[0]
        elif k in _CASTS and c:
            n = c[0]
        elif k == "UnaryOperator" and n.get("op") in ("*", "&") and c:
            n = c[0]
        else:
            break
    return n


class FnCtx:
    """Evaluation context of one function: parameter environment (None = reporting mode:
    parameters take the join over their call sites) and the fixpoint of its locals."""

    def __init__(self, eng, fn, env=None):
        self.eng = eng
        self.fn = fn
        self.env = env
        self.locals = {}
        self.local_defs = None       # decl -> [rhs nodes]
        self.local_types = {}        # decl -> declared type
        self.local_names = {}
        self.ref_bind = {}           # decl of a reference local -> init node
        self.single_init = {}        # decl -> init node (locals never re-assigned): inlined in root text
        self._solved = False
        self.param_index = {p["decl"]: i for i, p in enumerate(fn.params)}

    # ---- definitions of locals
    def _collect(self):
        defs = {}
        assigned = set()
        fn = self.fn

        def add(decl, rhs, is_init=False):
            if decl is None or rhs is None:
                return
            defs.setdefault(decl, []).append(rhs)
            if not is_init:
                assigned.add(decl)

        inits = {}
        for n in fn.walk():
            k = n.get("k")
            if k == "DeclStmt":
                for d in n.get("decls", []):
                    self.local_types[d.get("decl")] = d.get("t", "")
                    self.local_names[d.get("decl")] = d.get("name")
                    if d.get("init") is not None:
                        add(d["decl"], d["init"], True)
                        inits[d["decl"]] = d["init"]
                        if "&" in (d.get("t") or ""):
                            self.ref_bind[d["decl"]] = d["init"]
                continue
            if (k == "UnaryOperator" and n.get("op") in ("++", "--")) or \
                    (k == "CXXOperatorCallExpr" and n.get("op") in ("++", "--", "+=", "-=")):
                c0 = n.get("c") or []
                t0 = _unwrap(c0[0] if k == "UnaryOperator" else (c0[1] if len(c0) > 1 else None))
                if t0 is not None and t0.get("k") == "DeclRefExpr" and t0["ref"].get("dk") == "local":
                    assigned.add(t0["ref"].get("decl"))
            tgt, rhs = self.eng.write_target(n)
            if tgt is None:
                continue
            tgt = _unwrap(tgt)
            if tgt.get("k") == "DeclRefExpr" and tgt["ref"].get("dk") == "local":
                for r in rhs:
                    add(tgt["ref"].get("decl"), r)
        # locals handed to a callee that writes into them (stream / string out-parameters)
        for n in fn.calls():
            for idx, a in self.eng.param_args(n):
                a0 = _unwrap(a)
                if a0.get("k") == "DeclRefExpr" and a0["ref"].get("dk") == "local":
                    t = self.local_types.get(a0["ref"].get("decl"), a0.get("t"))
                    if self.eng.is_container_type(t):
                        add(a0["ref"]["decl"], ("outparam", n, idx))
        self.local_defs = defs
        for d, init in inits.items():
            # compiler-generated range-for variables (__range1, __begin1) are always inlined
            if d not in assigned or (self.local_names.get(d) or "").startswith("__"):
                self.single_init[d] = init

    def solve(self):
        if self._solved:
            return
        self._solved = True
        if self.local_defs is None:
            self._collect()
        for _ in range(12):
            changed = False
            for decl, rhss in self.local_defs.items():
                cur = self.locals.get(decl, V_CLEAN)
                new = cur
                for r in rhss:
                    if isinstance(r, tuple):
                        v = self.eng.outparam_val(self, r[1], r[2])
                    else:
                        v = self.ev(r)
                    new = join(new, v)
                if new.lv != cur.lv or new.root != cur.root or new.amb != cur.amb:
                    self.locals[decl] = new
                    changed = True
            if not changed:
                break

    # ---- expression evaluation
    def ev(self, n):
        if n is None:
            return V_CLEAN
        eng = self.eng
        k = n.get("k")
        c = n.get("c") or []
        t = norm_type(n.get("t"))
        if t and eng.is_untaintable_type(t):
            return V_CLEAN
        if k in ("StringLiteral", "CharacterLiteral", "IntegerLiteral", "FloatingLiteral",
                 "CXXBoolLiteralExpr", "CXXNullPtrLiteralExpr", "CXXThisExpr", "LambdaExpr",
                 "CXXNewExpr", "CXXDefaultArgExpr"):
            return V_CLEAN
        by_type = eng.is_tainted_type(t)
        if k == "DeclRefExpr":
            r = n["ref"]
            dk = r.get("dk")
            if dk == "local":
                v = self.locals.get(r.get("decl"), V_CLEAN)
                if by_type and v.lv < TAINT:
                    return Val(TAINT, self.rtext(n))
                if v.lv and v.amb:
                    return Val(v.lv, r.get("name"))
                return v
            if dk == "parm":
                if by_type:
                    return Val(TAINT, r.get("name"))
                v = self.param_val(r.get("decl"))
                return Val(v.lv, r.get("name")) if v.lv and self.env is None else v
            return Val(TAINT, self.rtext(n)) if by_type else V_CLEAN
        if k == "MemberExpr":
            if n.get("mk") != "field":
                return V_CLEAN
            owner = strip_targs(n.get("owner", ""))
            name = n.get("member")
            if by_type or eng.is_tainted_field(owner, name):
                return Val(TAINT, self.rtext(n))
            v = eng.field_val(owner, name)
            if c and c[0].get("k") != "CXXThisExpr":
                v = join(v, self.ev(c[0]))
            return Val(v.lv, self.rtext(n)) if v.lv else v
        if is_call(n):
            v = self.ev_call(n)
            if by_type and v.lv < TAINT:
                return Val(TAINT, self.rtext(n))
            return v
        if k == "ConditionalOperator" and len(c) == 3:
            return join(self.ev(c[1]), self.ev(c[2]))
        if k == "BinaryOperator":
            op = n.get("op")
            if op in ("=", ","):
                return self.ev(c[1])
            return join(self.ev(c[0]), self.ev(c[1])) if len(c) == 2 else V_CLEAN
        if k == "CompoundAssignOperator":
            return join(self.ev(c[0]), self.ev(c[1])) if len(c) == 2 else V_CLEAN
        if k == "ArraySubscriptExpr" and c:
            return self.ev(c[0])
        v = V_CLEAN
        for ch in F.children(n):
            v = join(v, self.ev(ch))
        if by_type and v.lv < TAINT:
            return Val(TAINT, self.rtext(n))
        return v

    def ev_call(self, n):
        eng = self.eng
        callee = strip_targs(n.get("callee") or "")
        args = eng.value_args(n)
        # sanitiser
        if callee in eng.sanitizers:
            v = V_CLEAN
            for a in args:
                v = join(v, self.ev(a))
            return Val(SAN, v.root, v.amb) if v.lv else V_CLEAN
        if eng.is_tainted_call(callee):
            return Val(TAINT, self.rtext(n))
        argv = [self.ev(a) for a in args]
        obj = F.call_object(n)
        objv = self.ev(obj) if obj is not None else V_CLEAN
        fn = eng.fx.functions.get(n.get("calleeKey"))
        if fn is not None and fn.body is not None and n.get("k") not in (
                "CXXConstructExpr", "CXXTemporaryObjectExpr"):
            res = eng.summary(fn, argv)
            if res is not None:
                lv, pidx = res
                if pidx is not None and pidx < len(argv):
                    v = Val(lv, argv[pidx].root, argv[pidx].amb)
                elif lv:
                    v = Val(lv, objv.root if objv.lv >= lv else self.rtext(n))
                else:
                    v = V_CLEAN
                return join(v, objv) if objv.lv > v.lv else v
        v = objv
        for a in argv:
            v = join(v, a)
        return v

    def param_val(self, decl):
        i = self.param_index.get(decl)
        if i is None:
            return V_CLEAN
        if self.env is not None:
            return self.env[i] if i < len(self.env) else V_CLEAN
        return self.eng.param_join(self.fn, i)

    # ---- root text (stable part of the instance key)
    def text(self, n):
        """Literal rendering of an expression (for messages)."""
        self._noinline = True
        try:
            return self.rtext(n)
        finally:
            self._noinline = False

    _noinline = False
    _anon = False

    def fingerprint(self, n):
        """rtext with the locals that cannot be inlined rendered as `_`: independent of local names."""
        self._anon = True
        try:
            return self.rtext(n)
        finally:
            self._anon = False

    def rtext(self, n, depth=0):
        """F.expr_text with never re-assigned locals replaced by their initialiser, so that the
        text does not depend on the spelling of such locals."""
        if n is None:
            return ""
        k = n.get("k")
        if k == "DeclRefExpr" and n["ref"].get("dk") == "local" and depth < 12 and not self._noinline:
            if self.local_defs is None:
                self._collect()
            init = self.single_init.get(n["ref"].get("decl"))
            if init is not None:
                init = _unwrap(init)
                if init.get("k") not in ("CXXConstructExpr", "CXXTemporaryObjectExpr", "InitListExpr",
                                         "BinaryOperator", "ConditionalOperator", "UnaryOperator") or \
                        (init.get("k") == "UnaryOperator" and init.get("op") in ("*", "&")):
                    return self.rtext(init, depth + 1)
            return "_" if self._anon else n["ref"].get("name", "?")
        c = n.get("c") or []
        if k == "DeclRefExpr" and n["ref"].get("dk") == "local" and self._anon:
            return "_"
        if not c or depth > 16:
            return F.expr_text(n)
        # render with substituted children: reuse expr_text on a shallow copy is not possible
        # (children are rendered recursively), so mirror the few shapes that occur in roots
        if k == "MemberExpr":
            base = self.rtext(c[0], depth + 1)
            if base in ("this", ""):
                return n.get("member", "?")
            if base.startswith("*") or c[0].get("k") in ("BinaryOperator", "ConditionalOperator"):
                base = "(" + base + ")"
            return base + ("->" if n.get("arrow") else ".") + n.get("member", "?")
        if k in ("CXXMemberCallExpr", "CallExpr"):
            return "%s(%s)" % (self.rtext(c[0], depth + 1),
                               ", ".join(self.rtext(a, depth + 1) for a in c[1:]
                                         if a.get("k") != "CXXDefaultArgExpr"))
        if k == "UnaryOperator":
            inner = self.rtext(c[0], depth + 1)
            return inner + n.get("op", "") if n.get("postfix") else n.get("op", "") + inner
        if k == "CXXOperatorCallExpr":
            op = n.get("op", "?")
            a = c[1:]
            if op in ("*", "->") and len(a) == 1:
                inner = self.rtext(a[0], depth + 1)
                return inner if op == "->" else "*" + inner
            if op == "[]" and len(a) == 2:
                return "%s[%s]" % (self.rtext(a[0], depth + 1), self.rtext(a[1], depth + 1))
            if op == "()" and a:
                return "%s(%s)" % (self.rtext(a[0], depth + 1),
                                   ", ".join(self.rtext(x, depth + 1) for x in a[1:]))
            if len(a) == 2:
                return "%s %s %s" % (self.rtext(a[0], depth + 1), op, self.rtext(a[1], depth + 1))
        if k in ("CXXConstructExpr", "CXXTemporaryObjectExpr") and len(c) == 1:
            return self.rtext(c[0], depth + 1)
        if k in _CASTS:
            return self.rtext(c[0], depth + 1)
        if k == "BinaryOperator" and len(c) == 2:
            op = n.get("op")
            prec = {"*": 3, "/": 3, "%": 3, "+": 2, "-": 2}.get(op, 1)
            parts = []
            for i, ch in enumerate(c):
                t = self.rtext(ch, depth + 1)
                ch0 = _unwrap(ch)
                if ch0.get("k") == "BinaryOperator":
                    cp = {"*": 3, "/": 3, "%": 3, "+": 2, "-": 2}.get(ch0.get("op"), 1)
                    if cp < prec or (cp == prec and i == 1):
                        t = "(" + t + ")"
                parts.append(t)
            return "%s %s %s" % (parts[0], op, parts[1])
        return F.expr_text(n)


class TaintEngine:
    def __init__(self, fx, table, in_scope=lambda fn: False):
        self.fx = fx
        self.table = table
        self.in_scope = in_scope
        self.sanitizers = set(table.get("sanitizers", {}))
        self.tainted_types = set(table.get("tainted_types", {}))
        self.tainted_fields = set(table.get("tainted_fields", {}))
        self.tainted_calls = list(table.get("tainted_calls", {}))
        self.stream_classes = [re.compile(p) for p in table.get("stream_classes", {})]
        self.buffer_fields = set(table.get("buffer_fields", {}))
        self.ctxs = {}
        self._prev_locals = {}
        self._summ = {}
        self._param = {}
        self._field = {}
        self._active = set()
        self._done = set()
        self.changed = False
        self._calls_by_key = None
        self._field_defs = None
        self._enum_names = set(fx.enums)

    # ---- types
    def is_untaintable_type(self, t):
        if t in _ARITH:
            return True
        if t.endswith("*") or "(" in t:
            b = t.replace("*", "").strip()
            if "(" in t:
                return True            # function types
            return b in _ARITH and b != "void"   # double*, int* ... (char* stays)
        return strip_targs(t) in self._enum_names or t.startswith("std::_Ios_")

    def is_tainted_type(self, t):
        return t in self.tainted_types

    def is_tainted_field(self, owner, name):
        return (owner + "::" + name) in self.tainted_fields

    def is_tainted_call(self, callee):
        for s in self.tainted_calls:
            if callee == s or (s.startswith("::") and callee.endswith(s)):
                return True
        return False

    def is_stream_type(self, t):
        b = base_type(t)
        if b in _OSTREAMS:
            return True
        return any(p.search(b) for p in self.stream_classes)

    def is_buffer_stream_type(self, t):
        return "*" not in (t or "") and "&" not in (t or "") and base_type(t) in _BUFFER_STREAMS

    def is_string_type(self, t):
        return base_type(t) == _STRING_T and "*" not in (t or "")

    def is_container_type(self, t):
        """Types whose content a callee can extend through a reference parameter."""
        b = base_type(t)
        return b in _OSTREAMS or b == _STRING_T or any(p.search(b) for p in self.stream_classes)

    # ---- call shapes
    @staticmethod
    def param_offset(n):
        """Index of the first call argument that corresponds to parameter 0."""
        return 1 if (n.get("k") == "CXXOperatorCallExpr" and n.get("memberOp")) else 0

    @staticmethod
    def value_args(n):
        a = F.call_args(n)
        if n.get("k") == "CXXOperatorCallExpr" and n.get("memberOp"):
            return a[1:]
        return a

    def param_args(self, n):
        """(parameter index, argument node) pairs of a call."""
        return list(enumerate(self.value_args(n)))

    def write_target(self, n):
        """(target expression, [written operands]) if node n writes into a string / stream /
        container object, else (None, None)."""
        k = n.get("k")
        c = n.get("c") or []
        if k in ("BinaryOperator", "CompoundAssignOperator") and n.get("op") in ("=", "+=") and len(c) == 2:
            return c[0], [c[1]]
        if k == "CXXOperatorCallExpr":
            op = n.get("op")
            a = c[1:]
            if op in ("=", "+=") and len(a) == 2:
                return a[0], [a[1]]
            if op == "<<" and len(a) == 2 and self.is_stream_type(a[0].get("t")):
                return self.chain_root(a[0]), [a[1]]
            return None, None
        if k == "CXXMemberCallExpr":
            name = (n.get("callee") or "").rsplit("::", 1)[-1]
            if name in _MUTATORS:
                obj = F.call_object(n)
                args = F.call_args(n)
                if obj is not None and args:
                    return obj, list(args)
        return None, None

    def chain_root(self, n):
        """Leftmost stream object of an a << b << c chain."""
        while True:
            n = _unwrap(n)
            if n.get("k") == "CXXOperatorCallExpr" and n.get("op") == "<<":
                a = (n.get("c") or [])[1:]
                if len(a) == 2 and self.is_stream_type(a[0].get("t")):
                    n = a[0]
                    continue
            if n.get("k") == "CXXMemberCallExpr":
                # out.width(n) << ... does not occur; manipulators returning the stream
                obj = F.call_object(n)
                if obj is not None and self.is_stream_type(obj.get("t")) and self.is_stream_type(n.get("t")):
                    n = obj
                    continue
            return n

    # ---- contexts
    def ctx(self, fn):
        c = self.ctxs.get(fn.key)
        if c is None:
            c = self.ctxs[fn.key] = FnCtx(self, fn)
            c.locals = dict(self._prev_locals.get(fn.key, {}))
        c.solve()
        return c

    # ---- global fixpoint: every memo table holds the current approximation (values only grow);
    # a round recomputes each entry once, a lookup of an entry that is being computed returns the
    # approximation of the previous round; rounds are repeated until nothing changes.
    def begin_round(self):
        for k, c in self.ctxs.items():
            self._prev_locals[k] = c.locals
        self.ctxs = {}
        self._done = set()
        self._active = set()
        self.changed = False

    def _fix(self, store, key, compute):
        if key in self._done or key in self._active:
            return store.get(key, V_CLEAN)
        self._active.add(key)
        try:
            v = compute()
        finally:
            self._active.discard(key)
        old = store.get(key, V_CLEAN)
        new = join(old, v)
        if new.lv != old.lv:
            self.changed = True
        store[key] = new
        self._done.add(key)
        return new

    # ---- summaries: value returned by a callee for given argument values
    def summary(self, fn, argv):
        """(level, index of the argument the value derives from or None) of the value returned
        by fn for the given argument values."""
        key = ("S", fn.key, tuple(a.lv for a in argv))
        if key in self._done or key in self._active:
            return self._summ.get(key, (CLEAN, None))
        self._active.add(key)
        try:
            env = [Val(a.lv, "\0p%d" % i, a.amb) for i, a in enumerate(argv)]
            while len(env) < len(fn.params):
                env.append(V_CLEAN)
            c = FnCtx(self, fn, env)
            c.solve()
            v = V_CLEAN
            for n in fn.walk():
                if n.get("k") == "ReturnStmt":
                    val = n.get("value") or ((n.get("c") or [None])[0])
                    if val is not None:
                        v = join(v, c.ev(val))
        finally:
            self._active.discard(key)
        pidx = None
        if v.lv and v.root and v.root.startswith("\0p") and not v.amb:
            pidx = int(v.root[2:])
        old = self._summ.get(key, (CLEAN, None))
        if v.lv > old[0]:
            self._summ[key] = (v.lv, pidx)
            self.changed = True
        elif key not in self._summ:
            self._summ[key] = old
        self._done.add(key)
        return self._summ[key]

    # ---- parameters: join over the call sites of the analysed sources
    def calls_by_key(self):
        if self._calls_by_key is None:
            idx = {}
            for f in self.fx.functions.values():
                for n in f.calls():
                    ck = n.get("calleeKey")
                    if ck:
                        idx.setdefault(ck, []).append((f, n))
            self._calls_by_key = idx
        return self._calls_by_key

    def param_join(self, fn, i):
        t = norm_type(fn.params[i].get("t"))
        if self.is_untaintable_type(t):
            return V_CLEAN

        def compute():
            v = V_CLEAN
            keys = [fn.key] + [o.get("key") for o in fn.rec.get("overrides", []) if o.get("key")]
            for k in keys:
                for caller, n in self.calls_by_key().get(k, []):
                    args = self.value_args(n)
                    if i < len(args):
                        a = self.ctx(caller).ev(args[i])
                        if a.lv:
                            v = join(v, Val(a.lv, "%s@%s" % (a.root, caller.where(n)), a.amb))
            return v
        return self._fix(self._param, ("P", fn.key, i), compute)

    # ---- fields: join over every write in the analysed sources
    def field_defs(self):
        if self._field_defs is None:
            idx = {}
            for f in self.fx.functions.values():
                for init in f.rec.get("inits", []) or []:
                    if init.get("field") and init.get("init") is not None and f.cls:
                        idx.setdefault((strip_targs(f.cls), init["field"]), []).append((f, init["init"]))
                for n in f.walk():
                    tgt, rhs = self.write_target(n)
                    if tgt is None:
                        continue
                    tgt = _unwrap(tgt)
                    if tgt.get("k") == "MemberExpr" and tgt.get("mk") == "field":
                        for r in rhs:
                            idx.setdefault((strip_targs(tgt.get("owner", "")), tgt.get("member")),
                                           []).append((f, r))
                # a field handed to a callee that writes into it
                for n in f.calls():
                    for pi, a in self.param_args(n):
                        a0 = _unwrap(a)
                        if a0.get("k") == "MemberExpr" and a0.get("mk") == "field" and \
                                self.is_container_type(a0.get("t")):
                            idx.setdefault((strip_targs(a0.get("owner", "")), a0.get("member")),
                                           []).append((f, ("outparam", n, pi)))
            self._field_defs = idx
        return self._field_defs

    def field_val(self, owner, name):
        if (owner + "::" + name) in self.buffer_fields:
            return V_CLEAN     # a markup buffer: every write into it is a checked sink

        def compute():
            v = V_CLEAN
            for f, rhs in self.field_defs().get((owner, name), []):
                c = self.ctx(f)
                if isinstance(rhs, tuple):
                    x = self.outparam_val(c, rhs[1], rhs[2])
                else:
                    if self.in_scope(f) and self._is_sink_write(f, rhs):
                        continue
                    x = c.ev(rhs)
                v = join(v, x)
            return v
        return self._fix(self._field, ("F", owner, name), compute)

    def _is_sink_write(self, f, rhs):
        """A `<<` into a stream-typed field of an in-scope class is a checked sink, not a store."""
        p = f.parent(rhs)
        return p is not None and p.get("k") == "CXXOperatorCallExpr" and p.get("op") == "<<"

    # ---- out-parameters: what a callee writes into the object passed as argument idx
    @staticmethod
    def _writable_ref(ptype):
        """Parameter type through which the callee can modify the caller's object."""
        if not ptype or ("&" not in ptype and "*" not in ptype) or "&&" in ptype:
            return False
        return not re.match(r"^\s*const\b", ptype)

    def outparam_val(self, cctx, call, idx):
        """Value of what the callee writes into the object passed as argument idx."""
        fn = self.fx.functions.get(call.get("calleeKey"))
        if fn is None or (fn.body is None and not fn.rec.get("inits")):
            pt = call.get("paramT") or []
            off = self.param_offset(call)
            ptype = pt[idx] if idx < len(pt) else ""
            if call.get("k") == "CXXOperatorCallExpr" and not call.get("memberOp"):
                ptype = pt[idx] if idx < len(pt) else ""
            if not self._writable_ref(ptype):
                return V_CLEAN
            # library code taking a stream/string by non-const reference (getline, swap ...):
            # its other arguments may end up in it
            v = V_CLEAN
            for j, a in enumerate(self.value_args(call)):
                if j != idx:
                    v = join(v, cctx.ev(a))
            return v
        if idx >= len(fn.params):
            return V_CLEAN
        if not self._writable_ref(fn.params[idx].get("t", "")):
            return V_CLEAN
        if self.in_scope(fn):
            return V_CLEAN                      # writes inside a writer scope are checked sinks there

        def compute():
            v = V_CLEAN
            c = self.ctx(fn)
            pdecl = fn.params[idx].get("decl")
            # constructor storing the reference in a field: the content is what the class writes
            for init in fn.rec.get("inits", []) or []:
                i0 = _unwrap(init.get("init")) if init.get("init") is not None else None
                if i0 is not None and i0.get("k") == "DeclRefExpr" and i0["ref"].get("decl") == pdecl \
                        and init.get("field") and fn.cls:
                    v = join(v, self.field_val(strip_targs(fn.cls), init["field"]))
            for n in fn.walk():
                tgt, rhs = self.write_target(n)
                if tgt is not None:
                    t0 = _unwrap(tgt)
                    if t0.get("k") == "DeclRefExpr" and t0["ref"].get("decl") == pdecl:
                        for r in rhs:
                            v = join(v, c.ev(r))
                    elif t0.get("k") == "MemberExpr" and t0.get("mk") == "field" and len(rhs) == 1:
                        r0 = _unwrap(rhs[0])
                        if r0.get("k") == "DeclRefExpr" and r0["ref"].get("decl") == pdecl:
                            v = join(v, self.field_val(strip_targs(t0.get("owner", "")), t0.get("member")))
                if is_call(n):
                    for pi, a in self.param_args(n):
                        a0 = _unwrap(a)
                        if a0.get("k") == "DeclRefExpr" and a0["ref"].get("decl") == pdecl:
                            v = join(v, self.outparam_val(c, n, pi))
            return v
        v = self._fix(self._field, ("O", fn.key, idx), compute)
        return Val(v.lv, F.short(fn.rec["qn"]) + "(...)") if v.lv else v


# =========================================================================== R-ESC driver

def _flatten(eng, n, out):
    """Leaves of a string concatenation / conditional written to a sink."""
    n0 = n
    k = n0.get("k")
    c = n0.get("c") or []
    if k == "CXXOperatorCallExpr" and n0.get("op") == "+" and len(c) == 3:
        _flatten(eng, c[1], out)
        _flatten(eng, c[2], out)
        return
    if k == "ConditionalOperator" and len(c) == 3:
        _flatten(eng, c[1], out)
        _flatten(eng, c[2], out)
        return
    if k in ("CXXConstructExpr", "CXXTemporaryObjectExpr", "CXXFunctionalCastExpr") and len(c) == 1 \
            and base_type(n0.get("t")) == _STRING_T:
        _flatten(eng, c[0], out)
        return
    if k == "BinaryOperator" and n0.get("op") == "=" and len(c) == 2:
        _flatten(eng, c[1], out)
        return
    if k == "CXXOperatorCallExpr" and n0.get("op") == "=" and len(c) == 3:
        _flatten(eng, c[2], out)
        return
    out.append(n0)


class Scope:
    def __init__(self, spec):
        self.files = set(spec.get("files", []))
        self.classes = set(spec.get("classes", []))
        self.functions = set(spec.get("functions", []))
        self.exclude = [re.compile(p) for p in spec.get("exclude_functions", [])]

    def __call__(self, fn):
        if any(p.search(fn.key) for p in self.exclude):
            return False
        if fn.file in self.files:
            return True
        if fn.cls and strip_targs(fn.cls) in self.classes:
            return True
        return fn.qn in self.functions


def _markup_buffers(eng, c):
    """Locals / parameters of function c.fn that hold the markup being produced."""
    fn = c.fn
    bufs = set()
    if c.local_defs is None:
        c._collect()
    ret_t = fn.rec.get("ret", "")
    if eng.is_string_type(ret_t):
        for n in fn.walk():
            if n.get("k") == "ReturnStmt":
                val = n.get("value") or ((n.get("c") or [None])[0])
                v0 = _unwrap(val) if val is not None else None
                if v0 is not None and v0.get("k") == "DeclRefExpr" and v0["ref"].get("dk") == "local" \
                        and eng.is_string_type(c.local_types.get(v0["ref"].get("decl"), v0.get("t"))):
                    bufs.add(v0["ref"]["decl"])
    for p in fn.params:
        t = p.get("t", "")
        if "&" in t and not re.search(r"\bconst\b", t) and eng.is_string_type(t.replace("&", "")):
            bufs.add(p["decl"])
    for decl, init in c.ref_bind.items():
        i0 = _unwrap(init)
        if i0.get("k") == "MemberExpr" and i0.get("mk") == "field" and \
                (strip_targs(i0.get("owner", "")) + "::" + i0.get("member", "")) in eng.buffer_fields:
            bufs.add(decl)
    return bufs


def _sinks(eng, c):
    """(sink node, [operand nodes], description) for every markup write in function c.fn."""
    fn = c.fn
    bufs = _markup_buffers(eng, c)
    res = []
    for n in fn.walk():
        k = n.get("k")
        if k == "DeclStmt":
            for d in n.get("decls", []):
                if d.get("decl") in bufs and d.get("init") is not None and d["decl"] not in c.ref_bind:
                    res.append((d["init"], [d["init"]], "initialiser of the returned markup string"))
            continue
        tgt, rhs = eng.write_target(n)
        if tgt is None:
            continue
        t0 = _unwrap(tgt)
        tk = t0.get("k")
        is_stream = k == "CXXOperatorCallExpr" and n.get("op") == "<<"
        if is_stream:
            if tk == "DeclRefExpr" and t0["ref"].get("dk") == "local" and \
                    eng.is_buffer_stream_type(c.local_types.get(t0["ref"].get("decl"), "")):
                continue                     # local string-stream buffer: content tracked, not a sink
            res.append((n, rhs, "stream insertion"))
            continue
        if tk == "DeclRefExpr" and t0["ref"].get("decl") in bufs:
            res.append((n, rhs, "append to the markup string"))
        elif tk == "MemberExpr" and t0.get("mk") == "field" and \
                (strip_targs(t0.get("owner", "")) + "::" + t0.get("member", "")) in eng.buffer_fields:
            res.append((n, rhs, "append to the markup buffer field"))
    return res


def _attr_quote(prev):
    """Quote character if the literal written just before an operand opens an attribute value."""
    p0 = _unwrap(prev) if prev is not None else None
    if p0 is not None and p0.get("k") == "StringLiteral" and isinstance(p0.get("v"), str):
        m = re.search(r"=\s*([\"'])$", p0["v"])
        if m:
            return m.group(1)
    return None


def _evaluate(eng, fns):
    """One round: every sink leaf of every scope function with its value and, if the literal
    written immediately before it opens an attribute value, the quote character."""
    res = []
    for fn in fns:
        c = eng.ctx(fn)
        for node, operands, what in _sinks(eng, c):
            prev = None
            if node.get("k") == "CXXOperatorCallExpr" and node.get("op") == "<<":
                inner = _unwrap((node.get("c") or [None, None])[1])
                if inner is not None and inner.get("k") == "CXXOperatorCallExpr" and inner.get("op") == "<<" \
                        and len(inner.get("c") or []) == 3:
                    pl = []
                    _flatten(eng, inner["c"][2], pl)
                    prev = pl[-1] if pl else None
            leaves = []
            for o in operands:
                _flatten(eng, o, leaves)
            for leaf in leaves:
                res.append((fn, c, leaf, c.ev(leaf), what, _attr_quote(prev)))
                prev = leaf
    return res


_RESULTS = {}


def nows(key):
    """Instance keys carry no white space (known_findings.txt keys are single tokens)."""
    return re.sub(r"\s+", "", key)


class Emit:
    """Collects instances by key; a violating evaluation of a key dominates a holding one (the same
    source expression is evaluated once per template instantiation)."""

    def __init__(self, ctx, rule):
        self.ctx, self.rule, self.items = ctx, rule, {}

    def add(self, key, ok, where="", fn="", msg="", detail=None):
        key = nows(key)
        old = self.items.get(key)
        if old is None or (old[0] and not ok):
            self.items[key] = (ok, where, fn, msg, detail)

    def flush(self):
        n_ok = n_bad = 0
        for key, (ok, where, fn, msg, detail) in self.items.items():
            self.ctx.report(self.rule, key, ok, where, fn, msg, detail)
            n_ok += ok
            n_bad += not ok
        return n_ok, n_bad


def scope_results(ctx, scope_name, table=None):
    """Converged sink leaves of one scope (cached per fact base)."""
    ck = (id(ctx.facts), scope_name)
    if ck in _RESULTS and table is None:
        return _RESULTS[ck]
    fx = ctx.facts
    table = table or engine.load_table("esc.json")
    spec = table["scopes"][scope_name]
    scope = Scope(spec)
    eng = TaintEngine(fx, table, scope)
    fns = sorted((f for f in fx.functions.values() if scope(f) and f.body is not None),
                 key=lambda f: (f.file, f.line, f.key))
    for anchor in spec.get("anchors", []):
        fx.fn(anchor)
    for s in eng.sanitizers:
        fx.fn(s)
    rounds = 0
    while True:
        rounds += 1
        eng.begin_round()
        leaves = _evaluate(eng, fns)
        if not eng.changed:
            break
        if rounds > 12:
            raise AnalysisBroken("R-ESC %s: taint propagation did not converge" % scope_name)
    _RESULTS[ck] = (eng, spec, leaves, rounds)
    return _RESULTS[ck]


def run_esc(ctx, rule, scope_name, table=None):
    eng, spec, leaves, rounds = scope_results(ctx, scope_name, table)
    fx = ctx.facts
    n_sinks = len(leaves)
    em = Emit(ctx, rule)
    per_file = {}
    by_fn = {}
    for fn, c, leaf, v, what, quote in leaves:
        per_file[fn.file] = per_file.get(fn.file, 0) + 1
        if v.lv == CLEAN:
            continue
        by_fn.setdefault(fn.key, []).append((fn, c, leaf, v, what))
    for items in by_fn.values():
        fn = items[0][0]
        ctx.saw(fn)
        sig = stable_sig(fx, fn)
        counts = {}
        rooted = []
        for fn, c, leaf, v, what in items:
            root = v.root or c.rtext(leaf)
            prov = None
            if leaf.get("k") == "DeclRefExpr" and leaf["ref"].get("dk") == "parm":
                root = leaf["ref"].get("name")
                i = c.param_index.get(leaf["ref"].get("decl"))
                pv = eng.param_join(fn, i) if i is not None else V_CLEAN
                prov = pv.root if pv.lv else "parameter of a tainted type"
            rooted.append((root, prov, c, leaf, v, what))
            counts[root] = counts.get(root, 0) + 1
        ordn = {}
        for root, prov, c, leaf, v, what in rooted:
            key = "%s:%s" % (sig, root)
            if counts[root] > 1:
                ordn[root] = ordn.get(root, 0) + 1
                key += "#%d" % ordn[root]
            ok = v.lv == SAN
            detail = {"operand": c.text(leaf), "value": LEVEL[v.lv], "sink": what}
            if prov:
                detail["tainted_by"] = prov
            msg = "" if ok else ("`%s` carries %s and is written to the markup (%s) without the sanitiser %s"
                                 % (c.text(leaf), prov or root, what,
                                    "/".join(sorted(F.short(x) for x in eng.sanitizers))))
            em.add(key, ok, fn.where(leaf), fn.short, msg, detail)
    n_ok, n_bad = em.flush()
    fl = spec.get("floors", {})
    ctx.floor(rule, fl.get("sinks", 1), n_sinks, "%s: sink operands analysed" % scope_name)
    ctx.floor(rule, fl.get("instances", 1), n_ok + n_bad, "%s: operands carrying tainted data" % scope_name)
    if "sanitised" in fl:
        ctx.floor(rule, fl["sanitised"], n_ok, "%s: sanitised sink operands" % scope_name)
    for f, m in fl.get("per_file", {}).items():
        ctx.floor(rule, m, per_file.get(f, 0), "%s: sink operands in %s" % (scope_name, f))
    return {"sinks": n_sinks, "ok": n_ok, "bad": n_bad, "per_file": per_file, "rounds": rounds}


def rule_esc_adjxml(ctx):
    return run_esc(ctx, "R-ESC", "adjxml")


def rule_esc_export(ctx):
    return run_esc(ctx, "R-ESC", "export")


def rule_esc_g3(ctx):
    return run_esc(ctx, "R-ESC", "g3")


# =========================================================================== sanitiser audit

_ENTITIES = [(ord("<"), "<", "&lt;"), (ord(">"), ">", "&gt;"), (ord("&"), "&", "&amp;"),
             (ord('"'), '"', "&quot;"), (ord("'"), "'", "&apos;")]
_NAMES = {"<": "lt", ">": "gt", "&": "amp", '"': "quot", "'": "apos"}


def _equivalents(ch, entity):
    """Spellings of the escaped character that an XML parser reads back as ch."""
    return {entity, "&#%d;" % ord(ch), "&#x%x;" % ord(ch), "&#x%X;" % ord(ch), "&#%03d;" % ord(ch)}


def _char_const(n):
    n = _unwrap(n) if n is not None else None
    if n is not None and n.get("k") in ("CharacterLiteral", "IntegerLiteral") and isinstance(n.get("v"), int):
        return n["v"]
    return None


def _appended_literals(eng, sub, buf_decls):
    """String / character literals appended to the result string inside statement `sub`."""
    out = []
    for n in walk(sub):
        tgt, rhs = eng.write_target(n)
        if tgt is None:
            continue
        t0 = _unwrap(tgt)
        if t0.get("k") == "DeclRefExpr" and t0["ref"].get("decl") in buf_decls:
            for r in rhs:
                leaves = []
                _flatten(eng, r, leaves)
                for leaf in leaves:
                    l0 = _unwrap(leaf)
                    if l0.get("k") == "StringLiteral":
                        out.append(l0.get("v"))
                    elif l0.get("k") == "CharacterLiteral":
                        out.append(chr(l0.get("v")))
                    else:
                        out.append(None)          # the character itself or something computed
    return out


def extract_char_map(eng, fn):
    """special character code -> list of replacement literals (None = copied through), from the
    comparisons (`c == 'x'`, `case 'x':`) that guard appends to the returned string."""
    c = eng.ctx(fn)
    bufs = _markup_buffers(eng, c)
    mapping = {}
    default = []
    for n in fn.walk():
        k = n.get("k")
        if k == "IfStmt":
            cond = n.get("cond")
            code = None
            if cond is not None and cond.get("k") == "BinaryOperator" and cond.get("op") == "==":
                a, b = cond["c"]
                code = _char_const(a)
                if code is None:
                    code = _char_const(b)
            if code is not None:
                mapping.setdefault(code, []).extend(_appended_literals(eng, n.get("then"), bufs))
                if n.get("else") is not None and n["else"].get("k") != "IfStmt":
                    default.extend(_appended_literals(eng, n["else"], bufs))
        elif k == "SwitchStmt":
            body = n.get("body")
            stmts = (body.get("c") or []) if body is not None else []
            current = []
            for st in stmts:
                x = st
                labels = []
                while x is not None and x.get("k") in ("CaseStmt", "DefaultStmt"):
                    labels.append(x.get("v") if x.get("k") == "CaseStmt" else "default")
                    x = x.get("sub") or ((x.get("c") or [None])[-1])
                if labels:
                    current = labels
                if x is None:
                    continue
                lits = _appended_literals(eng, x, bufs)
                for lab in current:
                    if lab == "default":
                        default.extend(lits)
                    elif isinstance(lab, int):
                        mapping.setdefault(lab, []).extend(lits)
                if any(y.get("k") in ("BreakStmt", "ReturnStmt") for y in walk(x)):
                    current = []
    return mapping, default


def rule_str2xml(ctx):
    """R-ESC sanitiser audit: the five XML special characters map to their predefined entities."""
    rule = "R-ESC"
    fx = ctx.facts
    table = engine.load_table("esc.json")
    eng = TaintEngine(fx, table)
    eng.begin_round()
    n_maps = 0
    for san in sorted(eng.sanitizers):
        cands = [f for f in fx.fns(san) if f.body is not None and f.params and
                 eng.is_string_type(f.params[0].get("t", "").replace("&", ""))]
        if not cands:
            raise AnalysisBroken("sanitiser %s(const std::string&) not found" % san)
        fn = cands[0]
        ctx.saw(fn)
        mapping, default = extract_char_map(eng, fn)
        n_maps += len(mapping)
        # sanitised operands written inside a quoted attribute value need the quote escaped
        attr_uses = {'"': [], "'": []}
        for scope_name in sorted(table["scopes"]):
            for f2, c2, leaf, v, what, quote in scope_results(ctx, scope_name)[2]:
                if v.lv == SAN and quote:
                    attr_uses[quote].append("%s %s" % (f2.where(leaf), c2.text(leaf)))
        for code, ch, entity in _ENTITIES:
            key = "%s:entity:%s" % (F.short(san), _NAMES[ch])
            got = mapping.get(code)
            detail = {"expected": entity, "found": got}
            if got is None:
                if ch in "<&":
                    needed = ["always: markup delimiter"]
                elif ch == ">":
                    needed = []           # only the sequence ]]> is forbidden in content
                else:
                    needed = attr_uses[ch]
                detail["needed_by"] = needed[:10]
                if needed:
                    ctx.bad(rule, key, fn.where(), fn.short,
                            msg="%s has no case for the character %r (it is copied unescaped, must become %s); "
                            "needed by %d sanitised operand(s), e.g. %s" % (F.short(san), ch, entity, len(needed), needed[0]),
                            detail=detail)
                else:
                    ctx.ok(rule, key, fn.where(), fn.short,
                           msg="%r is copied unescaped; harmless today: no sanitised operand is written inside a "
                           "%s-delimited attribute value" % (ch, ch), detail=detail)
            elif len(got) != 1 or got[0] not in _equivalents(ch, entity):
                ctx.bad(rule, key, fn.where(), fn.short,
                        msg="%s maps %r to %r, which does not read back as %r (the XML entity is %s)"
                        % (F.short(san), ch, got, ch, entity), detail=detail)
            else:
                ctx.ok(rule, key, fn.where(), fn.short, detail=detail)
        # a path that returns the argument itself (a fast path for "nothing to escape") must be guarded by a
        # test that looks for every character the function replaces
        pdecl = fn.params[0]["decl"]
        ident_returns = []
        for r in fn.walk():
            if r.get("k") != "ReturnStmt":
                continue
            inner = [x for x in F.walk(r) if x.get("k") == "DeclRefExpr"]
            others_ = [x for x in F.walk(r) if x.get("k") in ("CXXMemberCallExpr", "CallExpr", "CXXOperatorCallExpr")]
            if inner and all(x["ref"].get("decl") == pdecl for x in inner) and not others_:
                ident_returns.append(r)
        replaced = {chr(k) for k, v in mapping.items() if v not in ([None], [chr(k)])}
        for ri, r in enumerate(ident_returns):
            guard_chars = set()
            for a in fn.ancestors(r):
                if a.get("k") == "IfStmt":
                    for x in F.walk(a.get("cond")):
                        if x.get("k") == "StringLiteral" and isinstance(x.get("v"), str):
                            guard_chars |= set(x["v"])
                        if x.get("k") == "CharacterLiteral" and isinstance(x.get("v"), int):
                            guard_chars.add(chr(x["v"]))
            missing = sorted(replaced - guard_chars)
            key = "%s:unescaped-return-path%s" % (F.short(san), "" if len(ident_returns) == 1 else "#%d" % (ri + 1))
            ctx.report(rule, key, not missing, fn.where(r), fn.short,
                       msg="" if not missing else
                       "%s returns its argument unchanged on a path whose guard does not look for %s: a string "
                       "containing only these characters is not escaped" % (F.short(san), missing),
                       detail={"guard_characters": sorted(guard_chars), "replaced": sorted(replaced)})
        # every other character must be copied unchanged
        others = {k: v for k, v in mapping.items() if k not in {e[0] for e in _ENTITIES}}
        key = "%s:other-characters-copied" % F.short(san)
        bad = {chr(k): v for k, v in others.items() if v != [None] and v != [chr(k)]}
        ctx.report(rule, key, not bad and default == [None], fn.where(), fn.short,
                   msg="" if (not bad and default == [None]) else
                   "characters other than the five specials are not copied unchanged: %s default=%s" % (bad, default),
                   detail={"default": default, "others": {chr(k): v for k, v in others.items()}})
    ctx.floor(rule, 3, n_maps, "str2xml: characters with an explicit replacement")
    return {"str2xml_cases": n_maps}


# =========================================================================== R-YSIGN

_RANK = {"N": 0, "S": 1, "R": 2, "Y": 3}
_MUL = {("N", "N"): "N", ("N", "S"): "S", ("N", "R"): "R", ("N", "Y"): "Y",
        ("S", "S"): "N", ("S", "R"): "Y", ("S", "Y"): "R",
        ("R", "R"): "N", ("R", "Y"): "S", ("Y", "Y"): "N"}
_ADD = {("N", "N"): "N", ("N", "S"): "N", ("N", "R"): "R", ("N", "Y"): "Y",
        ("S", "S"): "S", ("S", "R"): "R", ("S", "Y"): "Y",
        ("R", "R"): "R", ("R", "Y"): "Y", ("Y", "Y"): "Y"}
_STATE_TXT = {"Y": "internal (sign-flipped) y", "R": "y restored by the y-sign", "S": "y-sign factor", "N": "no y"}
_NUMERIC = {"double", "float", "long double", "int", "long", "unsigned int", "unsigned long", "short",
            "long long", "unsigned long long"}


def _sjoin(a, b):
    return a if _RANK[a] >= _RANK[b] else b


def _smul(a, b):
    return _MUL.get((a, b)) or _MUL[(b, a)]


def _sadd(a, b):
    return _ADD.get((a, b)) or _ADD[(b, a)]


class SignCtx:
    """Sign-algebra state of the numeric locals of one function (flow-insensitive fixpoint)."""

    def __init__(self, eng, fn):
        self.eng = eng
        self.fn = fn
        self.locals = {}
        self.defs = []           # (decl, kind, node)  kind: 'set' rhs / 'op' compound-assign node
        self.idx_y = set()       # int locals initialised from index_y()
        self.param_index = {p["decl"]: i for i, p in enumerate(fn.params)}
        self.tctx = FnCtx(eng.taint, fn)      # only for root texts
        for n in fn.walk():
            k = n.get("k")
            if k == "DeclStmt":
                for d in n.get("decls", []):
                    if d.get("init") is not None:
                        self.defs.append((d["decl"], "set", d["init"]))
                        if eng.is_index_y(_unwrap(d["init"])):
                            self.idx_y.add(d["decl"])
            elif k == "BinaryOperator" and n.get("op") == "=":
                t0 = _unwrap(n["c"][0])
                if t0.get("k") == "DeclRefExpr" and t0["ref"].get("dk") == "local":
                    self.defs.append((t0["ref"]["decl"], "set", n["c"][1]))
            elif k == "CompoundAssignOperator":
                t0 = _unwrap(n["c"][0])
                if t0.get("k") == "DeclRefExpr" and t0["ref"].get("dk") == "local":
                    self.defs.append((t0["ref"]["decl"], "op", n))
        for _ in range(10):
            changed = False
            for decl, kind, node in self.defs:
                st = self.ev(node) if kind == "set" else self.ev_compound(node)
                new = _sjoin(self.locals.get(decl, "N"), st)
                if new != self.locals.get(decl, "N"):
                    self.locals[decl] = new
                    changed = True
            if not changed:
                break

    def ev_compound(self, n):
        a, b = self.ev(n["c"][0]), self.ev(n["c"][1])
        return _smul(a, b) if n.get("op") in ("*=", "/=") else _sadd(a, b)

    def ev(self, n):
        if n is None:
            return "N"
        eng = self.eng
        k = n.get("k")
        c = n.get("c") or []
        if k in ("IntegerLiteral", "FloatingLiteral", "CXXBoolLiteralExpr", "StringLiteral", "CharacterLiteral"):
            return "N"
        if k == "DeclRefExpr":
            r = n["ref"]
            if r.get("dk") == "local":
                return self.locals.get(r.get("decl"), "N")
            if r.get("dk") == "parm":
                i = self.param_index.get(r.get("decl"))
                return eng.param_state(self.fn, i) if i is not None else "N"
            return "N"
        if k == "MemberExpr":
            if n.get("mk") == "field" and norm_type(n.get("t")) in _NUMERIC:
                return eng.field_state(strip_targs(n.get("owner", "")), n.get("member"))
            return "N"
        if k in ("BinaryOperator",) and len(c) == 2:
            op = n.get("op")
            if op in ("*", "/"):
                return _smul(self.ev(c[0]), self.ev(c[1]))
            if op in ("+", "-"):
                return _sadd(self.ev(c[0]), self.ev(c[1]))
            if op == "=":
                return self.ev(c[1])
            if op == ",":
                return self.ev(c[1])
            return "N"
        if k == "CompoundAssignOperator":
            return self.ev_compound(n)
        if k == "UnaryOperator" and c:
            return self.ev(c[0]) if n.get("op") in ("-", "+") else "N"
        if k == "ConditionalOperator" and len(c) == 3:
            return _sjoin(self.ev(c[1]), self.ev(c[2]))
        if k in _CASTS and c:
            return self.ev(c[0])
        if k == "InitListExpr":
            st = "N"
            for x in c:
                st = _sjoin(st, self.ev(x))
            return st
        if is_call(n):
            return eng.call_state(self, n)
        return "N"


class SignEngine:
    def __init__(self, fx, table, in_scope):
        self.fx = fx
        self.table = table
        self.in_scope = in_scope
        self.taint = TaintEngine(fx, table, in_scope)
        y = table["ysign"]
        self.y_calls = set(y["y_calls"])
        self.y_value_calls = set(y["y_value_calls"])
        self.y_types = set(y["y_types"])
        self.sign_calls = set(y["sign_calls"])
        self.index_y_calls = set(y["index_y_calls"])
        self.vector_subscript = set(y["vector_subscript"])
        self.residual_calls = set(y.get("residual_calls", []))
        self._resvec = {}
        self._resvec_active = set()
        self.residual_hits = set()
        self.ctxs = {}
        self._field = {}
        self._param = {}
        self._active = set()
        self._done = set()
        self.changed = False

    def begin_round(self):
        self.ctxs = {}
        self._done = set()
        self._active = set()
        self.changed = False

    def ctx(self, fn):
        c = self.ctxs.get(fn.key)
        if c is None:
            c = self.ctxs[fn.key] = SignCtx.__new__(SignCtx)
            c.locals = {}
            SignCtx.__init__(c, self, fn)
        return c

    def _fix(self, store, key, compute):
        if key in self._done or key in self._active:
            return store.get(key, "N")
        self._active.add(key)
        try:
            st = compute()
        finally:
            self._active.discard(key)
        st = "S" if st == "S" else "N"       # only the sign factor travels through fields / parameters
        old = store.get(key, "N")
        new = _sjoin(old, st)
        if new != old:
            self.changed = True
        store[key] = new
        self._done.add(key)
        return new

    def field_state(self, owner, name):
        def compute():
            st = "N"
            for f, rhs in self.taint.field_defs().get((owner, name), []):
                if isinstance(rhs, tuple):
                    continue
                st = _sjoin(st, self.ctx(f).ev(rhs))
            return st
        return self._fix(self._field, (owner, name), compute)

    def param_state(self, fn, i):
        if norm_type(fn.params[i].get("t")) not in _NUMERIC:
            return "N"

        def compute():
            st = "N"
            for caller, n in self.taint.calls_by_key().get(fn.key, []):
                args = self.taint.value_args(n)
                if i < len(args):
                    st = _sjoin(st, self.ctx(caller).ev(args[i]))
            return st
        return self._fix(self._param, (fn.key, i), compute)

    def is_index_y(self, n):
        return n is not None and is_call(n) and strip_targs(n.get("callee") or "") in self.index_y_calls

    # ---- the residual vector: a vector bound (directly, through a local, a constructor parameter or a
    # member) to the result of a residual accessor.  In the visit method of a y-carrying observation kind
    # its element is the residual of that observation, i.e. an internal y quantity.
    def in_y_visit(self, fn):
        return fn.name == "visit" and len(fn.params) == 1 and base_type(fn.params[0].get("t")) in self.y_types

    def _resvec_fix(self, key, compute):
        if key in self._resvec:
            return self._resvec[key]
        if key in self._resvec_active:
            return False
        self._resvec_active.add(key)
        try:
            r = bool(compute())
        finally:
            self._resvec_active.discard(key)
        self._resvec[key] = r
        return r

    def is_residual_vector(self, fn, n, depth=0):
        if n is None or depth > 6:
            return False
        n = _unwrap(n)
        k = n.get("k")
        if is_call(n):
            if strip_targs(n.get("callee") or "") in self.residual_calls:
                return True
            if k in ("CXXConstructExpr", "CXXTemporaryObjectExpr") and len(n.get("c") or []) == 1:
                return self.is_residual_vector(fn, n["c"][0], depth + 1)       # copy of the vector
            return False
        if k == "DeclRefExpr":
            r = n["ref"]
            if r.get("dk") == "local":
                def compute():
                    for m in fn.walk():
                        if m.get("k") == "DeclStmt":
                            for d in m.get("decls", []):
                                if d.get("decl") == r.get("decl") and d.get("init") is not None:
                                    return self.is_residual_vector(fn, d["init"], depth + 1)
                    return False
                return self._resvec_fix(("L", fn.key, r.get("decl")), compute)
            if r.get("dk") == "parm":
                idx = {p["decl"]: i for i, p in enumerate(fn.params)}.get(r.get("decl"))
                if idx is None:
                    return False

                def compute():
                    callers = self.taint.calls_by_key().get(fn.key, [])
                    hit = False
                    for caller, call in callers:
                        args = self.taint.value_args(call)
                        if idx < len(args) and self.is_residual_vector(caller, args[idx], depth + 1):
                            hit = True
                    return hit
                return self._resvec_fix(("P", fn.key, idx), compute)
            return False
        if k == "MemberExpr" and n.get("mk") == "field":
            owner, name = strip_targs(n.get("owner", "")), n.get("member")

            def compute():
                for f, rhs in self.taint.field_defs().get((owner, name), []):
                    if isinstance(rhs, tuple):
                        continue
                    if self.is_residual_vector(f, rhs, depth + 1):
                        return True
                return False
            return self._resvec_fix(("F", owner, name), compute)
        return False

    def call_state(self, c, n):
        callee = strip_targs(n.get("callee") or "")
        if callee in self.sign_calls:
            return "S"
        if callee in self.y_calls:
            return "Y"
        if callee in self.y_value_calls:
            obj = F.call_object(n)
            if obj is not None and base_type(_unwrap(obj).get("t")) in self.y_types:
                return "Y"
            return "N"
        if callee in self.vector_subscript and n.get("k") == "CXXOperatorCallExpr":
            if self.residual_calls and self.in_y_visit(c.fn) and \
                    self.is_residual_vector(c.fn, F.call_object(n) or (n.get("c") or [None, None])[1]):
                self.residual_hits.add((c.fn.key, n.get('id')))
                return "Y"
            for a in self.taint.value_args(n):
                a0 = _unwrap(a)
                if self.is_index_y(a0):
                    return "Y"
                if a0.get("k") == "DeclRefExpr" and a0["ref"].get("decl") in c.idx_y:
                    return "Y"
            return "N"
        if n.get("k") in ("CXXConstructExpr", "CXXTemporaryObjectExpr", "CXXFunctionalCastExpr") and \
                norm_type(n.get("t")) in _NUMERIC:
            a = n.get("c") or []
            return c.ev(a[0]) if len(a) == 1 else "N"
        return "N"


_ARITH_PARENT_OPS = {"+", "-", "*", "/"}


def _consumer(fn, n):
    """Where the value of numeric expression n goes: None if it stays inside arithmetic or a local,
    else (kind, description, consumer node)."""
    p = fn.parent(n)
    if p is None:
        return None
    k = p.get("k")
    c = p.get("c") or []
    if k == "BinaryOperator":
        op = p.get("op")
        if op in _ARITH_PARENT_OPS or op == ",":
            return None
        if op == "=":
            if c[0] is n:
                return None
            t0 = _unwrap(c[0])
            if t0.get("k") == "DeclRefExpr" and t0["ref"].get("dk") == "local":
                return None
            return ("store", "stored into %s" % F.expr_text(c[0]), p)
        return None                      # comparisons, logic
    if k == "CompoundAssignOperator":
        if c[0] is n:
            return None
        t0 = _unwrap(c[0])
        if t0.get("k") == "DeclRefExpr" and t0["ref"].get("dk") == "local":
            return None
        return ("store", "accumulated into %s" % F.expr_text(c[0]), p)
    if k == "UnaryOperator":
        return None if p.get("op") in ("-", "+") else ("skip", "", p)
    if k == "ConditionalOperator":
        return None if (len(c) == 3 and c[0] is not n) else ("skip", "", p)
    if k in _CASTS or k == "InitListExpr":
        return None
    if k == "DeclStmt":
        return ("skip", "", p)
    if k == "ReturnStmt":
        return ("return", "returned", p)
    if is_call(p):
        if k in ("CXXConstructExpr", "CXXTemporaryObjectExpr", "CXXFunctionalCastExpr") and \
                norm_type(p.get("t")) in _NUMERIC:
            return None
        if k == "CXXOperatorCallExpr" and p.get("op") == "<<":
            return ("stream", "written to the stream", p)
        if k != "CXXConstructExpr" and c and c[0] is n:
            return ("skip", "", p)
        return ("arg", "passed to %s" % F.short(strip_targs(p.get("callee") or "?")), p)
    return ("skip", "", p)


def run_ysign(ctx, rule="R-YSIGN"):
    fx = ctx.facts
    table = engine.load_table("esc.json")
    spec = table["ysign"]
    scope = Scope(spec["scope"])
    eng = SignEngine(fx, table, scope)
    for a in spec.get("anchors", []):
        fx.fn(a)
    fns = sorted((f for f in fx.functions.values() if scope(f) and f.body is not None),
                 key=lambda f: (f.file, f.line, f.key))
    exempt = {k: v for k, v in spec.get("internal_system_outputs", {}).items() if not k.startswith("_")}
    rounds = 0
    while True:
        rounds += 1
        eng.begin_round()
        found = []
        for fn in fns:
            c = eng.ctx(fn)
            for n in fn.walk():
                if norm_type(n.get("t")) not in _NUMERIC:
                    continue
                cons = _consumer(fn, n)
                if cons is None or cons[0] == "skip":
                    continue
                st = c.ev(n)
                if st in ("Y", "R"):
                    found.append((fn, c, n, st, cons))
        if not eng.changed:
            break
        if rounds > 10:
            raise AnalysisBroken("R-YSIGN: sign propagation did not converge")
    em = Emit(ctx, rule)
    restored_in = {}          # fn.key -> number of restored outputs
    by_fn = {}
    for item in found:
        by_fn.setdefault(item[0].key, []).append(item)
    used_exempt = set()
    for items in by_fn.values():
        fn = items[0][0]
        ctx.saw(fn)
        sig = stable_sig(fx, fn)
        counts = {}
        texts = []
        for fn, c, n, st, cons in items:
            t = c.tctx.rtext(n)
            texts.append(t)
            counts[t] = counts.get(t, 0) + 1
        ordn = {}
        for (fn, c, n, st, cons), t in zip(items, texts):
            key = "%s:%s" % (sig, t)
            if counts[t] > 1:
                ordn[t] = ordn.get(t, 0) + 1
                key += "#%d" % ordn[t]
            if st == "R":
                restored_in[fn.key] = restored_in.get(fn.key, 0) + 1
            ok = st == "R"
            why = ""
            fkey = nows("%s:%s" % (sig, c.tctx.fingerprint(n)))
            if not ok and fkey in exempt:
                ok = True
                why = "internal-system output: " + exempt[fkey]
                used_exempt.add(fkey)
            detail = {"expression": c.tctx.text(n), "state": _STATE_TXT[st], "consumer": cons[1]}
            if why:
                detail["exempt"] = why
            msg = why if ok else ("`%s` is an internal y value (sign flipped by remove_inconsistency for "
                                  "inconsistent systems) and is %s without being multiplied by the y-sign"
                                  % (c.tctx.text(n), cons[1]))
            em.add(key, ok, fn.where(n), fn.short, msg, detail)
    for k in exempt:
        if k not in used_exempt:
            raise AnalysisBroken("R-YSIGN: exempted instance %s no longer exists - table is stale" % k)
    n_ok, n_bad = em.flush()
    seen = {}
    # ---- sibling clause 1: a visitor whose visit(Ydiff*) restores the sign does so in visit(Y*) too
    n_sib = 0
    classes = {}
    for fn in fns:
        if fn.name == "visit" and len(fn.params) == 1 and fn.cls:
            pt = base_type(fn.params[0].get("t"))
            if pt in eng.y_types:
                classes.setdefault(fn.cls, {})[pt] = fn

    def reach_restored(fn, seen_f):
        if fn.key in seen_f:
            return 0
        seen_f.add(fn.key)
        tot = restored_in.get(fn.key, 0)
        for call in fn.calls():
            g = fx.functions.get(call.get("calleeKey"))
            if g is not None and g.cls and fn.cls and strip_targs(g.cls) == strip_targs(fn.cls) and g.name != "visit":
                tot += reach_restored(g, seen_f)
        return tot
    ytypes = sorted(eng.y_types)
    for cls, d in sorted(classes.items()):
        if len(d) < 2:
            continue
        r = {t: reach_restored(f, set()) for t, f in d.items()}
        if not any(r.values()):
            continue
        for t, f in sorted(d.items()):
            key = nows("%s:sibling-restores-sign" % stable_sig(fx, f))
            if seen.get(key) is not None:
                continue
            seen[key] = r[t] > 0
            n_sib += 1
            ctx.report(rule, key, r[t] > 0, f.where(), f.short,
                       msg="" if r[t] > 0 else "the sibling %s multiplies its value by the y-sign, %s does not"
                       % (", ".join(F.short(x.sig) for tt, x in d.items() if r[tt] > 0), F.short(f.sig)),
                       detail={"restored_outputs": r[t]})
    # ---- sibling clause 2: code shared by the visit methods of an all-observations visitor (and the
    # function that flips the signs) that singles out one y-carrying kind by dynamic_cast handles both
    n_dc = 0
    kinds = set(spec.get("coordinate_kinds", []))
    base = spec.get("all_observations_visitor")
    anchors = [fx.fn(a) for a in spec.get("dyncast_anchors", [])]
    for fn in fns + anchors:
        if fn not in anchors:
            if not fn.cls or base not in fx.bases_of(fn.cls if fn.cls in fx.classes else strip_targs(fn.cls)):
                continue
        tested = set()
        for n in fn.walk():
            if n.get("k") == "CXXDynamicCastExpr":
                tested.add(base_type(n.get("castTo") or n.get("t")))
        ty = tested & eng.y_types
        if not ty or (tested & (kinds - eng.y_types)):
            continue                     # no y kind tested, or all coordinate kinds treated alike
        key = nows("%s:type-tests-Y-and-Ydiff" % stable_sig(fx, fn))
        if key in seen:
            continue
        seen[key] = True
        n_dc += 1
        ctx.saw(fn)
        missing = sorted(eng.y_types - ty)
        ctx.report(rule, key, not missing, fn.where(), fn.short,
                   msg="" if not missing else "singles out %s by dynamic_cast but not %s: both observation kinds "
                   "carry a y value whose sign remove_inconsistency flips" % (", ".join(F.short(x) for x in sorted(ty)),
                                                                             ", ".join(F.short(x) for x in missing)))
    fl = spec.get("floors", {})
    ctx.floor(rule, fl.get("outputs", 1), n_ok + n_bad, "y-carrying values leaving arithmetic in writer scopes")
    ctx.floor(rule, fl.get("restored", 1), n_ok, "y outputs multiplied by the y-sign")
    ctx.floor(rule, fl.get("sibling", 1), n_sib, "visit(Y*)/visit(Ydiff*) sibling obligations")
    ctx.floor(rule, fl.get("dyncast", 1), n_dc, "functions type-testing Y/Ydiff")
    if eng.residual_calls:
        ctx.floor(rule, fl.get("residual_elements", 1), len(eng.residual_hits),
                  "residual-vector elements read in visit(Y*)/visit(Ydiff*) writers (internal y)")
    return {"outputs": n_ok + n_bad, "ok": n_ok, "bad": n_bad, "sibling": n_sib, "dyncast": n_dc, "rounds": rounds}


def rule_ysign(ctx):
    return run_ysign(ctx)
