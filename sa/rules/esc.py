"""R-ESC (escape discipline at markup sinks) and R-YSIGN (every writer restores the y sign).

Both rules are decided on the exported AST only.

R-ESC is a three-valued taint analysis (CLEAN < SANITISED < TAINTED) that is
  * flow-insensitive and field-based (one value per local, per class field),
  * inter-procedural through summaries of every callee whose body is in the fact base
    (the value of the returned expression as a function of the argument values),
  * whole-program for parameters (the value of a parameter is the join over the call
    sites found in the analysed sources), and
  * typed: an arithmetic / bool / enum expression is never tainted, an expression of a
    tainted type (PointID) always is.
A *sink* is a write into the markup produced by a writer scope: `operator<<` on a
stream that is not a local string-stream buffer, and `=`/`+=`/append on a markup buffer
(a std::string local that the function returns, a std::string& parameter, or a field the
table names as markup buffer, also through a local reference bound to it).  Every leaf
of a string concatenation written to a sink whose value is not CLEAN is one instance;
it holds iff the value is SANITISED.

R-YSIGN is a small sign algebra (Y = internal y, S = y-sign factor, R = restored y)
over arithmetic expressions; an instance is every place where a y-carrying value leaves
arithmetic (call argument, stream operand, store into a non-local, return).
"""
import re

import facts as F
from facts import AnalysisBroken, walk, is_call, strip_targs
import engine

CLEAN, SAN, TAINT = 0, 1, 2
LEVEL = {CLEAN: "clean", SAN: "sanitised", TAINT: "tainted"}

_ARITH = {"int", "unsigned int", "long", "unsigned long", "long long", "unsigned long long",
          "short", "unsigned short", "double", "float", "long double", "bool", "void",
          "std::nullptr_t", "unsigned", "size_t", "__int128", "unsigned __int128"}
_OSTREAMS = {"std::basic_ostream", "std::basic_ostringstream", "std::basic_ofstream",
             "std::basic_stringstream", "std::basic_fstream", "std::basic_iostream"}
_BUFFER_STREAMS = {"std::basic_ostringstream", "std::basic_stringstream"}
_STRING_T = "std::basic_string"
_MUTATORS = {"push_back", "append", "assign", "insert", "push_front", "emplace_back", "replace",
             "emplace", "emplace_front", "operator+=", "operator=", "str"}
_CASTS = ("CXXStaticCastExpr", "CStyleCastExpr", "CXXFunctionalCastExpr", "ImplicitCastExpr",
          "CXXReinterpretCastExpr", "CXXConstCastExpr", "CXXDynamicCastExpr")


def norm_type(t):
    """Canonical type without cv-qualifiers and references."""
    if not t:
        return ""
    t = re.sub(r"\b(const|volatile)\b", "", t)
    t = t.replace("&", "")
    return re.sub(r"\s+", " ", t).strip()


def base_type(t):
    """norm_type without template arguments and pointer stars."""
    return strip_targs(norm_type(t)).replace("*", "").strip()


class Val:
    """Taint value: level, text of the root source expression, ambiguity of the root."""
    __slots__ = ("lv", "root", "amb")

    def __init__(self, lv=CLEAN, root=None, amb=False):
        self.lv, self.root, self.amb = lv, root, amb

    def __repr__(self):
        return "<%s %s>" % (LEVEL[self.lv], self.root)


V_CLEAN = Val()


def join(a, b):
    if a.lv > b.lv:
        return a
    if b.lv > a.lv:
        return b
    if a.lv == CLEAN:
        return a
    if a.root == b.root:
        return a
    return Val(a.lv, a.root, True)


def _unwrap(n):
    """Skip copy/move constructions, casts and unary * / & to reach the referenced object."""
    while n is not None:
        k = n.get("k")
        c = n.get("c") or []
        if k in ("CXXConstructExpr", "CXXTemporaryObjectExpr") and len(c) == 1 and \
                norm_type(n.get("t")) == norm_type(c[0].get("t")):
            n = c[0]
        elif k in _CASTS and c:
            n = c[0]
        elif k == "UnaryOperator" and n.get("op") in ("*", "&") and c:
            n = c[0]
        else:
            break
    return n


class FnCtx:
    """Evaluation context of one function: parameter environment (None = reporting mode:
    parameters take the join over their call sites) and the fixpoint of its locals."""

    def __init__(self, eng, fn, env=None):
        self.eng = eng
        self.fn = fn
        self.env = env
        self.locals = {}
        self.local_defs = None       # decl -> [rhs nodes]
        self.local_types = {}        # decl -> declared type
        self.local_names = {}
        self.ref_bind = {}           # decl of a reference local -> init node
        self.single_init = {}        # decl -> init node (locals never re-assigned): inlined in root text
        self._solved = False
        self.param_index = {p["decl"]: i for i, p in enumerate(fn.params)}

    # ---- definitions of locals
    def _collect(self):
        defs = {}
        assigned = set()
        fn = self.fn

        def add(decl, rhs, is_init=False):
            if decl is None or rhs is None:
                return
            defs.setdefault(decl, []).append(rhs)
            if not is_init:
                assigned.add(decl)

        inits = {}
        for n in fn.walk():
            k = n.get("k")
            if k == "DeclStmt":
                for d in n.get("decls", []):
                    self.local_types[d.get("decl")] = d.get("t", "")
                    self.local_names[d.get("decl")] = d.get("name")
                    if d.get("init") is not None:
                        add(d["decl"], d["init"], True)
                        inits[d["decl"]] = d["init"]
                        if "&" in (d.get("t") or ""):
                            self.ref_bind[d["decl"]] = d["init"]
                continue
            tgt, rhs = self.eng.write_target(n)
            if tgt is None:
                continue
            tgt = _unwrap(tgt)
            if tgt.get("k") == "DeclRefExpr" and tgt["ref"].get("dk") == "local":
                for r in rhs:
                    add(tgt["ref"].get("decl"), r)
        # locals handed to a callee that writes into them (stream / string out-parameters)
        for n in fn.calls():
            for idx, a in self.eng.param_args(n):
                a0 = _unwrap(a)
                if a0.get("k") == "DeclRefExpr" and a0["ref"].get("dk") == "local":
                    t = self.local_types.get(a0["ref"].get("decl"), a0.get("t"))
                    if self.eng.is_container_type(t):
                        add(a0["ref"]["decl"], ("outparam", n, idx))
        self.local_defs = defs
        for d, init in inits.items():
            if d not in assigned:
                self.single_init[d] = init

    def solve(self):
        if self._solved:
            return
        self._solved = True
        if self.local_defs is None:
            self._collect()
        for _ in range(12):
            changed = False
            for decl, rhss in self.local_defs.items():
                cur = self.locals.get(decl, V_CLEAN)
                new = cur
                for r in rhss:
                    if isinstance(r, tuple):
                        v = self.eng.outparam_val(self, r[1], r[2])
                    else:
                        v = self.ev(r)
                    new = join(new, v)
                if new.lv != cur.lv or new.root != cur.root or new.amb != cur.amb:
                    self.locals[decl] = new
                    changed = True
            if not changed:
                break

    # ---- expression evaluation
    def ev(self, n):
        if n is None:
            return V_CLEAN
        eng = self.eng
        k = n.get("k")
        c = n.get("c") or []
        t = norm_type(n.get("t"))
        if t and eng.is_untaintable_type(t):
            return V_CLEAN
        if k in ("StringLiteral", "CharacterLiteral", "IntegerLiteral", "FloatingLiteral",
                 "CXXBoolLiteralExpr", "CXXNullPtrLiteralExpr", "CXXThisExpr", "LambdaExpr",
                 "CXXNewExpr", "CXXDefaultArgExpr"):
            return V_CLEAN
        by_type = eng.is_tainted_type(t)
        if k == "DeclRefExpr":
            r = n["ref"]
            dk = r.get("dk")
            if dk == "local":
                v = self.locals.get(r.get("decl"), V_CLEAN)
                if by_type and v.lv < TAINT:
                    return Val(TAINT, self.rtext(n))
                if v.lv and v.amb:
                    return Val(v.lv, r.get("name"))
                return v
            if dk == "parm":
                if by_type:
                    return Val(TAINT, r.get("name"))
                v = self.param_val(r.get("decl"))
                return Val(v.lv, r.get("name")) if v.lv and self.env is None else v
            return Val(TAINT, self.rtext(n)) if by_type else V_CLEAN
        if k == "MemberExpr":
            if n.get("mk") != "field":
                return V_CLEAN
            owner = strip_targs(n.get("owner", ""))
            name = n.get("member")
            if by_type or eng.is_tainted_field(owner, name):
                return Val(TAINT, self.rtext(n))
            v = eng.field_val(owner, name)
            if c and c[0].get("k") != "CXXThisExpr":
                v = join(v, self.ev(c[0]))
            return Val(v.lv, self.rtext(n)) if v.lv else v
        if is_call(n):
            v = self.ev_call(n)
            if by_type and v.lv < TAINT:
                return Val(TAINT, self.rtext(n))
            return v
        if k == "ConditionalOperator" and len(c) == 3:
            return join(self.ev(c[1]), self.ev(c[2]))
        if k == "BinaryOperator":
            op = n.get("op")
            if op in ("=", ","):
                return self.ev(c[1])
            return join(self.ev(c[0]), self.ev(c[1])) if len(c) == 2 else V_CLEAN
        if k == "CompoundAssignOperator":
            return join(self.ev(c[0]), self.ev(c[1])) if len(c) == 2 else V_CLEAN
        if k == "ArraySubscriptExpr" and c:
            return self.ev(c[0])
        v = V_CLEAN
        for ch in F.children(n):
            v = join(v, self.ev(ch))
        if by_type and v.lv < TAINT:
            return Val(TAINT, self.rtext(n))
        return v

    def ev_call(self, n):
        eng = self.eng
        callee = strip_targs(n.get("callee") or "")
        args = eng.value_args(n)
        # sanitiser
        if callee in eng.sanitizers:
            v = V_CLEAN
            for a in args:
                v = join(v, self.ev(a))
            return Val(SAN, v.root, v.amb) if v.lv else V_CLEAN
        if eng.is_tainted_call(callee):
            return Val(TAINT, self.rtext(n))
        argv = [self.ev(a) for a in args]
        obj = F.call_object(n)
        objv = self.ev(obj) if obj is not None else V_CLEAN
        fn = eng.fx.functions.get(n.get("calleeKey"))
        if fn is not None and fn.body is not None and n.get("k") not in (
                "CXXConstructExpr", "CXXTemporaryObjectExpr"):
            v = eng.summary(fn, argv, eng.param_offset(n))
            if v is not None:
                return v
        v = objv
        for a in argv:
            v = join(v, a)
        return v

    def param_val(self, decl):
        i = self.param_index.get(decl)
        if i is None:
            return V_CLEAN
        if self.env is not None:
            return self.env[i] if i < len(self.env) else V_CLEAN
        return self.eng.param_join(self.fn, i)

    # ---- root text (stable part of the instance key)
    def rtext(self, n, depth=0):
        """F.expr_text with never re-assigned locals replaced by their initialiser, so that the
        text does not depend on the spelling of such locals."""
        if n is None:
            return ""
        k = n.get("k")
        if k == "DeclRefExpr" and n["ref"].get("dk") == "local" and depth < 4:
            if self.local_defs is None:
                self._collect()
            init = self.single_init.get(n["ref"].get("decl"))
            if init is not None:
                init = _unwrap(init)
                if init.get("k") not in ("CXXConstructExpr", "CXXTemporaryObjectExpr", "InitListExpr"):
                    return self.rtext(init, depth + 1)
            return n["ref"].get("name", "?")
        c = n.get("c") or []
        if not c or depth > 8:
            return F.expr_text(n)
        # render with substituted children: reuse expr_text on a shallow copy is not possible
        # (children are rendered recursively), so mirror the few shapes that occur in roots
        if k == "MemberExpr":
            base = self.rtext(c[0], depth + 1)
            if base in ("this", ""):
                return n.get("member", "?")
            if c[0].get("k") in ("UnaryOperator", "BinaryOperator", "ConditionalOperator"):
                base = "(" + base + ")"
            return base + ("->" if n.get("arrow") else ".") + n.get("member", "?")
        if k == "CXXMemberCallExpr":
            return "%s(%s)" % (self.rtext(c[0], depth + 1),
                               ", ".join(self.rtext(a, depth + 1) for a in c[1:]))
        if k == "UnaryOperator":
            inner = self.rtext(c[0], depth + 1)
            return inner + n.get("op", "") if n.get("postfix") else n.get("op", "") + inner
        if k == "CXXOperatorCallExpr":
            op = n.get("op", "?")
            a = c[1:]
            if op in ("*", "->") and len(a) == 1:
                inner = self.rtext(a[0], depth + 1)
                return inner if op == "->" else "*" + inner
            if op == "[]" and len(a) == 2:
                return "%s[%s]" % (self.rtext(a[0], depth + 1), self.rtext(a[1], depth + 1))
            if op == "()" and a:
                return "%s(%s)" % (self.rtext(a[0], depth + 1),
                                   ", ".join(self.rtext(x, depth + 1) for x in a[1:]))
        if k in ("CXXConstructExpr", "CXXTemporaryObjectExpr") and len(c) == 1:
            return self.rtext(c[0], depth + 1)
        if k in _CASTS:
            return self.rtext(c[0], depth + 1)
        return F.expr_text(n)


class TaintEngine:
    def __init__(self, fx, table, in_scope=lambda fn: False):
        self.fx = fx
        self.table = table
        self.in_scope = in_scope
        self.sanitizers = set(table.get("sanitizers", {}))
        self.tainted_types = set(table.get("tainted_types", {}))
        self.tainted_fields = set(table.get("tainted_fields", {}))
        self.tainted_calls = list(table.get("tainted_calls", {}))
        self.stream_classes = [re.compile(p) for p in table.get("stream_classes", {})]
        self.buffer_fields = set(table.get("buffer_fields", {}))
        self.ctxs = {}
        self._summ = {}
        self._summ_active = set()
        self._param = {}
        self._param_active = set()
        self._field = {}
        self._field_active = set()
        self._calls_by_key = None
        self._field_defs = None
        self._enum_names = set(fx.enums)

    # ---- types
    def is_untaintable_type(self, t):
        if t in _ARITH:
            return True
        if t.endswith("*") or "(" in t:
            b = t.replace("*", "").strip()
            if "(" in t:
                return True            # function types
            return b in _ARITH and b != "void"   # double*, int* ... (char* stays)
        return strip_targs(t) in self._enum_names or t.startswith("std::_Ios_")

    def is_tainted_type(self, t):
        return t in self.tainted_types

    def is_tainted_field(self, owner, name):
        return (owner + "::" + name) in self.tainted_fields

    def is_tainted_call(self, callee):
        for s in self.tainted_calls:
            if callee == s or (s.startswith("::") and callee.endswith(s)):
                return True
        return False

    def is_stream_type(self, t):
        b = base_type(t)
        if b in _OSTREAMS:
            return True
        return any(p.search(b) for p in self.stream_classes)

    def is_buffer_stream_type(self, t):
        return "*" not in (t or "") and "&" not in (t or "") and base_type(t) in _BUFFER_STREAMS

    def is_string_type(self, t):
        return base_type(t) == _STRING_T and "*" not in (t or "")

    def is_container_type(self, t):
        """Types whose content a callee can extend through a reference parameter."""
        b = base_type(t)
        return b in _OSTREAMS or b == _STRING_T or any(p.search(b) for p in self.stream_classes)

    # ---- call shapes
    @staticmethod
    def param_offset(n):
        """Index of the first call argument that corresponds to parameter 0."""
        return 1 if (n.get("k") == "CXXOperatorCallExpr" and n.get("memberOp")) else 0

    @staticmethod
    def value_args(n):
        a = F.call_args(n)
        if n.get("k") == "CXXOperatorCallExpr" and n.get("memberOp"):
            return a[1:]
        return a

    def param_args(self, n):
        """(parameter index, argument node) pairs of a call."""
        return list(enumerate(self.value_args(n)))

    def write_target(self, n):
        """(target expression, [written operands]) if node n writes into a string / stream /
        container object, else (None, None)."""
        k = n.get("k")
        c = n.get("c") or []
        if k in ("BinaryOperator", "CompoundAssignOperator") and n.get("op") in ("=", "+=") and len(c) == 2:
            return c[0], [c[1]]
        if k == "CXXOperatorCallExpr":
            op = n.get("op")
            a = c[1:]
            if op in ("=", "+=") and len(a) == 2:
                return a[0], [a[1]]
            if op == "<<" and len(a) == 2 and self.is_stream_type(a[0].get("t")):
                return self.chain_root(a[0]), [a[1]]
            return None, None
        if k == "CXXMemberCallExpr":
            name = (n.get("callee") or "").rsplit("::", 1)[-1]
            if name in _MUTATORS:
                obj = F.call_object(n)
                args = F.call_args(n)
                if obj is not None and args:
                    return obj, list(args)
        return None, None

    def chain_root(self, n):
        """Leftmost stream object of an a << b << c chain."""
        while True:
            n = _unwrap(n)
            if n.get("k") == "CXXOperatorCallExpr" and n.get("op") == "<<":
                a = (n.get("c") or [])[1:]
                if len(a) == 2 and self.is_stream_type(a[0].get("t")):
                    n = a[0]
                    continue
            if n.get("k") == "CXXMemberCallExpr":
                # out.width(n) << ... does not occur; manipulators returning the stream
                obj = F.call_object(n)
                if obj is not None and self.is_stream_type(obj.get("t")) and self.is_stream_type(n.get("t")):
                    n = obj
                    continue
            return n

    # ---- contexts
    def ctx(self, fn):
        c = self.ctxs.get(fn.key)
        if c is None:
            c = self.ctxs[fn.key] = FnCtx(self, fn)
        c.solve()
        return c

    # ---- summaries: value returned by a callee for given argument values
    def summary(self, fn, argv, offset=0):
        key = (fn.key, tuple(a.lv for a in argv))
        if key in self._summ:
            lv, pidx = self._summ[key]
            if lv == CLEAN:
                return V_CLEAN
            if pidx is not None and pidx < len(argv):
                return Val(lv, argv[pidx].root, argv[pidx].amb)
            return Val(lv, F.short(fn.rec["qn"]) + "()")
        if key in self._summ_active or len(self._summ_active) > 40:
            v = V_CLEAN
            for a in argv:
                v = join(v, a)
            return v
        self._summ_active.add(key)
        try:
            env = [Val(a.lv, "\0p%d" % i, a.amb) for i, a in enumerate(argv)]
            while len(env) < len(fn.params):
                env.append(V_CLEAN)
            c = FnCtx(self, fn, env)
            c.solve()
            v = V_CLEAN
            for n in fn.walk():
                if n.get("k") == "ReturnStmt":
                    val = n.get("value") or ((n.get("c") or [None])[0])
                    if val is not None:
                        v = join(v, c.ev(val))
        finally:
            self._summ_active.discard(key)
        pidx = None
        if v.lv and v.root and v.root.startswith("\0p"):
            pidx = int(v.root[2:])
        self._summ[key] = (v.lv, pidx)
        return self.summary(fn, argv, offset)

    # ---- parameters: join over the call sites of the analysed sources
    def calls_by_key(self):
        if self._calls_by_key is None:
            idx = {}
            for f in self.fx.functions.values():
                for n in f.calls():
                    ck = n.get("calleeKey")
                    if ck:
                        idx.setdefault(ck, []).append((f, n))
            self._calls_by_key = idx
        return self._calls_by_key

    def param_join(self, fn, i):
        key = (fn.key, i)
        if key in self._param:
            return self._param[key]
        if key in self._param_active:
            return V_CLEAN
        t = norm_type(fn.params[i].get("t"))
        if self.is_untaintable_type(t):
            self._param[key] = V_CLEAN
            return V_CLEAN
        self._param_active.add(key)
        v = V_CLEAN
        try:
            keys = [fn.key] + [o.get("key") for o in fn.rec.get("overrides", []) if o.get("key")]
            for k in keys:
                for caller, n in self.calls_by_key().get(k, []):
                    args = self.value_args(n)
                    if i < len(args):
                        a = self.ctx(caller).ev(args[i])
                        if a.lv:
                            v = join(v, Val(a.lv, "%s@%s" % (a.root, caller.where(n)), a.amb))
        finally:
            self._param_active.discard(key)
        self._param[key] = v
        return v

    # ---- fields: join over every write in the analysed sources
    def field_defs(self):
        if self._field_defs is None:
            idx = {}
            for f in self.fx.functions.values():
                for init in f.rec.get("inits", []) or []:
                    if init.get("field") and init.get("init") is not None and f.cls:
                        idx.setdefault((strip_targs(f.cls), init["field"]), []).append((f, init["init"]))
                for n in f.walk():
                    tgt, rhs = self.write_target(n)
                    if tgt is None:
                        continue
                    tgt = _unwrap(tgt)
                    if tgt.get("k") == "MemberExpr" and tgt.get("mk") == "field":
                        for r in rhs:
                            idx.setdefault((strip_targs(tgt.get("owner", "")), tgt.get("member")),
                                           []).append((f, r))
                # a field handed to a callee that writes into it
                for n in f.calls():
                    for pi, a in self.param_args(n):
                        a0 = _unwrap(a)
                        if a0.get("k") == "MemberExpr" and a0.get("mk") == "field" and \
                                self.is_container_type(a0.get("t")):
                            idx.setdefault((strip_targs(a0.get("owner", "")), a0.get("member")),
                                           []).append((f, ("outparam", n, pi)))
            self._field_defs = idx
        return self._field_defs

    def field_val(self, owner, name):
        key = (owner, name)
        if key in self._field:
            return self._field[key]
        if key in self._field_active:
            return V_CLEAN
        if (owner + "::" + name) in self.buffer_fields:
            self._field[key] = V_CLEAN     # a markup buffer: every write into it is a checked sink
            return V_CLEAN
        self._field_active.add(key)
        v = V_CLEAN
        try:
            for f, rhs in self.field_defs().get(key, []):
                c = self.ctx(f)
                if isinstance(rhs, tuple):
                    x = self.outparam_val(c, rhs[1], rhs[2])
                else:
                    if self.in_scope(f) and self._is_sink_write(f, rhs):
                        continue
                    x = c.ev(rhs)
                v = join(v, x)
        finally:
            self._field_active.discard(key)
        self._field[key] = v
        return v

    def _is_sink_write(self, f, rhs):
        """A `<<` into a stream-typed field of an in-scope class is a checked sink, not a store."""
        p = f.parent(rhs)
        return p is not None and p.get("k") == "CXXOperatorCallExpr" and p.get("op") == "<<"

    # ---- out-parameters: what a callee writes into the object passed as argument idx
    def outparam_val(self, cctx, call, idx):
        fn = self.fx.functions.get(call.get("calleeKey"))
        if fn is None or fn.body is None and not fn.rec.get("inits"):
            # unknown callee taking a stream/string by reference: library code formats its other
            # arguments into it (getline etc. do not occur in the writers)
            v = V_CLEAN
            args = self.value_args(call)
            for j, a in enumerate(args):
                if j != idx:
                    v = join(v, cctx.ev(a))
            return v
        if idx >= len(fn.params):
            return V_CLEAN
        ptype = fn.params[idx].get("t", "")
        if "&" not in ptype and "*" not in ptype:
            return V_CLEAN                      # passed by value
        if re.search(r"\bconst\b", ptype.split("&")[0].split("*")[0]) and "*" not in ptype:
            return V_CLEAN                      # const reference: cannot be written
        if self.in_scope(fn):
            return V_CLEAN                      # writes inside a writer scope are checked sinks there
        key = ("out", fn.key, idx)
        if key in self._field:
            return self._field[key]
        if key in self._field_active:
            return V_CLEAN
        self._field_active.add(key)
        v = V_CLEAN
        try:
            c = self.ctx(fn)
            pdecl = fn.params[idx].get("decl")
            # constructor storing the reference in a field: the content is what the class writes
            for init in fn.rec.get("inits", []) or []:
                i0 = _unwrap(init.get("init")) if init.get("init") is not None else None
                if i0 is not None and i0.get("k") == "DeclRefExpr" and i0["ref"].get("decl") == pdecl \
                        and init.get("field") and fn.cls:
                    v = join(v, self.field_val(strip_targs(fn.cls), init["field"]))
            for n in fn.walk():
                tgt, rhs = self.write_target(n)
                if tgt is not None:
                    t0 = _unwrap(tgt)
                    if t0.get("k") == "DeclRefExpr" and t0["ref"].get("decl") == pdecl:
                        for r in rhs:
                            v = join(v, c.ev(r))
                    elif t0.get("k") == "MemberExpr" and t0.get("mk") == "field" and len(rhs) == 1:
                        r0 = _unwrap(rhs[0])
                        if r0.get("k") == "DeclRefExpr" and r0["ref"].get("decl") == pdecl:
                            v = join(v, self.field_val(strip_targs(t0.get("owner", "")), t0.get("member")))
                if is_call(n):
                    for pi, a in self.param_args(n):
                        a0 = _unwrap(a)
                        if a0.get("k") == "DeclRefExpr" and a0["ref"].get("decl") == pdecl:
                            v = join(v, self.outparam_val(c, n, pi))
        finally:
            self._field_active.discard(key)
        self._field[key] = v
        return v


# =========================================================================== R-ESC driver

def _flatten(eng, n, out):
    """Leaves of a string concatenation / conditional written to a sink."""
    n0 = n
    k = n0.get("k")
    c = n0.get("c") or []
    if k == "CXXOperatorCallExpr" and n0.get("op") == "+" and len(c) == 3:
        _flatten(eng, c[1], out)
        _flatten(eng, c[2], out)
        return
    if k == "ConditionalOperator" and len(c) == 3:
        _flatten(eng, c[1], out)
        _flatten(eng, c[2], out)
        return
    if k in ("CXXConstructExpr", "CXXTemporaryObjectExpr", "CXXFunctionalCastExpr") and len(c) == 1 \
            and base_type(n0.get("t")) == _STRING_T:
        _flatten(eng, c[0], out)
        return
    if k == "BinaryOperator" and n0.get("op") == "=" and len(c) == 2:
        _flatten(eng, c[1], out)
        return
    if k == "CXXOperatorCallExpr" and n0.get("op") == "=" and len(c) == 3:
        _flatten(eng, c[2], out)
        return
    out.append(n0)


class Scope:
    def __init__(self, spec):
        self.files = set(spec.get("files", []))
        self.classes = set(spec.get("classes", []))
        self.functions = set(spec.get("functions", []))
        self.exclude = [re.compile(p) for p in spec.get("exclude_functions", [])]

    def __call__(self, fn):
        if any(p.search(fn.key) for p in self.exclude):
            return False
        if fn.file in self.files:
            return True
        if fn.cls and strip_targs(fn.cls) in self.classes:
            return True
        return fn.qn in self.functions


def _markup_buffers(eng, c):
    """Locals / parameters of function c.fn that hold the markup being produced."""
    fn = c.fn
    bufs = set()
    if c.local_defs is None:
        c._collect()
    ret_t = fn.rec.get("ret", "")
    if eng.is_string_type(ret_t):
        for n in fn.walk():
            if n.get("k") == "ReturnStmt":
                val = n.get("value") or ((n.get("c") or [None])[0])
                v0 = _unwrap(val) if val is not None else None
                if v0 is not None and v0.get("k") == "DeclRefExpr" and v0["ref"].get("dk") == "local" \
                        and eng.is_string_type(c.local_types.get(v0["ref"].get("decl"), v0.get("t"))):
                    bufs.add(v0["ref"]["decl"])
    for p in fn.params:
        t = p.get("t", "")
        if "&" in t and not re.search(r"\bconst\b", t) and eng.is_string_type(t.replace("&", "")):
            bufs.add(p["decl"])
    for decl, init in c.ref_bind.items():
        i0 = _unwrap(init)
        if i0.get("k") == "MemberExpr" and i0.get("mk") == "field" and \
                (strip_targs(i0.get("owner", "")) + "::" + i0.get("member", "")) in eng.buffer_fields:
            bufs.add(decl)
    return bufs


def _sinks(eng, c):
    """(sink node, [operand nodes], description) for every markup write in function c.fn."""
    fn = c.fn
    bufs = _markup_buffers(eng, c)
    res = []
    for n in fn.walk():
        k = n.get("k")
        if k == "DeclStmt":
            for d in n.get("decls", []):
                if d.get("decl") in bufs and d.get("init") is not None and d["decl"] not in c.ref_bind:
                    res.append((d["init"], [d["init"]], "initialiser of the returned markup string"))
            continue
        tgt, rhs = eng.write_target(n)
        if tgt is None:
            continue
        t0 = _unwrap(tgt)
        tk = t0.get("k")
        is_stream = k == "CXXOperatorCallExpr" and n.get("op") == "<<"
        if is_stream:
            if tk == "DeclRefExpr" and t0["ref"].get("dk") == "local" and \
                    eng.is_buffer_stream_type(c.local_types.get(t0["ref"].get("decl"), "")):
                continue                     # local string-stream buffer: content tracked, not a sink
            res.append((n, rhs, "stream insertion"))
            continue
        if tk == "DeclRefExpr" and t0["ref"].get("decl") in bufs:
            res.append((n, rhs, "append to the markup string"))
        elif tk == "MemberExpr" and t0.get("mk") == "field" and \
                (strip_targs(t0.get("owner", "")) + "::" + t0.get("member", "")) in eng.buffer_fields:
            res.append((n, rhs, "append to the markup buffer field"))
    return res


def run_esc(ctx, rule, scope_name, table=None):
    fx = ctx.facts
    table = table or engine.load_table("esc.json")
    spec = table["scopes"][scope_name]
    scope = Scope(spec)
    eng = TaintEngine(fx, table, scope)
    fns = sorted((f for f in fx.functions.values() if scope(f) and f.body is not None),
                 key=lambda f: (f.file, f.line, f.key))
    for anchor in spec.get("anchors", []):
        fx.fn(anchor)
    n_sinks = 0
    n_ok = 0
    n_bad = 0
    seen = {}
    per_file = {}
    for fn in fns:
        c = eng.ctx(fn)
        sinks = _sinks(eng, c)
        if not sinks:
            continue
        ctx.saw(fn)
        counts = {}
        pending = []
        for node, operands, what in sinks:
            leaves = []
            for o in operands:
                _flatten(eng, o, leaves)
            for leaf in leaves:
                n_sinks += 1
                per_file[fn.file] = per_file.get(fn.file, 0) + 1
                v = c.ev(leaf)
                if v.lv == CLEAN:
                    continue
                root = v.root or c.rtext(leaf)
                root = root.split("@")[0] if v.root and "@" in v.root and leaf.get("k") != "DeclRefExpr" else root
                if leaf.get("k") == "DeclRefExpr" and leaf["ref"].get("dk") == "parm":
                    root = leaf["ref"].get("name")
                pending.append((root, v, leaf, what))
                counts[root] = counts.get(root, 0) + 1
        ordn = {}
        for root, v, leaf, what in pending:
            key = "%s:%s" % (fn.sig, root)
            if counts[root] > 1:
                ordn[root] = ordn.get(root, 0) + 1
                key += "#%d" % ordn[root]
            ok = v.lv == SAN
            if key in seen:
                if seen[key] == ok:
                    continue          # same instance in another instantiation of the template
            seen[key] = ok
            detail = {"operand": F.expr_text(leaf), "value": LEVEL[v.lv], "sink": what}
            if v.root and "@" in v.root:
                detail["tainted_at"] = v.root
            if ok:
                n_ok += 1
                ctx.ok(rule, key, fn.where(leaf), fn.short, detail=detail)
            else:
                n_bad += 1
                ctx.bad(rule, key, fn.where(leaf), fn.short,
                        msg="`%s` (%s) is written to the markup without the sanitiser %s"
                        % (F.expr_text(leaf), v.root if v.root else "tainted",
                           "/".join(sorted(F.short(s) for s in eng.sanitizers))), detail=detail)
    fl = spec.get("floors", {})
    ctx.floor(rule, fl.get("sinks", 1), n_sinks, "%s: sink operands analysed" % scope_name)
    ctx.floor(rule, fl.get("instances", 1), n_ok + n_bad, "%s: operands carrying tainted data" % scope_name)
    if "sanitised" in fl:
        ctx.floor(rule, fl["sanitised"], n_ok, "%s: sanitised sink operands" % scope_name)
    for f, m in fl.get("per_file", {}).items():
        ctx.floor(rule, m, per_file.get(f, 0), "%s: sink operands in %s" % (scope_name, f))
    return {"sinks": n_sinks, "ok": n_ok, "bad": n_bad, "per_file": per_file}


def rule_esc_adjxml(ctx):
    return run_esc(ctx, "R-ESC", "adjxml")


def rule_esc_export(ctx):
    return run_esc(ctx, "R-ESC", "export")


def rule_esc_g3(ctx):
    return run_esc(ctx, "R-ESC", "g3")
