"""R-IDX (second part): index spaces *inside* the sparse kernels (rule_idx2_sparse, property C16) and at
the LocalNetwork / result-writer level (rule_idx2_network and its views, properties C12, C09, C01).
Tables: tables/index_spaces2.json (parts 'sparse' and 'network'; 'network' extends index_spaces.json).

Reuses the union-find core of rules/idx.py (Var, union, bind; rules/idx.py itself is untouched) and adds,
in subclasses:

  * def-use webs: a local that is re-initialised (`i = 0` ... `i = 3`) is one variable per web of
    reaching definitions (CFG data flow), so a function-level loop variable reused for several
    loops is typed per loop; `++/--/+=` keep the web;
  * inferred slots: integer fields of the analysed classes (one variable per class field), integer
    results of un-tabled analysed functions, index / element spaces of local arrays and container fields
    (`new Index[n]`, `std::vector<int>`, `Vec<>`, `Mat<>`, `IntegerList<>`) are type variables, never guesses;
  * calls into analysed functions without a table entry: the argument / result edge is applied only if
    the callee side carries a space (has a binding or is linked to a field), to a fixed point; a helper
    that is polymorphic in its integer parameter (`tagnl(out, name, n)`) does not merge its callers;
  * path-qualified slots (`RootedLevelStructure::adst.xadj`: the Adjacency object reused as a level
    structure; also through a local reference / pointer to it), arity-qualified methods
    (`BlockDiagonal::dim/1`), per-function renaming of the spaces of *another* object of the same class
    (`t->rptr` inside SparseMatrix::transpose: rows of the transpose are columns of this);
  * pointer arithmetic `array + k` is a subscript; the tabled shift idiom `a[x - 1]`, `a[--x]`,
    `a + x - 1` checks x against the 1-based counterpart of a 0-based slot (nowhere else is x - 1 typed);
  * counts: a slot marked 'count' holds the number of elements of a numbering; an ordering comparison
    against a value of fixed space (tabled slot, or a const local initialised from one) makes the other
    side *bounded* by that numbering: this conflicts with a use in another numbering unless the table
    says the two have as many elements by construction; two fixed values (two counts) may be ordered
    freely, and so may a variable that only ever holds counts; lengths (band widths) bound nothing;
  * `c ? a : b` joins its arms; `return e` is checked against / joined with the function result;
    memcpy(dst, src) joins two arrays; constructor initialisers join field and argument.

Everything that cannot be typed stays untyped (silent).  Every tabled slot is checked to exist
(vanished anchor: exit 2).
"""
import re

import engine
import facts as F
from facts import AnalysisBroken, strip_targs, short
import idx
from idx import Var, union, _site

RULE = idx.RULE
TABLE = "index_spaces2.json"

_CV = re.compile(r"\b(const|volatile)\b")
_INT_BASES = ("int", "long", "unsigned int", "unsigned long", "short", "unsigned short", "long long",
              "unsigned long long", "unsigned", "size_t", "std::size_t")


def _norm_t(t):
    return " ".join(_CV.sub(" ", t or "").split())


def intlike(t):
    """int, or pointer/reference to int (const-insensitive)."""
    t = _norm_t(t)
    base = t.rstrip("*& ").strip()
    return base in _INT_BASES


def is_ptr(t):
    return "*" in (t or "")


def _lit(n):
    if n is not None and n.get("k") == "IntegerLiteral":
        try:
            return int(n.get("v"))
        except (TypeError, ValueError):
            return None
    return None


# ------------------------------------------------------------------------------- typer

class Typer2(idx.Typer):
    def __init__(self, ctx, table):
        super().__init__(ctx, table)
        self.foreign = {self._q(k): v for k, v in table.get("foreign", {}).items() if not k.startswith("_")}
        self.local_specs = {self._q(k): v for k, v in table.get("locals", {}).items() if not k.startswith("_")}
        self.local_kinds = table.get("local_containers", {})
        self.begin_like = {self._q(k) for k in table.get("container_begin", [])}
        self.minus = {k: v for k, v in table.get("minus_one", {}).items() if not k.startswith("_")}
        self.plus = {v: k for k, v in self.minus.items()}
        self.same_count = {k: set(v) for k, v in table.get("same_count", {}).items() if not k.startswith("_")}
        self.lengths = set(table.get("lengths", []))          # spaces of lengths / widths: not ordered against indices
        self.shift_links = []
        self.infer_classes = set()
        self.class_fields = {}
        self._names = {}
        self.field_vars = set()
        # objects with their own slot table: 'Owner::field' prefixes of the path-qualified keys
        self.paths = {k.split(".", 1)[0] for k in list(self.methods) + list(self.fields) if "." in k.split("::")[-1]}
        self.deferred = []      # (callee-side type, caller-side type, site): applied only when the callee side is grounded
        self.proxies = set()

    @staticmethod
    def _q(name):
        if name.startswith("::"):
            return name[2:]
        if name.startswith("GNU_gama::") or name.startswith("std::") or name.startswith("(anonymous"):
            return name
        return "GNU_gama::" + name

    def same(self, a, b):
        if a == b:
            return True
        return b in self.compat.get(a, ()) or a in self.compat.get(b, ())

    def equinumerous(self, a, b):
        return b in self.same_count.get(a, ()) or a in self.same_count.get(b, ())

    # -- table lookups
    def method_spec2(self, callee_qn, callee_class, nargs):
        for key in ("%s/%d" % (callee_qn, nargs), callee_qn):
            spec = self.methods.get(key)
            if spec is not None:
                return spec
        name = callee_qn.rsplit("::", 1)[-1]
        if callee_class:
            for b in self.fx.bases_of(callee_class):
                for key in ("%s::%s/%d" % (b, name, nargs), "%s::%s" % (b, name)):
                    spec = self.methods.get(key)
                    if spec is not None and spec.get("inherit", True):
                        return spec
        return None

    def field_spec2(self, owner, member):
        spec = self.fields.get(owner + "::" + member)
        if spec is not None:
            return spec
        for b in self.fx.bases_of(owner):
            spec = self.fields.get(b + "::" + member)
            if spec is not None:
                return spec
        return None

    def field_type_of(self, owner, member):
        key = (owner, member)
        if key not in self.class_fields:
            t = None
            for cq in [owner] + list(self.fx.bases_of(owner)):
                try:
                    rec = self.fx.cls(cq)
                except AnalysisBroken:
                    continue
                for f in rec.get("fields", []):
                    if f.get("name") == member:
                        t = f.get("t")
                        break
                if t is not None:
                    break
            self.class_fields[key] = t
        return self.class_fields[key]

    # -- variables that are not locals
    def field_var(self, owner, member):
        k = ("field", owner, member)
        v = self.vars.get(k)
        if v is None:
            v = self.vars[k] = Var("%s::%s" % (short(owner), member))
            self.field_vars.add(id(v))
        return v

    def ret_var(self, fn):
        k = (fn.key, "<ret>", 0)
        v = self.vars.get(k)
        if v is None:
            v = self.vars[k] = Var("%s:<result>" % fn.sig)
        return v

    def proxy_var(self, fn, node, callee):
        k = (fn.key, "call", node["id"])
        v = self.vars.get(k)
        if v is None:
            v = self.vars[k] = Var("%s:<call %s>" % (fn.sig, callee))
            self.proxies.add(id(v))
            target = self.fx.functions.get(node.get("calleeKey"))
            self.deferred.append((("v", self.ret_var(target)), ("v", v),
                                  _site(fn, node, "result of %s" % callee)))
        return v

    def cont_var(self, fn, decl, name, what):
        k = (fn.key, decl, what)
        v = self.vars.get(k)
        if v is None:
            v = self.vars[k] = Var("%s:%s%s" % (fn.sig, self.display_name(fn, decl, name), what))
        return v

    def display_name(self, fn, decl, name):
        """locals of one function that share a name are numbered in declaration order (name~2)."""
        m = self._names.get(fn.key)
        if m is None:
            m = self._names[fn.key] = {}
            seen = {}
            decls = [(p["decl"], p["name"]) for p in fn.params]
            for n in fn.walk():
                if n.get("k") == "DeclStmt":
                    for d in n.get("decls", []):
                        if "decl" in d:
                            decls.append((d["decl"], d["name"]))
            for dd, nm in decls:
                if dd in m:
                    continue
                seen[nm] = seen.get(nm, 0) + 1
                m[dd] = nm if seen[nm] == 1 else "%s~%d" % (nm, seen[nm])
        return m.get(decl, name)

    def var(self, fn, decl, name, version=0):
        k = (fn.key, decl, version)
        v = self.vars.get(k)
        if v is None:
            v = self.vars[k] = Var("%s:%s%s" % (fn.sig, self.display_name(fn, decl, name),
                                               "" if not version else "'%d" % version))
        return v

    def analyse(self, fn):
        self.ctx.saw(fn)
        FnEnv2(self, fn).run()


# ------------------------------------------------------------------------------- webs

def compute_webs(fn, cand):
    """def-use webs of the scalar / pointer locals in `cand` (decl ids).
    Returns (use_web: DeclRefExpr node id -> version, decl_web: decl -> version of its declaration)."""
    try:
        cfg = fn.cfg
    except AnalysisBroken:
        return None, None
    kill_at = {}
    lhs_kill = {}
    decl_node = {}
    for n in fn.walk():
        k = n.get("k")
        if k == "DeclStmt":
            for d in n.get("decls", []):
                dd = d.get("decl")
                if dd in cand:
                    defid = ("d", dd)
                    decl_node[dd] = n
                    kill_at.setdefault(n["id"], []).append((dd, defid))
                    kill_at.setdefault(("decl", dd), []).append((dd, defid))
        elif k == "BinaryOperator" and n.get("op") == "=":
            c = n.get("c") or []
            if len(c) == 2 and c[0].get("k") == "DeclRefExpr" and c[0]["ref"].get("decl") in cand:
                dd = c[0]["ref"]["decl"]
                defid = ("a", n["id"])
                kill_at.setdefault(n["id"], []).append((dd, defid))
                lhs_kill[c[0]["id"]] = defid
    entry_state = {}
    for p in fn.params:
        if p["decl"] in cand:
            entry_state[p["decl"]] = frozenset([("p", p["decl"])])

    def ekey(e):
        if isinstance(e, int):
            return e
        if isinstance(e, dict) and "decl" in e:
            return ("decl", e["decl"])
        return None

    def transfer(bid, state, record=None):
        state = dict(state)
        for e in cfg.blocks[bid].get("el", []):
            key = ekey(e)
            if key is None:
                continue
            if isinstance(key, int) and record is not None:
                nd = fn.nodes.get(key)
                if nd is not None and nd.get("k") == "DeclRefExpr" and key not in lhs_kill:
                    dd = nd["ref"].get("decl")
                    if dd in cand:
                        record[key] = (dd, state.get(dd, frozenset()))
            for dd, defid in kill_at.get(key, ()):
                state[dd] = frozenset([defid])
        return state

    def merge(states):
        out = {}
        for s in states:
            for dd, defs in s.items():
                out[dd] = out[dd] | defs if dd in out else defs
        return out

    reach = [b for b in cfg.blocks if b in cfg.reach]
    out_state = {b: {} for b in reach}
    in_state = {b: {} for b in reach}
    work = list(reach)
    inwork = set(work)
    guard = 0
    while work:
        guard += 1
        if guard > 200000:
            return None, None
        b = work.pop()
        inwork.discard(b)
        preds = [p for p in cfg.pred.get(b, []) if p in out_state]
        ins = merge([out_state[p] for p in preds] + ([entry_state] if b == cfg.entry else []))
        in_state[b] = ins
        new = transfer(b, ins)
        if new != out_state[b]:
            out_state[b] = new
            for s in cfg.succ.get(b, []):
                if s in out_state and s not in inwork:
                    work.append(s)
                    inwork.add(s)
    uses = {}
    for b in reach:
        transfer(b, in_state[b], uses)
    # union-find over definitions
    parent = {}

    def find(x):
        parent.setdefault(x, x)
        while parent[x] != x:
            parent[x] = parent[parent[x]]
            x = parent[x]
        return x

    def uni(a, b):
        a, b = find(a), find(b)
        if a != b:
            parent[b] = a

    all_defs = {}
    for key, lst in kill_at.items():
        for dd, defid in lst:
            all_defs.setdefault(dd, set()).add(defid)
            find(defid)
    for p in fn.params:
        if p["decl"] in cand:
            all_defs.setdefault(p["decl"], set()).add(("p", p["decl"]))
            find(("p", p["decl"]))
    for nid, (dd, defs) in uses.items():
        defs = list(defs)
        if not defs:
            defs = [("d", dd)] if ("d", dd) in all_defs.get(dd, ()) else [("p", dd)]
            all_defs.setdefault(dd, set()).add(defs[0])
            uses[nid] = (dd, frozenset(defs))
        for x in defs[1:]:
            uni(defs[0], x)

    def def_pos(defid):
        if defid[0] == "p":
            return (0, 0, 0)
        if defid[0] == "d":
            n = decl_node.get(defid[1])
        else:
            n = fn.nodes.get(defid[1])
        if n is None:
            return (1, 0, 0)
        return (n.get("line") or 0, n.get("col") or 0, n.get("id") or 0)

    version = {}
    for dd, defs in all_defs.items():
        groups = {}
        for d in defs:
            groups.setdefault(find(d), []).append(d)
        order = sorted(groups.items(), key=lambda kv: min(def_pos(d) for d in kv[1]))
        for i, (root, _) in enumerate(order):
            version[root] = i
    use_web = {}
    for nid, (dd, defs) in uses.items():
        use_web[nid] = version[find(next(iter(defs)))]
    for nid, defid in lhs_kill.items():
        use_web[nid] = version[find(defid)]
    decl_web = {}
    for dd, defs in all_defs.items():
        if ("d", dd) in defs:
            decl_web[dd] = version[find(("d", dd))]
        elif ("p", dd) in defs:
            decl_web[dd] = version[find(("p", dd))]
    return use_web, decl_web


# ------------------------------------------------------------------------------- per function

class FnEnv2(idx.FnEnv):
    def __init__(self, T, fn):
        super().__init__(T, fn)
        self.fixed_const = {}
        self.obj_path = {}      # local reference / pointer to an object that has its own slot table
        cand = {d for d, t in self.decl_type.items() if intlike(t)}
        self.use_web, self.decl_web = compute_webs(fn, cand)
        self.cls = strip_targs(fn.cls or "")
        self.foreign_map = T.foreign.get(fn.qn)
        self.spec = T.method_spec2(fn.qn, self.cls, len(fn.params))

    # -- helpers
    def version_of(self, decl, node):
        if self.use_web is None:
            return None
        return self.use_web.get(node["id"])

    def _mk(self, spec, count=False):
        """('s', space[, True]) - the optional third element marks a *count* of that numbering."""
        if spec is None:
            return None
        if isinstance(spec, str):
            return ("s", spec, True) if count else ("s", spec)
        if isinstance(spec, dict) and "index" in spec:
            return ("c", list(spec["index"]), self._mk(spec.get("value")))
        if isinstance(spec, dict) and "space" in spec:
            return ("s", spec["space"], True) if spec.get("count") else ("s", spec["space"])
        return None

    @staticmethod
    def _bs(t):
        """bind label of a fixed type: '#S' for a count of S."""
        return ("#" + t[1]) if len(t) > 2 and t[2] else t[1]

    def _subst(self, t, m):
        if t is None or not m:
            return t
        if t[0] == "s":
            return ("s", m.get(t[1], t[1])) + tuple(t[2:])
        if t[0] == "c":
            return ("c", [m.get(x, x) if isinstance(x, str) else x for x in t[1]], self._subst(t[2], m))
        return t

    def path_of(self, e):
        """'Owner::field' if the expression denotes an object held in a field that has path-qualified slots
        (directly, or through a local reference / pointer initialised from it)."""
        while e is not None and e.get("k") == "UnaryOperator" and e.get("op") in ("*", "&") and e.get("c"):
            e = e["c"][0]
        if e is None:
            return None
        if e.get("k") == "MemberExpr" and e.get("mk") == "field":
            key = "%s::%s" % (strip_targs(e.get("owner", "")), e.get("member"))
            return key if key in self.T.paths else None
        if e.get("k") == "DeclRefExpr":
            return self.obj_path.get(e["ref"].get("decl"))
        return None

    def _is_foreign(self, base, owner):
        return (self.foreign_map is not None and base is not None and base.get("k") != "CXXThisExpr"
                and owner == self.cls)

    # -- parameters and tabled locals
    def param_specs(self):
        fn = self.fn
        spec = self.spec
        args = spec.get("args", []) if spec else []
        for pos, p in enumerate(fn.params):
            a = args[pos] if pos < len(args) else None
            if isinstance(a, str):
                if intlike(p["t"]):
                    self.T.bind(self.T.var(fn, p["decl"], p["name"]), a,
                                "signature of %s: parameter '%s' is %s" % (short(fn.qn), p["name"], a))
            elif isinstance(a, dict) and "elems" in a:
                if intlike(p["t"]):
                    self.T.bind(self.T.var(fn, p["decl"], p["name"]), a["elems"],
                                "signature of %s: elements of '%s' are %s" % (short(fn.qn), p["name"], a["elems"]))
            elif isinstance(a, dict) and "index" in a:
                self.cont[p["decl"]] = self._mk(a)
            elif a is None and not intlike(p["t"]):
                c = self.inferred_container(p["decl"], p["name"], p["t"])
                if c is not None:
                    self.cont[p["decl"]] = c

    def container_kind(self, t):
        base = strip_targs(_norm_t(t).rstrip("&* ").strip())
        full = _norm_t(t).rstrip("& ").strip()
        kinds = self.T.local_kinds
        return kinds.get(full) or kinds.get(base)

    def inferred_container(self, decl, name, t):
        kind = self.container_kind(t)
        if not kind:
            return None
        fn = self.fn
        idxs = [("v", self.T.cont_var(fn, decl, name, "[%d]" % (i + 1))) for i in range(kind["dims"])]
        val = ("v", self.T.cont_var(fn, decl, name, "[*]")) if kind.get("int") else None
        return ("c", [x[1] for x in idxs], val)

    def tabled_local(self, d):
        specs = self.T.local_specs.get(self.fn.qn)
        if not specs:
            return None
        t = _norm_t(d.get("t", "")).rstrip("& ").strip()
        for s in specs:
            if s.get("type") == t and self._n_locals_of_type(t) == 1:
                return self._mk(s)
        return None

    def _n_locals_of_type(self, t):
        n = 0
        for dd, tt in self.decl_type.items():
            if _norm_t(tt).rstrip("& ").strip() == t and dd not in [p["decl"] for p in self.fn.params]:
                n += 1
        return n

    # -- expression typing
    def ty(self, n):
        if n is None:
            return None
        k = n.get("k")
        c = n.get("c") or []
        fn = self.fn
        if k == "DeclRefExpr":
            r = n["ref"]
            d = r.get("decl")
            if d is None:
                return None
            if d in self.cont:
                return self.cont[d]
            if intlike(self.decl_type.get(d, n.get("t", ""))):
                ver = self.version_of(d, n)
                if ver is None:
                    return None
                return ("v", self.T.var(fn, d, r.get("name", "?"), ver))
            return None
        if k == "MemberExpr" and n.get("mk") == "field":
            return self.field_ty(n)
        if k in ("CXXStaticCastExpr", "CStyleCastExpr", "CXXFunctionalCastExpr", "ImplicitCastExpr",
                 "CXXConstCastExpr"):
            if not intlike(n.get("t", "")):
                return None
            return self.ty(c[0]) if c else None
        if k == "UnaryOperator":
            op = n.get("op")
            if op == "*" and c:
                if not intlike(n.get("t", "")):
                    return None
                t = self.ty(c[0])
                if t is not None and t[0] == "c":
                    return t[2]
                return t
            if op in ("++", "--", "&") and c:
                return self.ty(c[0])
            return None
        if k == "ArraySubscriptExpr" and len(c) == 2:
            return self.subscript(n, c[0], [c[1]])
        if k == "CXXOperatorCallExpr":
            op = n.get("op")
            args = c[1:]
            if op == "()" and (self.lookup_spec(n)[0] is not None or self.scope_target(n) is not None):
                return self.call_result(n)
            if op in ("()", "[]") and args:
                return self.subscript(n, args[0], args[1:])
            if op == "*" and len(args) == 1:
                if not intlike(n.get("t", "")):
                    return None
                t = self.ty(args[0])
                if t is not None and t[0] == "c":
                    return t[2]
                return t
            if op in ("++", "--") and args:
                return self.ty(args[0])
            return None
        if k == "BinaryOperator":
            op = n.get("op")
            if op == ",":
                return self.ty(c[1])
            if op in ("+", "-") and is_ptr(n.get("t", "")):
                return self.arith(n, check=False)
            return None
        if k == "ConditionalOperator" and len(c) == 3:
            a, b = self.ty(c[1]), self.ty(c[2])
            return a or b
        if k in ("CXXMemberCallExpr", "CallExpr"):
            return self.call_result(n)
        return None

    def field_ty(self, n):
        T = self.T
        owner = strip_targs(n.get("owner", ""))
        member = n.get("member")
        c = n.get("c") or []
        base = c[0] if c else None
        spec = None
        path = self.path_of(base)
        if path is not None:
            spec = T.fields.get("%s.%s" % (path, member))
        if spec is None:
            spec = T.field_spec2(owner, member)
        foreign = self._is_foreign(base, owner)
        if spec is not None:
            if isinstance(spec, dict) and spec.get("untyped"):
                return None
            t = self._mk(spec)
            return self._subst(t, self.foreign_map) if foreign else t
        if foreign:
            return None
        if owner in T.infer_classes:
            if intlike(n.get("t", "")):
                return ("v", T.field_var(owner, member))
            kind = self.container_kind(n.get("t", ""))
            if kind:
                return ("c", [T.field_var(owner, "%s[%d]" % (member, i + 1)) for i in range(kind["dims"])],
                        ("v", T.field_var(owner, member + "[*]")) if kind.get("int") else None)
        return None

    # offsets: (terms, constant) of an integer expression built from + and -
    def _lin(self, x, sign, terms):
        k = x.get("k")
        c = x.get("c") or []
        v = _lit(x)
        if v is not None:
            return sign * v
        if k == "BinaryOperator" and x.get("op") in ("+", "-") and len(c) == 2 and not is_ptr(x.get("t", "")):
            a = self._lin(c[0], sign, terms)
            b = self._lin(c[1], sign if x.get("op") == "+" else -sign, terms)
            return a + b
        if k == "UnaryOperator" and x.get("op") == "--" and not x.get("postfix") and c \
                and not is_ptr(x.get("t", "")):
            terms.append((sign, c[0]))
            return -sign
        terms.append((sign, x))
        return 0

    def index_slot(self, expr, sp, node, what):
        """expr is used as an index of a slot whose space is sp (a name or a type variable)."""
        if isinstance(sp, Var):
            t = self.ty(expr)
            self.T.slot_count += 1
            if t is None:
                return
            if t[0] == "v":
                union(sp, t[1])
            elif t[0] == "s":
                self.T.bind(sp, t[1], _site(self.fn, node, "%s given '%s' (%s)" % (what, F.expr_text(expr), t[1])))
            return
        terms = []
        const = self._lin(expr, 1, terms)
        if len(terms) == 1 and terms[0][0] == 1 and const == -1 and sp in self.T.plus:
            # the tabled shift idiom: a[x - 1] / a[--x] with a 0-based and x 1-based
            self.slot(terms[0][1], self.T.plus[sp], node, what + " (0-based, given x-1)")
            return
        if len(terms) == 1 and terms[0][0] == 1 and const == 0:
            self.slot(terms[0][1], sp, node, what)
            return
        self.T.slot_count += 1     # arithmetic: untyped

    def arith(self, n, check=True):
        """pointer arithmetic `array + k`: k is a subscript of the array; the result points to an element."""
        terms = []
        const = 0
        x = n
        while x.get("k") == "BinaryOperator" and x.get("op") in ("+", "-") and is_ptr(x.get("t", "")) \
                and len(x.get("c") or []) == 2 and is_ptr((x["c"][0]).get("t", "")):
            const += self._lin(x["c"][1], 1 if x.get("op") == "+" else -1, terms)
            x = x["c"][0]
        bt = self.ty(x)
        if bt is None:
            return None
        if bt[0] in ("v", "s"):
            return bt
        if bt[0] == "c" and bt[1]:
            sp = bt[1][0]
            if check and sp is not None and len(terms) == 1 and terms[0][0] == 1:
                e = terms[0][1]
                what = "offset into %s" % F.expr_text(x)
                if isinstance(sp, Var):
                    if const == 0:
                        self.index_slot(e, sp, n, what)
                elif const == -1 and sp in self.T.plus:
                    self.slot(e, self.T.plus[sp], n, what + " (0-based, given x-1)")
                elif const == 0:
                    self.slot(e, sp, n, what)
            rest = bt[1][1:]
            if rest:
                return None
            v = bt[2]
            return v if v is not None and v[0] in ("s", "v") else None
        return None

    def subscript(self, node, base, idxs):
        bt = self.ty(base)
        if bt is None:
            for i in idxs:
                self.ty(i)
            return None
        if bt[0] in ("v", "s"):
            return bt
        if bt[0] == "c":
            spaces = bt[1]
            for pos, i in enumerate(idxs):
                if pos < len(spaces) and spaces[pos] is not None:
                    self.index_slot(i, spaces[pos], node, "subscript %d of %s" % (pos + 1, F.expr_text(base)))
            rest = spaces[len(idxs):]
            if rest:
                return ("c", rest, bt[2])
            return bt[2]
        return None

    # -- calls
    def scope_target(self, n):
        key = n.get("calleeKey")
        if key and key in self.T.scope_keys:
            return self.T.fx.functions.get(key)
        return None

    def lookup_spec(self, n):
        """(spec, renaming) for a call: path-qualified (`Owner::field.method`), arity-qualified, inherited."""
        T = self.T
        callee = strip_targs(n.get("callee") or "")
        if not callee:
            return None, None
        cls = strip_targs(n.get("calleeClass") or "")
        args = F.call_args(n)
        obj = F.call_object(n)
        nargs = len(args)
        if n.get("k") == "CXXOperatorCallExpr" and n.get("memberOp"):
            nargs -= 1
        name = callee.rsplit("::", 1)[-1]
        path = self.path_of(obj)
        if path is not None:
            base = "%s.%s" % (path, name)
            for key in ("%s/%d" % (base, nargs), base):
                spec = T.methods.get(key)
                if spec is not None:
                    return spec, None
        spec = T.method_spec2(callee, cls, nargs)
        if spec is None:
            return None, None
        ren = None
        if self.foreign_map is not None and obj is not None and obj.get("k") != "CXXThisExpr" and cls == self.cls:
            ren = self.foreign_map
        return spec, ren

    def real_args(self, n):
        args = F.call_args(n)
        if n.get("k") == "CXXOperatorCallExpr" and n.get("memberOp"):
            return args[1:]
        return args

    def call_result(self, n):
        callee = strip_targs(n.get("callee") or "")
        if not callee:
            return None
        if callee in ("std::max", "std::min"):
            args = F.call_args(n)
            if len(args) == 2:
                return self.ty(args[0]) or self.ty(args[1])
            return None
        if callee in self.T.begin_like:
            obj = F.call_object(n)
            t = self.ty(obj) if obj is not None else None
            return t if t is not None and t[0] == "c" else None
        spec, ren = self.lookup_spec(n)
        if spec is not None:
            r = None
            if spec.get("ret"):
                r = self._mk(spec["ret"], bool(spec.get("count")))
            elif spec.get("ret_elems"):
                r = ("s", spec["ret_elems"])
            return self._subst(r, ren)
        target = self.scope_target(n)
        if target is not None and intlike(target.rec.get("ret", "")):
            # the result of an analysed function: a per-call proxy, joined with the function's result
            # variable only if that one turns out to carry a space (a space-polymorphic helper must
            # not merge its callers)
            pv = self.T.proxy_var(self.fn, n, short(callee))
            return ("v", pv)
        return None

    def slot(self, expr, space, node, what):
        t = self.ty(expr)
        self.T.slot_count += 1
        site = _site(self.fn, node, "%s expects %s, given '%s'" % (what, space, F.expr_text(expr)))
        if t is None:
            return
        if t[0] == "v":
            self.T.bind(t[1], space, site)
        elif t[0] == "s":
            if not self.T.same(t[1], space):
                self.T.conflicts.append({
                    "fn": self.fn, "node": node,
                    "key": "%s:%s<-%s" % (self.fn.sig, what.replace(" ", "_"), F.expr_text(expr)),
                    "msg": "%s expects an index in space %s but '%s' is in space %s"
                           % (what, space, F.expr_text(expr), t[1])})

    def join(self, ta, tb, node, what):
        """two typed values must be in the same space."""
        if ta is None or tb is None:
            return
        site = _site(self.fn, node, what)
        if ta[0] == "v" and tb[0] == "v":
            union(ta[1], tb[1])
        elif ta[0] == "v" and tb[0] == "s":
            self.T.bind(ta[1], self._bs(tb), site)
        elif ta[0] == "s" and tb[0] == "v":
            self.T.bind(tb[1], self._bs(ta), site)
        elif ta[0] == "s" and tb[0] == "s":
            if not self.T.same(ta[1], tb[1]):
                self.T.conflicts.append({
                    "fn": self.fn, "node": node,
                    "key": "%s:%s" % (self.fn.sig, F.expr_text(node)),
                    "msg": "%s mixes index spaces %s and %s" % (what, ta[1], tb[1])})
        elif ta[0] == "c" and tb[0] == "c":
            for x, y in zip(ta[1], tb[1]):
                if x is None or y is None:
                    continue
                self.join(("v", x) if isinstance(x, Var) else ("s", x),
                          ("v", y) if isinstance(y, Var) else ("s", y), node, what + " (index)")
            if ta[2] is not None and tb[2] is not None:
                self.join(ta[2], tb[2], node, what + " (elements)")

    def equate(self, a, b, node, what):
        self.join(self.ty(a), self.ty(b), node, what)

    def fixed_space(self, expr, t):
        if t is None:
            return None
        if t[0] == "s":
            return t[1] if t[1] not in self.T.lengths else None
        if expr.get("k") == "DeclRefExpr" and expr["ref"].get("decl") in self.fixed_const:
            sp = self.fixed_const[expr["ref"]["decl"]]
            return sp if sp not in self.T.lengths else None
        return None

    def order(self, a, b, node):
        """a <,<=,>,>= b: constrains only against a value of fixed space, and only as a *bound*: the other
        side is an index (or count) of a numbering with as many elements."""
        ta, tb = self.ty(a), self.ty(b)
        if ta is None or tb is None or ta[0] not in ("v", "s") or tb[0] not in ("v", "s"):
            return
        fa, fb = self.fixed_space(a, ta), self.fixed_space(b, tb)
        what = "comparison '%s'" % F.expr_text(node)
        site = _site(self.fn, node, what)
        self.T.slot_count += 1
        if fa is not None and fb is not None:
            return        # two fixed values: a comparison of counts (fewer observations than unknowns)
        elif fa is not None and tb[0] == "v":
            self.T.bind(tb[1], "<=" + fa, site)
        elif fb is not None and ta[0] == "v":
            self.T.bind(ta[1], "<=" + fb, site)

    def call_constraints(self, n):
        fn = self.fn
        T = self.T
        k = n.get("k")
        callee = strip_targs(n.get("callee") or "")
        if k == "CXXOperatorCallExpr":
            op = n.get("op")
            if op == "()" and (self.lookup_spec(n)[0] is not None or self.scope_target(n) is not None):
                pass
            elif op in ("()", "[]", "*", "++", "--"):
                self.ty(n)
                return
            elif op == "=" and len(n.get("c", [])) == 3:
                return
            else:
                return
        if not callee:
            return
        args = self.real_args(n)
        if callee == "std::swap" and len(args) == 2:
            self.equate(args[0], args[1], n, "swap")
            return
        if callee in ("std::max", "std::min") and len(args) == 2:
            self.equate(args[0], args[1], n, "%s(%s, %s)" % (callee, F.expr_text(args[0]), F.expr_text(args[1])))
            return
        if callee in ("memcpy", "std::memcpy", "memmove", "std::memmove") and len(args) >= 2:
            self.equate(args[0], args[1], n, "memcpy(%s, %s)" % (F.expr_text(args[0]), F.expr_text(args[1])))
            return
        spec, ren = self.lookup_spec(n)
        if spec is not None:
            if spec.get("cache_key"):
                return
            for pos, (a, s) in enumerate(zip(args, spec.get("args", []))):
                if s is None:
                    continue
                what = "argument %d of %s" % (pos + 1, short(callee))
                if isinstance(s, str):
                    s = (ren or {}).get(s, s)
                    self.index_slot(a, s, n, what)
                elif isinstance(s, dict) and "elems" in s:
                    self.slot(a, (ren or {}).get(s["elems"], s["elems"]), n, what + " (elements)")
                elif isinstance(s, dict) and "index" in s:
                    T.slot_count += 1
                    self.join(self.ty(a), self._subst(self._mk(s), ren), n, what)
            return
        target = self.scope_target(n)
        if target is not None:
            tenv = None
            for a, p in zip(args, target.params):
                at = self.ty(a)
                if at is None:
                    continue
                site = _site(fn, n, "argument '%s' of %s" % (p["name"], short(callee)))
                if intlike(p["t"]):
                    if at[0] not in ("v", "s"):
                        continue
                    pv = T.var(target, p["decl"], p["name"])
                    T.slot_count += 1
                    T.deferred.append((("v", pv), at, site))
                elif at[0] == "c":
                    if tenv is None:
                        tenv = FnEnv2.__new__(FnEnv2)
                        tenv.T, tenv.fn = T, target
                    tspec = T.method_spec2(target.qn, strip_targs(target.cls or ""), len(target.params))
                    if tspec is not None:
                        continue
                    pc = FnEnv2.inferred_container(tenv, p["decl"], p["name"], p["t"])
                    if pc is not None:
                        T.slot_count += 1
                        for x, y in zip(pc[1], at[1]):
                            if y is not None:
                                T.deferred.append((("v", x), ("v", y) if isinstance(y, Var) else ("s", y), site))
                        if pc[2] is not None and at[2] is not None and at[2][0] in ("v", "s"):
                            T.deferred.append((pc[2], at[2], site))

    # -- statements
    def run(self):
        fn = self.fn
        T = self.T
        self.param_specs()
        inner_ptr = set()
        for n in fn.walk():
            if n.get("k") == "BinaryOperator" and n.get("op") in ("+", "-") and is_ptr(n.get("t", "")):
                c0 = (n.get("c") or [None])[0]
                if c0 is not None and c0.get("k") == "BinaryOperator" and c0.get("op") in ("+", "-") \
                        and is_ptr(c0.get("t", "")):
                    inner_ptr.add(c0["id"])
        for n in fn.walk():
            k = n.get("k")
            c = n.get("c") or []
            if k == "DeclStmt":
                for d in n.get("decls", []):
                    self.declare(n, d)
            elif k == "BinaryOperator":
                op = n.get("op")
                if op == "=" and len(c) == 2:
                    if self._identity_init(c[0], c[1]):
                        self.ty(c[0])
                        continue
                    self.equate(c[0], c[1], n, "assignment '%s'" % F.expr_text(n))
                elif op in ("==", "!=") and len(c) == 2:
                    self.equate(c[0], c[1], n, "comparison '%s'" % F.expr_text(n))
                elif op in ("<", ">", "<=", ">=") and len(c) == 2:
                    self.order(c[0], c[1], n)
                elif op in ("+", "-") and is_ptr(n.get("t", "")) and n["id"] not in inner_ptr:
                    self.arith(n, check=True)
            elif k == "ConditionalOperator" and len(c) == 3:
                ta, tb = self.ty(c[1]), self.ty(c[2])
                if ta is not None and tb is not None and ta[0] in ("v", "s") and tb[0] in ("v", "s"):
                    self.join(ta, tb, n, "arms of '%s'" % F.expr_text(n))
            elif k in ("CXXMemberCallExpr", "CallExpr", "CXXOperatorCallExpr", "CXXConstructExpr",
                       "CXXTemporaryObjectExpr"):
                self.call_constraints(n)
            elif k == "ArraySubscriptExpr":
                self.ty(n)
            elif k == "ReturnStmt":
                self.returns(n)
        for i in fn.rec.get("inits", []) or []:
            f = i.get("field")
            init = i.get("init")
            if not f or init is None or not self.cls:
                continue
            ft = T.field_type_of(self.cls, f)
            if not ft or is_ptr(ft):
                continue
            if not intlike(ft) and not self.container_kind(ft):
                continue
            if not intlike(ft) and init.get("k") == "CXXConstructExpr" and len(init.get("c") or []) == 1:
                init = init["c"][0]
            fake = {"k": "MemberExpr", "mk": "field", "owner": self.cls, "member": f, "t": ft,
                    "c": [{"k": "CXXThisExpr"}]}
            self.join(self.field_ty(fake), self.ty(init), init, "initialiser of %s" % f)

    def declare(self, stmt, d):
        fn = self.fn
        T = self.T
        if "decl" not in d:
            return
        init = d.get("init")
        t = d.get("t", "")
        tl = self.tabled_local(d)
        if tl is not None:
            self.cont[d["decl"]] = tl
            return
        if not intlike(t):
            if init is not None and ("&" in t or "*" in t):
                path = self.path_of(init)
                if path is not None:
                    self.obj_path[d["decl"]] = path
                    return
            if init is not None:
                it = self.ty(init)
                if it is not None and it[0] == "c":
                    self.cont[d["decl"]] = it
                    return
            if "&" not in t:
                c = self.inferred_container(d["decl"], d["name"], t)
                if c is not None:
                    self.cont[d["decl"]] = c
            return
        if init is None:
            return
        if is_ptr(t) and init.get("k") == "CXXNewExpr" and init.get("array"):
            self.cont[d["decl"]] = ("c", [T.cont_var(fn, d["decl"], d["name"], "[1]")],
                                    ("v", T.cont_var(fn, d["decl"], d["name"], "[*]")))
            return
        it = self.ty(init)
        if it is None:
            return
        if it[0] == "c":
            self.cont[d["decl"]] = it
            return
        ver = (self.decl_web or {}).get(d["decl"])
        if ver is None:
            return
        v = T.var(fn, d["decl"], d["name"], ver)
        site = _site(fn, stmt, "initialisation of '%s' from '%s'" % (d["name"], F.expr_text(init)))
        if it[0] == "v":
            union(v, it[1])
        else:
            T.bind(v, self._bs(it), site)
            if re.search(r"\bconst\b", t) and not is_ptr(t):
                self.fixed_const[d["decl"]] = it[1]

    def returns(self, n):
        c = n.get("c") or []
        e = c[0] if c else n.get("value")
        if e is None:
            return
        spec = self.spec
        if spec is not None:
            r = None
            if spec.get("ret"):
                r = self._mk(spec["ret"])
            elif spec.get("ret_elems"):
                r = ("s", spec["ret_elems"])
            if r is None:
                return
            self.T.slot_count += 1
            et = self.ty(e)
            if et is not None and et[0] == "c" and r[0] == "s":
                et = et[2]
            self.join(et, r, n, "result of %s" % short(self.fn.qn))
            return
        if intlike(self.fn.rec.get("ret", "")):
            et = self.ty(e)
            if et is not None and et[0] == "c":
                et = et[2]
            if et is not None and et[0] in ("v", "s"):
                self.join(("v", self.T.ret_var(self.fn)), et, n, "result of %s" % short(self.fn.qn))


# ------------------------------------------------------------------------------- driver

def check_anchors(T, methods, fields, sub):
    """every tabled slot must still exist in the sources: a vanished anchor is exit 2, never a silent pass."""
    fx = T.fx

    def has_field(owner, member):
        return T.field_type_of(T._q(owner), member) is not None

    def has_method(qn):
        return bool([f for f in fx.functions.values() if f.qn == T._q(qn)])

    for k in methods:
        name = k.split("/")[0]
        if "." in name.split("::")[-1]:
            path, meth = name.rsplit(".", 1)
            owner, fld = path.rsplit("::", 1)
            ft = T.field_type_of(T._q(owner), fld)
            if ft is None:
                raise AnalysisBroken("R-IDX: tabled object %s not found" % path)
            cls = strip_targs(_norm_t(ft).rstrip("&* ").strip())
            if not has_method("::" + cls + "::" + meth) and not has_method(cls + "::" + meth):
                raise AnalysisBroken("R-IDX: tabled method %s (of %s) not found" % (k, cls))
        elif not has_method(name):
            raise AnalysisBroken("R-IDX: tabled method %s not found" % k)
    for k in fields:
        if "." in k.split("::")[-1]:
            path, member = k.rsplit(".", 1)
            owner, fld = path.rsplit("::", 1)
            ft = T.field_type_of(T._q(owner), fld)
            if ft is None:
                raise AnalysisBroken("R-IDX: tabled object %s not found" % path)
            cls = strip_targs(_norm_t(ft).rstrip("&* ").strip())
            if T.field_type_of(cls, member) is None:
                raise AnalysisBroken("R-IDX: tabled field %s (of %s) not found" % (k, cls))
        else:
            owner, member = k.rsplit("::", 1)
            if not has_field(owner, member):
                raise AnalysisBroken("R-IDX: tabled field %s not found" % k)
    for q in list(sub.get("foreign", {})) + list(sub.get("locals", {})):
        if not q.startswith("_") and not has_method(q):
            raise AnalysisBroken("R-IDX: tabled function %s not found" % q)


def run_typer2(ctx, part):
    table = engine.load_table(TABLE)
    sub = dict(table[part])
    if sub.get("extends"):
        base = engine.load_table(sub["extends"])
        methods = dict(base.get("methods", {}))
        methods.update(sub.get("methods", {}))
        fields = dict(base.get("fields", {}))
        fields.update(sub.get("fields", {}))
        sub["methods"], sub["fields"] = methods, fields
        compat = dict(base.get("compatible", {}))
        compat.update(sub.get("compatible", {}))
        sub["compatible"] = compat
    own_methods = [k for k in table[part].get("methods", {}) if not k.startswith("_")]
    own_fields = [k for k in table[part].get("fields", {}) if not k.startswith("_")]
    sub.setdefault("methods", {})
    sub.setdefault("fields", {})
    for k in ("minus_one", "local_containers", "container_begin"):
        if k not in sub and k in table:
            sub[k] = table[k]
    sub["methods"] = {k: v for k, v in sub["methods"].items() if not k.startswith("_")}
    sub["fields"] = {k: v for k, v in sub["fields"].items() if not k.startswith("_")}
    fx = ctx.facts
    T = Typer2(ctx, sub)
    check_anchors(T, own_methods, own_fields, sub)
    sc = sub["scope"]
    fns = []
    for cname in sc.get("classes", []):
        q = T._q(cname)
        ms = [f for f in fx.functions.values() if strip_targs(f.cls or "") == q]
        if not ms:
            raise AnalysisBroken("R-IDX: class %s has no analysed methods" % cname)
        fns.extend(ms)
        if cname not in sc.get("no_field_inference", {}):
            T.infer_classes.add(q)
    for qn in sc.get("functions", []):
        cand = [f for f in fx.functions.values() if f.qn == T._q(qn)]
        if not cand:
            raise AnalysisBroken("R-IDX: anchor function %s not found" % qn)
        fns.extend(cand)
    excl = {T._q(k) for k in sc.get("exclude", {}) if not k.startswith("_")}
    seen, uniq = set(), []
    for f in sorted(fns, key=lambda f: f.key):
        if f.qn in excl or f.body is None or f.key in seen:
            continue
        seen.add(f.key)
        uniq.append(f)
    T.scope_keys = seen
    for f in uniq:
        T.analyse(f)
    # call edges into analysed functions: applied (to a fixed point) only where the callee side carries a
    # space; a helper that is polymorphic in its integer parameter / result does not merge its callers
    def grounded(v):
        r = v.find()
        if r.binds:
            return True
        return id(r) in field_roots

    changed = True
    while changed:
        changed = False
        rest = []
        field_roots = {id(v.find()) for v in T.vars.values() if id(v) in T.field_vars}
        for callee_t, caller_t, site in T.deferred:
            if grounded(callee_t[1]):
                changed = True
                if caller_t[0] == "v":
                    union(callee_t[1], caller_t[1])
                else:
                    T.bind(callee_t[1], FnEnv2._bs(caller_t), site)
            else:
                rest.append((callee_t, caller_t, site))
        T.deferred = rest
    return T, uniq, sub


def report2(ctx, T, label, match=None):
    """one instance per typed variable class (unique key: the alphabetically first member, numbered if
    needed) and per direct slot conflict; `match` (substrings of member names / conflict keys) selects
    the instances of one property view."""
    def sel(names):
        return match is None or any(m in n for n in names for m in match)
    roots = {}
    for key, v in T.vars.items():
        r = v.find()
        roots.setdefault(id(r), (r, []))[1].append(v)
    n_typed = 0
    used = {}
    items = []
    for r, members in roots.values():
        if not r.binds:
            continue
        real = [m for m in members if id(m) not in T.proxies]
        if not real or not sel([m.name for m in real]):
            continue
        items.append((sorted(m.name for m in real)[0], r))
    for name, r in sorted(items, key=lambda x: x[0]):
        n_typed += 1
        used[name] = used.get(name, 0) + 1
        key = "%s:var:%s%s" % (label, name, "" if used[name] == 1 else "#%d" % used[name])
        spaces, bounds, counts = {}, {}, {}
        for s, site in r.binds:
            if s.startswith("<="):
                bounds.setdefault(s[2:], site)
            elif s.startswith("#"):
                counts.setdefault(s[1:], site)
            else:
                spaces.setdefault(s, site)
        if not spaces and counts:
            # a variable that only holds counts: ordering it against another count is no index confusion
            bounds = {}
        for s, site in counts.items():
            spaces.setdefault(s, site + " (a count)")
        distinct = []
        for s in spaces:
            if not any(T.same(s, d) for d in distinct):
                distinct.append(s)
        # a bound (ordering against a value of fixed space B) agrees with a use in space S if S is B or a
        # numbering with as many elements by construction; alone it types the variable
        for b, site in bounds.items():
            if not distinct and not spaces:
                spaces[b] = site
                distinct.append(b)
            elif any(T.same(b, d) for d in distinct):
                continue
            elif spaces and all(T.equinumerous(b, d) for d in spaces):
                continue
            else:
                spaces.setdefault(b, site + " (as a bound)")
                if not any(T.same(b, d) for d in distinct):
                    distinct.append(b)
        if len(distinct) > 1:
            ctx.bad(RULE, key, spaces[distinct[0]].split(" ")[0], name.split(":")[0],
                    "index variable is used in %d different index spaces: %s"
                    % (len(distinct), "; ".join("%s at %s" % (s, spaces[s]) for s in distinct)),
                    {"uses": [{"space": s, "site": site} for s, site in r.binds][:12]})
        else:
            ctx.ok(RULE, key, detail={"space": distinct[0], "uses": len(r.binds)})
    seen = set()
    for c in T.conflicts:
        key = "%s:slot:%s" % (label, c["key"])
        if key in seen or not sel([c["key"]]):
            continue
        seen.add(key)
        ctx.bad(RULE, key, c["fn"].where(c["node"]), c["fn"].short, c["msg"])
    return n_typed


def _run(ctx, part, label, floor_vars, floor_slots, floor_fns, view=None):
    T, fns, sub = run_typer2(ctx, part)
    match = sub["scope"]["views"][view]["match"] if view else None
    n = report2(ctx, T, label, match)
    ctx.floor(RULE, floor_vars, n, "typed index variables (%s%s)" % (label, " " + view if view else ""))
    ctx.floor(RULE, floor_slots, T.slot_count, "typed slots (%s)" % label)
    ctx.floor(RULE, floor_fns, len(fns), "analysed functions (%s)" % label)
    return {"typed_slots": T.slot_count, "typed_variables": n, "functions": len(fns)}


# measured on the unchanged tree: sparse 129 variables / 445 slots / 100 functions,
# network 133 variables / 620 slots / 348 functions; floors at about 80 %.

def rule_idx2_sparse(ctx):
    """C16: index spaces inside SparseMatrix / Adjacency / ordering / Envelope / BlockDiagonal / Homogenization."""
    return _run(ctx, "sparse", "idx2s", 103, 356, 80)


def rule_idx2_network(ctx):
    """C12 (+ C09, C01): observation numbers vs unknown numbers in LocalNetwork and the result writers (all views)."""
    return _run(ctx, "network", "idx2n", 106, 496, 278)


def rule_idx2_network_c09(ctx):
    """C09 view: the standard-deviation / cofactor accessors of LocalNetwork and the code that fills them."""
    return _run(ctx, "network", "idx2n", 19, 496, 278, "C09")


def rule_idx2_network_c01(ctx):
    """C01 view: project equations, solution and residual path of LocalNetwork."""
    return _run(ctx, "network", "idx2n", 28, 496, 278, "C01")


def rule_idx2_network_c12(ctx):
    """C12 view: the result writers (XML, Octave, SQL, HTML, SVG, text) and the accessors they read."""
    return _run(ctx, "network", "idx2n", 80, 496, 278, "C12")
