"""R-FSM (part 2): the two table-driven parsers and the XSD agreement checks.

* rule_lnar        LocalNetworkAdjustmentResults::Parser (tagfun[state][tag] = &Parser::f, handler stack)
* rule_dataparser  DataParser (init(s,t,next,end,after,stag,data,etag,end2) -> next/after/stag/data/etag)
* rule_xsd_gkf     F6: GKFparser automaton and attribute sets  ==  xml/gama-local.xsd
* rule_xsd_adjxml  C12 vocabulary: LocalNetworkXML literals == Parser::tag() == gama-local-adjustment.xsd

Everything is static.  The transition tables are obtained by *interpreting the constructor code*
over the exported AST (constant arguments, constant loop bounds) - not by matching its text - and
the dynamic part (handlers that assign `state`, `set_state`, `end_tag`, `state = next[state][tag(name)]`)
by a value-partitioned propagation of the state field (StateProp2, an extension of fsm.StateProp with
constant parameter binding, branch refinement on the state / bound parameters, reads of the interpreted
tables, calls through member-function pointers taken from those tables, and the handler stack).
"""
import itertools
import os
import re
import xml.etree.ElementTree as ET

import facts as F
from facts import AnalysisBroken, walk, is_call, strip_targs
import engine
import fsm
from fsm import StateProp, Automaton, check_automaton, TOP

RULE = "R-FSM"
NULL = ("null",)
UNSET = ("unset",)
EMPTY = ("empty",)
UNKNOWN_TAG = ("?tag",)

_CASTS = ("CXXStaticCastExpr", "CStyleCastExpr", "CXXFunctionalCastExpr", "ImplicitCastExpr",
          "CXXReinterpretCastExpr", "CXXConstCastExpr")

_TABLE = None


def table():
    global _TABLE
    if _TABLE is None:
        _TABLE = engine.load_table("fsm2.json")
    return _TABLE


# --------------------------------------------------------------------------- small helpers

def _is_this(n):
    return n is not None and n.get("k") == "CXXThisExpr"


def _this_field(n):
    """name of the field if n is `this->field` (implicit or explicit this), else None"""
    if n is not None and n.get("k") == "MemberExpr" and n.get("mk") == "field":
        c = n.get("c") or []
        if c and _is_this(c[0]):
            return n.get("member")
    return None


def _fn_of_ref(fx, node):
    """Fn referred to by `&Class::method` (UnaryOperator & over a DeclRefExpr to a function)."""
    if node is None or node.get("k") != "UnaryOperator" or node.get("op") != "&":
        return None
    c = (node.get("c") or [None])[0]
    if c is None or c.get("k") != "DeclRefExpr" or c["ref"].get("dk") != "func":
        return None
    qn = strip_targs(c["ref"].get("qn") or "")
    cands = fx.fns(qn)
    if not cands:
        raise AnalysisBroken("address of %s taken, but the function is not in the fact base" % qn)
    if len(cands) == 1:
        return cands[0]
    t = c.get("t") or ""
    sig = t[t.find("("):] if "(" in t else None
    hit = [f for f in cands if sig and (f.key.endswith(sig) or f.key.endswith(sig + " const"))]
    if len(hit) != 1:
        raise AnalysisBroken("cannot resolve overload of %s for type %s" % (qn, t))
    return hit[0]


def _subscript(n, names):
    """(table name, [index nodes]) if n is this->T[i] or this->T[i][j] with T in names."""
    idx = []
    while n is not None and n.get("k") == "ArraySubscriptExpr":
        c = n.get("c") or []
        if len(c) != 2:
            return None
        idx.append(c[1])
        n = c[0]
    f = _this_field(n)
    if f is not None and f in names and idx:
        return f, list(reversed(idx))
    return None


def _kill(locs, d):
    """drop everything known about local/parameter d (it is being modified)"""
    return frozenset(x for x in locs if not (
        x[0] == d or x[0] == ("nz", d) or x[0] == ("alias", d)
        or (isinstance(x[0], tuple) and x[0][0] == "alias" and x[1] == d)))


def _deref_cond(n):
    """(decl, polarity) if n is `*p` / `!*p` / `*p != 0` ... for a local or parameter p"""
    pol = True
    while n is not None and n.get("k") == "UnaryOperator" and n.get("op") == "!":
        pol = not pol
        n = (n.get("c") or [None])[0]
    if n is not None and n.get("k") == "UnaryOperator" and n.get("op") == "*":
        c = (n.get("c") or [None])[0]
        if c is not None and c.get("k") == "DeclRefExpr" and c["ref"].get("dk") in ("parm", "local"):
            return c["ref"]["decl"], pol
    return None


def _truth(v):
    if v is None or v == UNSET:
        return None
    if v == NULL:
        return False
    if isinstance(v, tuple):
        return True
    return v != 0


def _as_int(v):
    if v == NULL:
        return 0
    return v if isinstance(v, int) else None


def _arith(op, a, b):
    a, b = _as_int(a), _as_int(b)
    if a is None or b is None:
        return None
    try:
        return {"==": int(a == b), "!=": int(a != b), "<": int(a < b), "<=": int(a <= b),
                ">": int(a > b), ">=": int(a >= b), "+": a + b, "-": a - b, "*": a * b}[op]
    except KeyError:
        return None


# --------------------------------------------------------------------------- constructor interpreter

class _Return(Exception):
    pass


class TableBuilder:
    """Concrete interpretation of the table-filling code of a parser class: the constructor(s)
    and every member function they call that touches a table or the state field.  Only code whose
    control flow is decided by constants is accepted; anything else that touches a table is
    AnalysisBroken (exit 2), never a guess."""

    def __init__(self, fx, cls, hier, state_field="state", default_args=None):
        self.fx = fx
        self.cls = cls
        self.hier = set(hier)
        self.state_field = state_field
        self.default_args = default_args or {}
        rec = fx.cls(cls)
        self.dims = {}
        self.ptr_table = {}
        for f in rec.get("fields", []):
            if "arraySize" in f:
                d = [int(x) for x in re.findall(r"\[(\d+)\]", f["t"])]
                if d:
                    self.dims[f["name"]] = d
                    self.ptr_table[f["name"]] = "::*" in f["t"]
        if not self.dims:
            raise AnalysisBroken("%s has no array members: no transition table to rebuild" % cls)
        self.tables = {n: {} for n in self.dims}
        self.explicit = {n: {} for n in self.dims}   # key -> [(value, where)] writes outside loops
        self.state = None
        self.oob = []
        self.calls = []          # records of interpreted member calls
        self._stack = []
        self._touch = {}
        self._touch_active = set()
        self.loop_depth = 0
        self.seen_fns = set()

    # -- which code matters
    def _node_touches(self, n):
        f = _this_field(n)
        return f is not None and (f in self.dims or f == self.state_field)

    def _this_callee(self, n):
        if n.get("k") != "CXXMemberCallExpr":
            return None
        if not _is_this(F.call_object(n)):
            return None
        if strip_targs(n.get("calleeClass") or "") not in self.hier:
            return None
        return self.fx.functions.get(n.get("calleeKey"))

    def touches_fn(self, fn):
        if fn.key in self._touch:
            return self._touch[fn.key]
        if fn.key in self._touch_active:
            return False
        self._touch_active.add(fn.key)
        r = any(self._node_touches(n) or
                (self._this_callee(n) is not None and self.touches_fn(self._this_callee(n)))
                for n in fn.walk())
        self._touch_active.discard(fn.key)
        self._touch[fn.key] = r
        return r

    def touches(self, n):
        if n is None:
            return False
        for x in walk(n):
            if self._node_touches(x):
                return True
            c = self._this_callee(x)
            if c is not None and self.touches_fn(c):
                return True
        return False

    # -- driver
    def run(self, ctors):
        for c in ctors:
            self.seen_fns.add(c.key)
            self._call(c, {})
        return self

    def _call(self, fn, env):
        if fn.body is None:
            raise AnalysisBroken("no body for %s" % fn.key)
        if len(self._stack) > 20:
            raise AnalysisBroken("constructor interpretation: call depth exceeded at %s" % fn.key)
        self.seen_fns.add(fn.key)
        try:
            self._exec(fn, fn.body, env)
        except _Return:
            pass

    def _broken(self, fn, n, what):
        raise AnalysisBroken("%s: cannot interpret %s touching a parser table (%s)"
                             % (fn.where(n), n.get("k"), what))

    def _exec(self, fn, n, env):
        if n is None:
            return
        k = n.get("k")
        if k == "CompoundStmt":
            for c in n.get("c") or []:
                self._exec(fn, c, env)
        elif k == "DeclStmt":
            for d in n.get("decls", []):
                if "decl" in d:
                    env[d["decl"]] = self._ev(fn, d["init"], env) if d.get("init") is not None else None
        elif k in ("ForStmt", "WhileStmt"):
            if n.get("init") is not None:
                self._exec(fn, n["init"], env)
            count = 0
            self.loop_depth += 1
            try:
                while True:
                    v = _truth(self._ev(fn, n["cond"], env)) if n.get("cond") is not None else True
                    if v is None:
                        if self.touches(n):
                            self._broken(fn, n, "loop condition is not a constant")
                        return
                    if not v:
                        break
                    self._exec(fn, n.get("body"), env)
                    if n.get("inc") is not None:
                        self._ev(fn, n["inc"], env)
                    count += 1
                    if count > 2000000:
                        self._broken(fn, n, "loop does not terminate")
            finally:
                self.loop_depth -= 1
        elif k == "IfStmt":
            v = _truth(self._ev(fn, n["cond"], env))
            if v is None:
                if self.touches(n.get("then")) or self.touches(n.get("else")):
                    self._broken(fn, n, "branch condition is not a constant")
                return
            self._exec(fn, n.get("then") if v else n.get("else"), env)
        elif k == "ReturnStmt":
            for c in F.children(n):
                self._ev(fn, c, env)
            raise _Return()
        elif k == "NullStmt":
            return
        elif k == "CXXForRangeStmt" and self._table_ref(fn, self._range_init(n), env) is not None:
            # `for (auto& row : table)` / `for (auto& cell : row)`: iterate the next dimension of the table
            name, idx = self._table_ref(fn, self._range_init(n), env)
            dims = self.dims[name]
            if len(idx) >= len(dims):
                self._broken(fn, n, "range-for over a table element")
            var = None
            lv = n.get("loopVar")
            if isinstance(lv, dict):
                for d in lv.get("decls", []) or []:
                    if "decl" in d:
                        var = d["decl"]
            if var is None:
                self._broken(fn, n, "range-for without a loop variable")
            self.loop_depth += 1
            try:
                for i in range(dims[len(idx)]):
                    env[var] = ("ref", name, tuple(idx) + (i,))
                    self._exec(fn, n.get("body"), env)
            finally:
                self.loop_depth -= 1
        elif k in ("DoStmt", "SwitchStmt", "CXXTryStmt", "CXXForRangeStmt", "GotoStmt", "LabelStmt",
                   "BreakStmt", "ContinueStmt"):
            if self.touches(n) or k in ("BreakStmt", "ContinueStmt", "GotoStmt"):
                if self.loop_depth or self.touches(n):
                    self._broken(fn, n, "unsupported statement")
        else:
            self._ev(fn, n, env)

    @staticmethod
    def _range_init(n):
        rs = n.get("rangeStmt")
        if isinstance(rs, dict):
            for d in rs.get("decls", []) or []:
                if d.get("init") is not None:
                    return d["init"]
        return None

    def _table_ref(self, fn, n, env):
        """(table name, constant index prefix) denoted by an expression: the table member itself, a local bound
        to a row by a range-for, or a subscript of one of these"""
        while n is not None and n.get("k") in _CASTS and n.get("c"):
            n = n["c"][0]
        if n is None:
            return None
        f = _this_field(n)
        if f in self.dims:
            return f, ()
        if n.get("k") == "DeclRefExpr" and n["ref"].get("dk") in ("parm", "local", "staticlocal"):
            v = env.get(n["ref"].get("decl"))
            if isinstance(v, tuple) and v and v[0] == "ref":
                return v[1], v[2]
            return None
        if n.get("k") == "ArraySubscriptExpr" and len(n.get("c") or []) == 2:
            base = self._table_ref(fn, n["c"][0], env)
            if base is not None:
                i = self._ev(fn, n["c"][1], env)
                if not isinstance(i, int):
                    self._broken(fn, n, "index of %s is not a constant" % base[0])
                return base[0], tuple(base[1]) + (i,)
        return None

    def _write_key(self, fn, n, name, key, val):
        if self.ptr_table[name]:
            if val == 0:
                val = NULL
            if not (val == NULL or (isinstance(val, tuple) and val[0] == "f")):
                self._broken(fn, n, "value stored to %s is not a known function" % name)
        elif not isinstance(val, int):
            self._broken(fn, n, "value stored to %s is not a constant" % name)
        if any(i < 0 or i >= d for i, d in zip(key, self.dims[name])):
            self.oob.append((name, key, fn.where(n)))
            return
        self.tables[name][key] = val
        if not self.loop_depth:
            self.explicit[name].setdefault(key, []).append((val, fn.where(n)))
        if self._stack:
            self._stack[-1]["writes"].append((name, key, val))

    def _fill(self, fn, n, ref, val):
        """every element below a (partial) table reference gets val - std::fill over a row / the table"""
        name, idx = ref
        dims = self.dims[name]
        rest = dims[len(idx):]
        import itertools as _it
        self.loop_depth += 1
        try:
            for tail in _it.product(*[range(d) for d in rest]):
                self._write_key(fn, n, name, tuple(idx) + tuple(tail), val)
        finally:
            self.loop_depth -= 1

    def _write(self, fn, n, name, idx_nodes, val, env):
        idx = [self._ev(fn, i, env) for i in idx_nodes]
        if any(not isinstance(i, int) for i in idx) or len(idx) != len(self.dims[name]):
            self._broken(fn, n, "index of %s is not a constant" % name)
        if self.ptr_table[name]:
            if val == 0:
                val = NULL
            if not (val == NULL or (isinstance(val, tuple) and val[0] == "f")):
                self._broken(fn, n, "value stored to %s is not a known function" % name)
        elif not isinstance(val, int):
            self._broken(fn, n, "value stored to %s is not a constant" % name)
        key = tuple(idx)
        if any(i < 0 or i >= d for i, d in zip(idx, self.dims[name])):
            self.oob.append((name, key, fn.where(n)))
            return
        self.tables[name][key] = val
        if not self.loop_depth:
            self.explicit[name].setdefault(key, []).append((val, fn.where(n)))
        if self._stack:
            self._stack[-1]["writes"].append((name, key, val))

    def _ev(self, fn, n, env):
        if n is None:
            return None
        k = n.get("k")
        c = n.get("c") or []
        if k == "IntegerLiteral":
            return n.get("v")
        if k == "CXXBoolLiteralExpr":
            return 1 if n.get("v") else 0
        if k in ("CXXNullPtrLiteralExpr", "GNUNullExpr"):
            return NULL
        if k == "DeclRefExpr":
            r = n["ref"]
            if r.get("dk") == "enumconst":
                return r.get("v")
            if r.get("dk") in ("parm", "local", "staticlocal"):
                return env.get(r.get("decl"))
            return None
        if k in _CASTS:
            return self._ev(fn, c[0], env) if c else None
        if k == "UnaryOperator":
            op = n.get("op")
            if op == "&":
                f = _fn_of_ref(self.fx, n)
                if f is not None:
                    return ("f", f.key)
                if self.touches(n):
                    self._broken(fn, n, "address of a table element")
                return None
            if op in ("++", "--") and c and c[0].get("k") == "DeclRefExpr" \
                    and c[0]["ref"].get("dk") in ("parm", "local", "staticlocal"):
                d = c[0]["ref"]["decl"]
                old = env.get(d)
                new = None if not isinstance(old, int) else old + (1 if op == "++" else -1)
                env[d] = new
                return old if n.get("postfix") else new
            v = self._ev(fn, c[0], env) if c else None
            if op == "!":
                t = _truth(v)
                return None if t is None else int(not t)
            if op == "-" and isinstance(v, int):
                return -v
            if op == "+":
                return v
            if self.touches(n):
                self._broken(fn, n, "operator %s" % op)
            return None
        if k == "BinaryOperator":
            op = n.get("op")
            if op == "=":
                lhs, rhs = c
                tr = _subscript(lhs, self.dims)
                if tr is not None:
                    val = self._ev(fn, rhs, env)
                    self._write(fn, n, tr[0], tr[1], val, env)
                    return val
                tref = None
                if lhs.get("k") in ("ArraySubscriptExpr", "DeclRefExpr"):
                    tref = self._table_ref(fn, lhs, env)
                if tref is not None:
                    val = self._ev(fn, rhs, env)
                    if len(tref[1]) != len(self.dims[tref[0]]):
                        self._broken(fn, n, "assignment to a whole row of %s" % tref[0])
                    self._write_key(fn, n, tref[0], tuple(tref[1]), val)
                    return val
                f = _this_field(lhs)
                if f == self.state_field:
                    val = self._ev(fn, rhs, env)
                    if not isinstance(val, int):
                        self._broken(fn, n, "state is set to a non-constant")
                    self.state = val
                    return val
                if f in self.dims:
                    self._broken(fn, n, "whole-table assignment")
                if lhs.get("k") == "DeclRefExpr" and lhs["ref"].get("dk") in ("parm", "local", "staticlocal"):
                    val = self._ev(fn, rhs, env)
                    env[lhs["ref"]["decl"]] = val
                    return val
                if self.touches(lhs):
                    self._broken(fn, n, "assignment through an unsupported l-value")
                return self._ev(fn, rhs, env) if self.touches(rhs) else None
            if op == "&&":
                a = _truth(self._ev(fn, c[0], env))
                if a is False:
                    return 0
                b = _truth(self._ev(fn, c[1], env))
                if a is None or b is None:
                    return 0 if b is False else None
                return int(b)
            if op == "||":
                a = _truth(self._ev(fn, c[0], env))
                if a is True:
                    return 1
                b = _truth(self._ev(fn, c[1], env))
                if a is None or b is None:
                    return 1 if b is True else None
                return int(b)
            if op == ",":
                self._ev(fn, c[0], env)
                return self._ev(fn, c[1], env)
            return _arith(op, self._ev(fn, c[0], env), self._ev(fn, c[1], env))
        if k == "CompoundAssignOperator":
            lhs, rhs = c
            if lhs.get("k") == "DeclRefExpr" and lhs["ref"].get("dk") in ("parm", "local", "staticlocal"):
                d = lhs["ref"]["decl"]
                env[d] = _arith(n.get("op", "")[:-1], env.get(d), self._ev(fn, rhs, env))
                return env[d]
            if self.touches(n):
                self._broken(fn, n, "compound assignment")
            return None
        if k == "ConditionalOperator" and len(c) == 3:
            t = _truth(self._ev(fn, c[0], env))
            if t is None:
                if self.touches(n):
                    self._broken(fn, n, "condition is not a constant")
                return None
            return self._ev(fn, c[1] if t else c[2], env)
        if k == "MemberExpr":
            if _this_field(n) == self.state_field:
                return self.state
            return None
        if k == "InitListExpr":
            return ("arr", tuple(self._ev(fn, x, env) for x in c))
        if k == "ArraySubscriptExpr" and len(c) == 2 and c[0].get("k") == "DeclRefExpr" \
                and c[0]["ref"].get("dk") in ("parm", "local", "staticlocal"):
            arr = env.get(c[0]["ref"].get("decl"))
            i = self._ev(fn, c[1], env)
            if isinstance(arr, tuple) and arr and arr[0] == "arr" and isinstance(i, int) and 0 <= i < len(arr[1]):
                return arr[1][i]
            return None
        if k == "ArraySubscriptExpr":
            tr = _subscript(n, self.dims)
            if tr is not None:
                idx = [self._ev(fn, i, env) for i in tr[1]]
                if all(isinstance(i, int) for i in idx) and len(idx) == len(self.dims[tr[0]]):
                    return self.tables[tr[0]].get(tuple(idx), UNSET)
                self._broken(fn, n, "table read with a non-constant index")
            return None
        if k == "CallExpr" and strip_targs(n.get("callee") or "") in ("std::fill", "std::fill_n"):
            args = c[1:]
            if len(args) == 3:
                def _unwrap(x, names):
                    while x is not None and x.get("k") in _CASTS and x.get("c"):
                        x = x["c"][0]
                    if x is not None and x.get("k") == "CallExpr" and strip_targs(x.get("callee") or "") in names \
                            and len(x.get("c") or []) == 2:
                        return x["c"][1]
                    return None
                if strip_targs(n["callee"]) == "std::fill":
                    b, e = _unwrap(args[0], ("std::begin",)), _unwrap(args[1], ("std::end",))
                    rb = self._table_ref(fn, b, env) if b is not None else None
                    re_ = self._table_ref(fn, e, env) if e is not None else None
                    if rb is not None and rb == re_:
                        self._fill(fn, n, rb, self._ev(fn, args[2], env))
                        return None
            if self.touches(n):
                self._broken(fn, n, "std::fill over part of a table")
            return None
        if k == "CXXMemberCallExpr":
            callee = self._this_callee(n)
            if callee is None or not self.touches_fn(callee):
                for a in c[1:]:
                    if self.touches(a):
                        self._ev(fn, a, env)
                return None
            newenv = {}
            args = c[1:]
            rec = {"callee": callee, "caller": fn, "node": n, "args": {}, "argv": [], "writes": []}
            for i, p in enumerate(callee.params):
                a = args[i] if i < len(args) else None
                if a is not None and a.get("k") == "CXXDefaultArgExpr":
                    dflt = self.default_args.get(strip_targs(callee.rec["qn"]), {})
                    if p["name"] not in dflt:
                        self._broken(fn, n, "default argument of %s is not exported and not in the table"
                                     % p["name"])
                    v = dflt[p["name"]]
                    rec.setdefault("defaulted", []).append(p["name"])
                else:
                    v = self._ev(fn, a, env)
                newenv[p["decl"]] = v
                rec["args"][p["name"]] = v
                rec["argv"].append(v)
            self.calls.append(rec)
            self._stack.append(rec)
            try:
                self._call(callee, newenv)
            finally:
                self._stack.pop()
            return None
        if self.touches(n):
            self._broken(fn, n, "expression")
        return None


# --------------------------------------------------------------------------- state propagation

class StateProp2(StateProp):
    """fsm.StateProp plus: constant parameter binding at calls, branch refinement on the state field
    and on bound parameters / tracked locals, reads of interpreted tables (`next[state][tag(name)]`),
    calls through member-function pointers read from such tables, and a handler stack
    (`stack.push(&C::f)`, `top`, `pop`, `empty`).  Items are (token, locals, stack ops)."""

    def __init__(self, facts, tables=None, dims=None, tag_fn=None, unknown_ret=None, stack_field=None,
                 **kw):
        StateProp.__init__(self, facts, **kw)
        self.tables = tables or {}
        self.dims = dims or {}
        self.tag_fn = tag_fn
        self.unknown_ret = unknown_ret
        self.stack_field = stack_field
        self.memo2 = {}
        self.active2 = set()
        self.bad_calls = {}      # (fn key, what) -> node: indirect call through null / unset entry
        self.unset_reads = set()
        self.used_fns = set()
        self._err_ret = {}

    # -- tokens
    def _combine(self, prev, new):
        """token after `new` was produced while in `prev` (keeps 'error was reported' once in the error state)"""
        if new == TOP:
            return TOP
        if new[2] == "in":
            return prev
        if prev != TOP and prev[2] in ("error", "escaped"):
            # error() was called earlier in this transition (message and line are recorded)
            if new[1] == self.error_value:
                return ("c", self.error_value, "error")
            return ("c", new[1], "escaped")     # the error state is left again: not absorbing
        return new

    @staticmethod
    def _top(special, ops):
        st = [special.get("$top")] if special.get("$top", EMPTY) != EMPTY else []
        under_unknown = "$top" in special and special["$top"] != EMPTY
        for op in ops:
            if op[0] == "push":
                st.append(op[1])
            elif st:
                st.pop()
        if st:
            return st[-1]
        if "$top" not in special:
            return None
        return None if under_unknown else EMPTY

    # -- expression values
    def evs(self, fn, n, item, special):
        tok, locs, ops = item
        if n is None:
            return {None}
        k = n.get("k")
        c = n.get("c") or []
        if k == "IntegerLiteral":
            return {n.get("v")}
        if k == "CXXBoolLiteralExpr":
            return {1 if n.get("v") else 0}
        if k in ("CXXNullPtrLiteralExpr", "GNUNullExpr"):
            return {NULL}
        if k == "DeclRefExpr":
            r = n["ref"]
            if r.get("dk") == "enumconst":
                return {r.get("v")}
            if r.get("dk") in ("parm", "local"):
                return {dict(locs).get(r.get("decl"))}
            return {None}
        if k in _CASTS:
            return self.evs(fn, c[0], item, special) if c else {None}
        if k == "UnaryOperator" and n.get("op") == "&":
            f = _fn_of_ref(self.facts, n)
            return {("f", f.key)} if f is not None else {None}
        if k == "UnaryOperator" and n.get("op") == "!":
            t = self.truth(fn, c[0], item, special)
            return {None if t is None else int(not t)}
        if k == "UnaryOperator" and n.get("op") == "*":
            dc = _deref_cond(n)
            if dc is not None and (("nz", dc[0]), True) in locs:
                return {("nonnull",)}
            return {None}
        if k == "MemberExpr":
            if self.is_state(n):
                return {tok[1] if tok != TOP else None}
            return {None}
        if k == "ArraySubscriptExpr":
            tr = _subscript(n, self.tables)
            if tr is None:
                return {None}
            name, idx_nodes = tr
            dims = self.dims[name]
            if len(idx_nodes) != len(dims):
                return {None}
            choices = []
            for i, d in zip(idx_nodes, dims):
                vs = self.evs(fn, i, item, special)
                ch = set()
                for v in vs:
                    if isinstance(v, int):
                        ch.add(v)
                    else:
                        ch.update(range(d))
                choices.append(sorted(ch))
            out = set()
            for key in itertools.product(*choices):
                if any(i < 0 or i >= d for i, d in zip(key, dims)):
                    out.add(UNSET)
                    continue
                v = self.tables[name].get(key, UNSET)
                if v == UNSET:
                    self.unset_reads.add((name, key))
                out.add(v)
            return out
        if k == "CXXMemberCallExpr":
            if self.tag_fn is not None and n.get("calleeKey") == self.tag_fn.key:
                t = special.get("$tag")
                if t == UNKNOWN_TAG:
                    return {self.unknown_ret}
                return {t if isinstance(t, int) else None}
            if self._stack_op(n) == "top":
                return {self._top(special, ops)}
            if self._stack_op(n) == "empty":
                t = self._top(special, ops)
                return {None if t is None else int(t == EMPTY)}
            return {dict(locs).get(("ret", n.get("id")))}
        if k == "ConditionalOperator" and len(c) == 3:
            t = self.truth(fn, c[0], item, special)
            if t is None:
                return self.evs(fn, c[1], item, special) | self.evs(fn, c[2], item, special)
            return self.evs(fn, c[1] if t else c[2], item, special)
        if k == "BinaryOperator":
            op = n.get("op")
            if op == "=":
                return self.evs(fn, c[1], item, special)
            if op in ("==", "!=", "<", "<=", ">", ">=", "+", "-"):
                a = self.evs(fn, c[0], item, special)
                b = self.evs(fn, c[1], item, special)
                return {_arith(op, x, y) for x in a for y in b}
            if op in ("&&", "||"):
                a = self.truth(fn, c[0], item, special)
                b = self.truth(fn, c[1], item, special)
                if op == "&&":
                    if a is False or b is False:
                        return {0}
                    return {1} if (a and b) else {None}
                if a is True or b is True:
                    return {1}
                return {0} if (a is False and b is False) else {None}
        return {None}

    def truth(self, fn, n, item, special):
        vs = {_truth(v) for v in self.evs(fn, n, item, special)}
        return vs.pop() if len(vs) == 1 else None

    def _stack_op(self, n):
        if self.stack_field is None or n.get("k") != "CXXMemberCallExpr":
            return None
        if _this_field(F.call_object(n)) != self.stack_field:
            return None
        return strip_targs(n.get("callee") or "").rsplit("::", 1)[-1]

    # -- calls
    def _invoke(self, callee, fn, call, args, item, special):
        tok, locs, ops = item
        pins = {}
        for p, a in zip(callee.params, args):
            if not p.get("name"):
                continue
            vs = self.evs(fn, a, item, special)
            if len(vs) == 1:
                v = next(iter(vs))
                if v is not None and v != UNSET:
                    pins[p["name"]] = v
            if a.get("k") == "DeclRefExpr" and a["ref"].get("dk") in ("parm", "local") \
                    and (("nz", a["ref"]["decl"]), True) in locs:
                pins[p["name"]] = ("nzptr",)
        sub_special = {}
        if "$tag" in special:
            sub_special["$tag"] = special["$tag"]
        if "$top" in special:
            t = self._top(special, ops)
            if t is not None:
                sub_special["$top"] = t
        pins.update(sub_special)
        sub = self.run3(callee, TOP if tok == TOP else ("c", tok[1], "in"), pins)
        out = set()
        base = frozenset(x for x in locs if x[0] != ("ret", call.get("id")))
        for stok, sops, ret in sub:
            l2 = base | {(("ret", call.get("id")), ret)} if ret is not None else base
            out.add((self._combine(tok, stok), l2, ops + sops))
        return out

    def _do_call(self, fn, n, item, special, callees):
        tok, locs, ops = item
        c = n.get("c") or []
        c0 = c[0] if c else None
        if (c0 is not None and c0.get("k") == "BinaryOperator" and c0.get("op") in ("->*", ".*")
                and _is_this((c0.get("c") or [None])[0])):
            out = set()
            for tv in self.evs(fn, c0["c"][1], item, special):
                if isinstance(tv, tuple) and tv[0] == "f":
                    callee = self.facts.functions.get(tv[1])
                    if callee is None or callee.body is None:
                        raise AnalysisBroken("handler %s has no body in the fact base" % tv[1])
                    callees.add(callee.qn)
                    out |= self._invoke(callee, fn, n, c[1:], item, special)
                else:
                    what = "null" if tv == NULL else ("unset" if tv == UNSET else "unknown")
                    self.bad_calls.setdefault((fn.key, what, tok), n)
                    out.add((TOP, locs, ops))
            return out
        if n.get("k") != "CXXMemberCallExpr":
            return {item}
        callee = strip_targs(n.get("callee") or "")
        obj = F.call_object(n)
        if _is_this(obj) and callee:
            if callee == self.error_fn:
                callees.add(callee)
                ret = self._error_ret(n)
                l2 = frozenset(x for x in locs if x[0] != ("ret", n.get("id")))
                if ret is not None:
                    l2 = l2 | {(("ret", n.get("id")), ret)}
                return {(("c", self.error_value, "error"), l2, ops)}
            if self.tag_fn is not None and n.get("calleeKey") == self.tag_fn.key and "$tag" in special:
                callees.add(callee)
                if special["$tag"] == UNKNOWN_TAG:
                    return {(("c", self.error_value, "error"), locs, ops)}
                return {item}
            cand = self.facts.functions.get(n.get("calleeKey"))
            ccls = strip_targs(n.get("calleeClass") or "")
            if cand is not None and cand.body is not None and (not self.hier or ccls in self.hier):
                callees.add(callee)
                return self._invoke(cand, fn, n, c[1:], item, special)
            return {item}
        sop = self._stack_op(n)
        if sop == "push":
            out = set()
            for v in self.evs(fn, c[1], item, special) if len(c) > 1 else {None}:
                if len(ops) > 6:
                    raise AnalysisBroken("%s: unbounded pushes on the handler stack" % fn.key)
                out.add((tok, locs, ops + (("push", v),)))
            return out
        if sop == "pop":
            return {(tok, locs, ops + (("pop",),))}
        return {item}

    # -- the propagation
    def _error_ret(self, call):
        """the constant the error function returns (CoreParser::error: 1), else None"""
        key = call.get("calleeKey")
        if key not in self._err_ret:
            self._err_ret[key] = _const_return(self.facts, self.facts.functions.get(key))
        return self._err_ret[key]

    def run2(self, fn, in_tok, pins=None):
        """set of (token, stack ops) at the exits of fn entered with in_tok; pins: parameter/local
        name -> value, '$tag' -> tag value or UNKNOWN_TAG, '$top' -> handler on top of the stack."""
        return frozenset((t, o) for t, o, _ in self.run3(fn, in_tok, pins))

    def run3(self, fn, in_tok, pins=None):
        """like run2 with the returned constant as third component (None = unknown / void): keeps the
        error exits of `if (handler(atts)) return 1;` apart from the normal exits of the callee"""
        pins = pins or {}
        mkey = (fn.key, in_tok, tuple(sorted(pins.items(), key=repr)))
        if mkey in self.memo2:
            return self.memo2[mkey]
        if mkey in self.active2:
            return {(TOP, (), None)}
        self.active2.add(mkey)
        try:
            out = self._run2(fn, in_tok, pins, mkey)
        finally:
            self.active2.discard(mkey)
        self.memo2[mkey] = out
        return out

    def _run2(self, fn, in_tok, pins, mkey):
        self.used_fns.add(fn.key)
        cfg = fn.cfg
        nodes = fn.nodes
        special = {k: v for k, v in pins.items() if k.startswith("$")}
        named = {k: v for k, v in pins.items() if not k.startswith("$")}
        pinned = self._pinned_locals(fn, named)
        fixed = set(pinned)        # a pinned local keeps the pinned value at its own declaration
        start = (in_tok, frozenset(((("nz", d), True) if v == ("nzptr",) else (d, v))
                                   for d, v in pinned.items()), ())
        IN = {b: set() for b in cfg.blocks}
        IN[cfg.entry] = {start}
        work = [cfg.entry]
        exits = set()
        callees = self.calls_seen.setdefault(mkey, set())
        iterations = 0
        while work:
            iterations += 1
            if iterations > 50000:
                raise AnalysisBroken("state propagation did not converge in %s" % fn.key)
            b = work.pop()
            items = set(IN[b])
            blk = cfg.blocks[b]
            for e in blk.get("el", []):
                if not isinstance(e, int):
                    continue
                n = nodes.get(e)
                if n is None:
                    continue
                k = n.get("k")
                if k == "ReturnStmt":
                    val = None
                    for x in F.children(n):
                        val = x
                    new = set()
                    for it in items:
                        l2 = frozenset(x for x in it[1] if x[0] != ("retval",))
                        for v in (self.evs(fn, val, it, special) if val is not None else {None}):
                            if v == ("nonnull",):
                                v = None
                            new.add((it[0], l2 | {(("retval",), v)} if isinstance(v, int) else l2, it[2]))
                    items = new
                elif k == "BinaryOperator" and n.get("op") == "=":
                    lhs, rhs = n["c"]
                    if self.is_state(lhs):
                        new = set()
                        for it in items:
                            for v in self.evs(fn, rhs, it, special):
                                if isinstance(v, int):
                                    t2 = self._combine(it[0], ("c", v, "assign"))
                                    if v == self.error_value and t2[2] == "assign":
                                        self.bare_error_sites.setdefault(fn.key, []).append(n)
                                    new.add((t2, it[1], it[2]))
                                else:
                                    new.add((TOP, it[1], it[2]))
                        items = new
                    elif lhs.get("k") == "DeclRefExpr" and lhs["ref"].get("dk") in ("parm", "local"):
                        items = self._bind(fn, lhs["ref"]["decl"], rhs, items, special)
                elif k in ("CompoundAssignOperator", "UnaryOperator") and n.get("op") in (
                        "+=", "-=", "++", "--", "*=", "/=", "|=", "&=", "^="):
                    tgt = n["c"][0]
                    if self.is_state(tgt):
                        items = {(TOP, it[1], it[2]) for it in items}
                    elif tgt.get("k") == "DeclRefExpr" and tgt["ref"].get("dk") in ("parm", "local"):
                        d = tgt["ref"]["decl"]
                        items = {(it[0], _kill(it[1], d), it[2]) for it in items}
                elif k == "DeclStmt":
                    for d in n.get("decls", []):
                        if d.get("init") is not None and "decl" in d and d["decl"] not in fixed:
                            items = self._bind(fn, d["decl"], d["init"], items, special)
                elif k == "CXXMemberCallExpr":
                    new = set()
                    for it in items:
                        new |= self._do_call(fn, n, it, special, callees)
                    items = new
            raw = [s for s in blk.get("succ", [])]
            succs = cfg.succ.get(b, [])
            if b == cfg.exit or not succs:
                if b == cfg.exit:
                    exits |= {(it[0], it[2], dict(it[1]).get(("retval",))) for it in items}
                continue
            edges = {}
            termk = blk.get("termK")
            cond = nodes.get(blk["cond"]) if blk.get("cond") is not None else None
            if termk == "SwitchStmt" and cond is not None:
                labels, default = {}, None
                for s in succs:
                    lab = nodes.get(cfg.blocks[s].get("label")) if cfg.blocks[s].get("label") else None
                    if lab is not None and lab.get("k") == "CaseStmt" and "v" in lab:
                        labels.setdefault(lab["v"], s)
                    else:
                        default = s
                for it in items:
                    vs = self.evs(fn, cond, it, special)
                    for v in vs:
                        if isinstance(v, int):
                            tgt = labels.get(v, default)
                            if tgt is not None:
                                edges.setdefault(tgt, set()).add(it)
                        else:
                            for s in succs:
                                edges.setdefault(s, set()).add(it)
            elif cond is not None and len(raw) == 2 and termk in (
                    "IfStmt", "ConditionalOperator", "WhileStmt", "ForStmt", "DoStmt", "BinaryOperator"):
                dc = _deref_cond(cond)
                for it in items:
                    t = self.truth(fn, cond, it, special)
                    for i, s in enumerate(raw):
                        if s is None or s < 0:
                            continue
                        if t is None or (t and i == 0) or (not t and i == 1):
                            it2 = it
                            if dc is not None and t is None and (i == 0) == dc[1]:
                                # on this edge *p is known to be non-null (also for a must-alias of p)
                                facts = {(("nz", dc[0]), True)}
                                al = dict(it[1]).get(("alias", dc[0]))
                                if al is not None:
                                    facts.add((("nz", al), True))
                                it2 = (it[0], it[1] | facts, it[2])
                            edges.setdefault(s, set()).add(it2)
            else:
                for s in succs:
                    edges[s] = set(items)
            for s, its in edges.items():
                # the value of a call is only tracked up to the end of the block that made the call
                its = {(it[0], frozenset(x for x in it[1] if not (isinstance(x[0], tuple) and x[0][0] == "ret")),
                        it[2]) for it in its}
                if not its <= IN[s]:
                    IN[s] |= its
                    work.append(s)
        return frozenset(exits)

    def _bind(self, fn, decl, init, items, special):
        new = set()
        src = init
        while src is not None and src.get("k") in _CASTS and src.get("c"):
            src = src["c"][0]
        src_decl = None
        if src is not None and src.get("k") == "DeclRefExpr" and src["ref"].get("dk") in ("parm", "local") \
                and "*" in (src.get("t") or ""):
            src_decl = src["ref"]["decl"]
        for it in items:
            locs = _kill(it[1], decl)
            if src_decl is not None and src_decl != decl:
                locs = locs | {(("alias", decl), src_decl)}
                if (("nz", src_decl), True) in locs:
                    locs = locs | {(("nz", decl), True)}
            for v in self.evs(fn, init, it, special):
                if v is None or v == ("nonnull",):
                    new.add((it[0], locs, it[2]))
                else:
                    new.add((it[0], locs | {(decl, v)}, it[2]))
        return new


def _tokens(items):
    return {it[0] for it in items}


# --------------------------------------------------------------------------- shared pieces

def _const_return(fx, fn, depth=0):
    """the integer every return statement of fn yields (following `return g(...)` into g), else None"""
    if fn is None or fn.body is None or depth > 4:
        return None
    vals = set()
    for r in fn.walk():
        if r.get("k") != "ReturnStmt":
            continue
        v = None
        for x in F.children(r):
            v = x
        if v is None:
            return None
        if v.get("k") == "IntegerLiteral":
            vals.add(v.get("v"))
        elif is_call(v) and v.get("calleeKey") in fx.functions:
            vals.add(_const_return(fx, fx.functions[v["calleeKey"]], depth + 1))
        else:
            return None
    return vals.pop() if len(vals) == 1 else None


def _tag_model(ctx, fx, tag_fn, error_fn, enum_values, unknown_name, label):
    """tag(): literal -> enumerator map; the value returned on the error path; purity (a known
    enumerator is never returned after error() was called)."""
    tmap = fsm.tag_function_map(tag_fn)
    cfg = tag_fn.cfg
    err_calls = [n for n in tag_fn.walk() if n.get("k") == "CXXMemberCallExpr"
                 and strip_targs(n.get("callee") or "") == error_fn and _is_this(F.call_object(n))]
    unknown_v = enum_values.get(unknown_name)
    unknown_ret = "none"
    impure = []
    for r in tag_fn.walk():
        if r.get("k") != "ReturnStmt":
            continue
        val = None
        for x in F.children(r):
            val = x
        rv = None
        if val is not None and val.get("k") == "DeclRefExpr" and val["ref"].get("dk") == "enumconst":
            rv = val["ref"]["v"]
        after_error = False
        pr = cfg.block_of(r)
        for e in err_calls:
            if any(x is e for x in walk(r)):
                after_error = True
                continue
            pe = cfg.block_of(e)
            if pe is None or pr is None:
                continue
            if (pe[0] == pr[0] and pe[1] < pr[1]) or \
                    (pe[0] != pr[0] and pr[0] in cfg.reachable_blocks_from(pe[0])):
                after_error = True
        if after_error:
            if rv is not None and rv != unknown_v:
                impure.append(tag_fn.where(r))
            elif rv is not None:
                unknown_ret = rv
            elif unknown_ret == "none":
                unknown_ret = None
                if val is not None and is_call(val) and val.get("calleeKey") in fx.functions:
                    unknown_ret = _const_return(fx, fx.functions[val["calleeKey"]])
    ctx.report(RULE, "%s:tag:unknown-is-an-error" % label, bool(err_calls) and not impure,
               tag_fn.where(), tag_fn.short,
               msg="" if err_calls and not impure else
               ("tag() never calls the error function for an unknown name" if not err_calls else
                "tag() returns a known enumerator after the error function was called: %s" % impure))
    return tmap, (None if unknown_ret == "none" else unknown_ret)


def _used_tags(A, reach, tags_enum, unknown_name):
    """tag enumerators that some reachable state accepts (non-error post-state), including enumerators
    that tag() never returns (their start transitions are computed here, they are not explored)"""
    used = set()
    for e in tags_enum:
        t = e["v"]
        if e["name"] == unknown_name:
            continue
        for s in reach:
            if s == A.error:
                continue
            toks = A.start[(s, t)] if (s, t) in A.start else _tokens(A.start_fn(s, t))
            if any(x != TOP and x[1] != A.error for x in toks):
                used.add(t)
                break
    return used


def _f5(ctx, label, tag_fn, tags_enum, tmap, used, unknown_name, floor_strings):
    produced = {}
    for lit, (name, v) in tmap.items():
        produced.setdefault(v, []).append(lit)
    for e in tags_enum:
        name, v = e["name"], e["v"]
        if name == unknown_name:
            continue
        p, u = v in produced, v in used
        if p and u:
            ctx.ok(RULE, "%s:tag:%s" % (label, name), tag_fn.where(), tag_fn.short,
                   detail={"strings": sorted(produced[v])})
        elif not p and not u:
            ctx.ok(RULE, "%s:tag:%s" % (label, name), tag_fn.where(), tag_fn.short,
                   detail={"dead": "enumerator neither returned by tag() nor used by a transition"})
        else:
            ctx.bad(RULE, "%s:tag:%s" % (label, name), tag_fn.where(), tag_fn.short,
                    msg="tag enumerator %s is %s" % (
                        name, "returned by tag() for %s but no reachable transition accepts it"
                        % sorted(produced[v]) if p else
                        "used by a reachable transition but never returned by tag()"))
    ctx.floor(RULE, floor_strings, len(tmap), "%s tag strings" % label)


def _report_table_conflicts(ctx, label, tb, names_by_table, where):
    """An entry written twice by straight-line code with different values: the later write wins and the
    earlier element silently gets the wrong handler / successor."""
    n = 0
    for name in sorted(tb.explicit):
        for key, writes in sorted(tb.explicit[name].items()):
            vals = []
            for v, w in writes:
                if v not in vals:
                    vals.append(v)
            n += 1
            kn = ":".join(names_by_table(name, key))
            if len(vals) == 1:
                ctx.ok(RULE, "%s:table:%s:%s" % (label, name, kn), writes[-1][1], "",
                       detail={"value": _vname(vals[0]), "writes": len(writes)})
            if len(vals) > 1:
                ctx.bad(RULE, "%s:table:%s:%s" % (label, name, kn), writes[-1][1], "",
                        msg="%s[%s] is assigned %d different values (%s); only the last one is effective"
                        % (name, kn, len(vals), ", ".join(_vname(v) for v in vals)),
                        detail={"writes": [[_vname(v), w] for v, w in writes]})
    for name, key, w in tb.oob:
        ctx.bad(RULE, "%s:table-bounds:%s:%s" % (label, name, "-".join(map(str, key))), w, "",
                msg="write to %s%s is outside the array" % (name, list(key)))
    return n


def _vname(v):
    if isinstance(v, tuple) and v and v[0] == "f":
        return F.short(v[1].split("(")[0])
    if v == NULL:
        return "null"
    if v == UNSET:
        return "unset"
    return str(v)


def _report_escapes(ctx, A, label):
    """A transition that calls error() and afterwards leaves the error state again.  Escapes whose target
    is a successor of the error state itself are consequences of a non-absorbing error state (reported by
    <label>:error-absorbing) and only listed in the detail; any other escape is a handler that overwrites
    the state after error()."""
    row = {t[1] for t in A.end.get(A.error, ()) if t != TOP}
    for tg in A.tags:
        row |= {t[1] for t in A.start.get((A.error, tg), ()) if t != TOP}
    own = sorted((k, A.sname(s), A.tname(t) if t is not None else "", A.sname(v))
                 for k, s, t, v in A.escapes if v not in row)
    ctx.report(RULE, "%s:error-escape" % label, not own,
               msg="" if not own else "after error() the state is overwritten with a non-error state "
               "(the diagnostic is lost or delayed): %s" % own[:6],
               detail={"explained-by-error-row": len(A.escapes) - len(own)})


def _error_fn_check(ctx, fx, error_value):
    fsm.check_error_fn(ctx, fx, error_value)


# --------------------------------------------------------------------------- LNAR parser

class StackAutomaton(Automaton):
    """Automaton explored lazily from two functions: start_fn(state, tag) and end_fn(state, top) -> items
    (token, stack ops).  The end transition may be chosen by the handler on top of a stack pushed by
    the start transitions (LocalNetworkAdjustmentResults::Parser); explore() fills .start/.end for the
    reachable states (and the error state) so that fsm.check_automaton applies unchanged."""

    def __init__(self, name, states, tags, start_fn, end_fn, error_value, start_state, handlers=()):
        Automaton.__init__(self, name, states, tags, {}, {}, error_value, start_state)
        self.start_fn = start_fn
        self.end_fn = end_fn
        self.handlers = list(handlers)
        self.start_items = {}
        self.end_pairs = {}
        self.push_counts = {}
        self.unbounded = set()

    def _start(self, s, t):
        k = (s, t)
        if k not in self.start_items:
            self.start_items[k] = self.start_fn(s, t)
            self.start[k] = _tokens(self.start_items[k])
        return self.start_items[k]

    def explore(self, max_depth=14):
        """configurations (state, open tags, handler stack, post-start state of every open element).
        A start transition that re-creates a (tag, post-state) pair already open on the path is a nesting
        cycle (unbounded depth): recorded in .unbounded and not expanded further."""
        init = (self.start_state, (), (), ())
        seen = {init}
        work = [init]
        edges = []
        self.end = {}
        self.unbounded = set()
        self.escapes = set()

        def apply(hs, ops):
            h2 = list(hs)
            for op in ops:
                if op[0] == "push":
                    h2.append(op[1])
                elif h2:
                    h2.pop()
            return tuple(h2)

        while work:
            s, tags, hs, path = work.pop()
            if s == self.error:
                continue
            if len(tags) >= max_depth or len(hs) > max_depth + 2:
                raise AnalysisBroken("%s: nesting deeper than %d reachable" % (self.name, max_depth))
            for t in self.tags:
                for tok, ops in self._start(s, t):
                    if tok == TOP:
                        continue
                    c = (tok[1], tags + (t,), apply(hs, ops), path + ((t, tok[1]),))
                    edges.append(((s, tags), ("start", t), (c[0], c[1]), tok))
                    if tok[2] == "escaped":
                        self.escapes.add(("start", s, t, tok[1]))
                        continue
                    if tok[1] == self.error:
                        continue
                    npush = sum(1 for op in ops if op[0] == "push") - sum(1 for op in ops if op[0] == "pop")
                    self.push_counts.setdefault((s, t), set()).add(npush)
                    if (t, tok[1]) in path:
                        self.unbounded.add((tok[1], t))
                        seen.add(c)
                        continue
                    if c not in seen:
                        seen.add(c)
                        work.append(c)
            if tags:
                top = hs[-1] if hs else EMPTY
                if (s, top) not in self.end_pairs:
                    self.end_pairs[(s, top)] = self.end_fn(s, top)
                items = self.end_pairs[(s, top)]
                self.end.setdefault(s, set()).update(_tokens(items))
                for tok, ops in items:
                    if tok == TOP:
                        continue
                    c = (tok[1], tags[:-1], apply(hs, ops), path[:-1])
                    edges.append(((s, tags), ("end", tags[-1]), (c[0], c[1]), tok))
                    if tok[2] == "escaped":
                        self.escapes.add(("end", s, None, tok[1]))
                        continue
                    if tok[1] != self.error and c not in seen:
                        seen.add(c)
                        work.append(c)
        # the error state: every tag, and any handler may be on the stack
        for t in self.tags:
            self._start(self.error, t)
        for h in self.handlers + [EMPTY]:
            self.end.setdefault(self.error, set()).update(_tokens(self.end_fn(self.error, h)))
        return {(c[0], c[1]) for c in seen}, edges


def extract_lnar(ctx):
    fx = ctx.facts
    T = table()["lnar"]
    cls = T["class"]
    fx.cls(cls)
    start_fn = fx.fn(cls + "::startElement")
    end_fn = fx.fn(cls + "::endElement")
    tag_fn = fx.fn(cls + "::tag")
    data_fn = fx.fn(cls + "::characterDataHandler")
    for f in (start_fn, end_fn, tag_fn, data_fn):
        ctx.saw(f)
    states_e = fx.enum(cls + "::" + T["state_enum"])["enumerators"]
    tags_e = fx.enum(cls + "::" + T["tag_enum"])["enumerators"]
    states = {e["v"]: e["name"] for e in states_e}
    sval = {e["name"]: e["v"] for e in states_e}
    tval = {e["name"]: e["v"] for e in tags_e}
    if T["error_state"] not in sval or T["unknown_tag"] not in tval:
        raise AnalysisBroken("LNAR parser: %s / %s enumerators not found" % (T["error_state"], T["unknown_tag"]))
    error_value = sval[T["error_state"]]
    _error_fn_check(ctx, fx, error_value)
    hier = {cls, "GNU_gama::CoreParser", "GNU_gama::BaseParser"}
    ctors = [f for f in fx.methods_of(cls) if f.name == cls.rsplit("::", 1)[-1] and f.body is not None
             and not (len(f.params) == 1 and cls in f.params[0]["t"])]
    if not ctors:
        raise AnalysisBroken("no constructor of %s in the fact base" % cls)
    tb = TableBuilder(fx, cls, hier).run(ctors)
    for k in tb.seen_fns:
        ctx.saw(k)
    if tb.state is None:
        raise AnalysisBroken("the constructor of %s does not set the start state" % cls)
    # the dispatch table: the member array read by startElement's indirect call
    disp = None
    for n in start_fn.walk():
        tr = _subscript(n, tb.dims)
        if tr is not None and tb.ptr_table[tr[0]] and len(tr[1]) == 2:
            disp = tr[0]
    if disp is None:
        raise AnalysisBroken("startElement of %s does not read a [state][tag] table of member pointers" % cls)
    stack_field = None
    for n in end_fn.walk():
        if n.get("k") == "CXXMemberCallExpr" and strip_targs(n.get("callee") or "").startswith("std::stack::"):
            stack_field = _this_field(F.call_object(n)) or stack_field
    if stack_field is None:
        raise AnalysisBroken("endElement of %s does not use a std::stack member" % cls)
    tmap, unknown_ret = _tag_model(ctx, fx, tag_fn, "GNU_gama::CoreParser::error", tval, T["unknown_tag"], "LNARparser")
    sp = StateProp2(fx, tables={disp: tb.tables[disp]}, dims={disp: tb.dims[disp]}, tag_fn=tag_fn,
                    unknown_ret=unknown_ret, stack_field=stack_field, hierarchy=hier,
                    error_value=error_value)
    produced = {v for (_, v) in tmap.values()}
    tags = {v: n for n, v in tval.items() if v in produced}
    tags[tval[T["unknown_tag"]]] = T["unknown_tag"]
    unknown_v = tval[T["unknown_tag"]]

    def start_items(s, t):
        return sp.run2(start_fn, ("c", s, "in"), {"$tag": UNKNOWN_TAG if t == unknown_v else t})

    def end_items(s, top):
        return sp.run2(end_fn, ("c", s, "in"), {"$top": top})

    handlers = sorted({v for v in tb.tables[disp].values() if isinstance(v, tuple) and v[0] == "f"})
    A = StackAutomaton("LNARparser", states, tags, start_items, end_items, error_value, tb.state, handlers)
    return A, sp, tb, disp, tag_fn, tmap, dict(sval=sval, tval=tval, tags_e=tags_e, data_fn=data_fn,
                                               start_fn=start_fn, end_fn=end_fn, T=T)


def rule_lnar(ctx):
    fx = ctx.facts
    A, sp, tb, disp, tag_fn, tmap, X = extract_lnar(ctx)
    T = X["T"]
    sname = A.states
    tname = {e["v"]: e["name"] for e in X["tags_e"]}
    configs, edges, reach, n_trans = check_automaton(ctx, RULE, A)
    for k in sp.used_fns:
        ctx.saw(k)
    if A.unbounded:
        ctx.note("LNARparser: unbounded nesting cycles (post-state, tag): %s"
                 % sorted((sname.get(a), tname.get(b)) for a, b in A.unbounded))
    _report_escapes(ctx, A, "LNARparser")
    ctx.floor(RULE, 100, len(reach), "reachable LNARparser states")
    ctx.floor(RULE, 8000, n_trans, "LNARparser transitions checked")
    # table construction
    n_entries = _report_table_conflicts(
        ctx, "LNARparser", tb, lambda name, key: (sname.get(key[0], str(key[0])), tname.get(key[1], str(key[1]))),
        tag_fn.where())
    ctx.floor(RULE, 90, n_entries, "LNARparser explicit dispatch entries")
    # every row/column that can be indexed at run time is initialised
    unset = sorted(k for k in sp.unset_reads)
    unset_reach = [(n, k) for n, k in unset if k[0] in reach or k[0] == A.error]
    ctx.report(RULE, "LNARparser:table:%s:initialised" % disp, not unset_reach, X["start_fn"].where(),
               X["start_fn"].short,
               msg="" if not unset_reach else "dispatch entries read in a reachable state but never written "
               "by the constructor (indirect call through an indeterminate pointer): %s"
               % [(sname.get(k[0]), tname.get(k[1])) for _, k in unset_reach[:6]])
    bad_calls = [(k, n) for k, n in sp.bad_calls.items() if k[1] != "unset"
                 and (k[2] == TOP or k[2][1] in reach or k[2][1] == A.error)]
    ctx.report(RULE, "LNARparser:dispatch:no-null-call", not bad_calls, X["start_fn"].where(), "",
               msg="" if not bad_calls else "indirect handler call through a null/unknown pointer: %s"
               % sorted({(k[0], k[1]) for k, _ in bad_calls}))
    # stack discipline of the start handlers: a non-error start transition pushes exactly one handler
    per_handler = {}
    for (s, t), counts in A.push_counts.items():
        if s not in reach:
            continue
        h = tb.tables[disp].get((s, t))
        per_handler.setdefault(h, set()).update(counts)
    n_h = 0
    for h, counts in sorted(per_handler.items(), key=lambda kv: _vname(kv[0])):
        n_h += 1
        ok = counts == {1}
        ctx.report(RULE, "LNARparser:push:%s" % _vname(h), ok, "", _vname(h),
                   msg="" if ok else "start handler %s can return normally with a net stack effect of %s "
                   "(must push exactly one end handler, else end tags are dispatched to the wrong element)"
                   % (_vname(h), sorted(counts)))
    ctx.floor(RULE, 60, n_h, "LNARparser start handlers with a push obligation")
    # character data never moves the automaton except through error()
    bad = []
    for s in sorted(reach):
        for tok, _ in sp.run2(X["data_fn"], ("c", s, "in"), {}):
            if tok == TOP or not (tok[2] == "in" or (tok[1] == A.error and tok[2] == "error")):
                bad.append((sname.get(s), str(tok)))
    ctx.report(RULE, "LNARparser:data:state-preserving", not bad, X["data_fn"].where(), X["data_fn"].short,
               msg="" if not bad else "characterDataHandler changes the state: %s" % bad[:5])
    # F5
    used = _used_tags(A, reach, X["tags_e"], T["unknown_tag"])
    _f5(ctx, "LNARparser", tag_fn, X["tags_e"], tmap, used, T["unknown_tag"], 90)
    return A, configs, edges, tmap


# --------------------------------------------------------------------------- DataParser

def extract_dataparser(ctx):
    fx = ctx.facts
    T = table()["dataparser"]
    cls = T["class"]
    fx.cls(cls)
    start_fn = fx.fn(cls + "::startElement")
    end_fn = fx.fn(cls + "::endElement")
    data_fn = fx.fn(cls + "::characterDataHandler")
    tag_fn = fx.fn(cls + "::tag")
    init_fn = fx.fn(cls + "::" + T["init"])
    for f in (start_fn, end_fn, data_fn, tag_fn, init_fn):
        ctx.saw(f)
    states_e = fx.enum(cls + "::" + T["state_enum"])["enumerators"]
    tags_e = fx.enum(cls + "::" + T["tag_enum"])["enumerators"]
    states = {e["v"]: e["name"] for e in states_e}
    sval = {e["name"]: e["v"] for e in states_e}
    tval = {e["name"]: e["v"] for e in tags_e}
    if T["error_state"] not in sval or T["unknown_tag"] not in tval:
        raise AnalysisBroken("DataParser: %s / %s enumerators not found" % (T["error_state"], T["unknown_tag"]))
    error_value = sval[T["error_state"]]
    _error_fn_check(ctx, fx, error_value)
    hier = {cls, "GNU_gama::CoreParser", "GNU_gama::BaseParser"}
    ctors = [f for f in fx.methods_of(cls) if f.name == cls.rsplit("::", 1)[-1] and f.body is not None
             and not (len(f.params) == 1 and f.params[0]["t"].replace("const ", "").strip(" &") == cls)]
    if not ctors:
        raise AnalysisBroken("no constructor of %s in the fact base" % cls)
    tb = TableBuilder(fx, cls, hier, default_args=T.get("default_args", {})).run(ctors)
    for k in tb.seen_fns:
        ctx.saw(k)
    if tb.state is None:
        raise AnalysisBroken("the constructor of %s does not set the start state" % cls)
    roles = T["tables"]
    for r in ("next", "after", "stag", "data", "etag"):
        if roles[r] not in tb.dims:
            raise AnalysisBroken("DataParser has no table member %s" % roles[r])
    tmap, unknown_ret = _tag_model(ctx, fx, tag_fn, "GNU_gama::CoreParser::error", tval, T["unknown_tag"],
                                   "DataParser")
    sp = StateProp2(fx, tables=tb.tables, dims=tb.dims, tag_fn=tag_fn, unknown_ret=unknown_ret,
                    hierarchy=hier, error_value=error_value)
    produced = {v for (_, v) in tmap.values()}
    tags = {v: n for n, v in tval.items() if v in produced}
    unknown_v = tval[T["unknown_tag"]]
    tags[unknown_v] = T["unknown_tag"]

    def start_items(s, t):
        return sp.run2(start_fn, ("c", s, "in"), {"$tag": UNKNOWN_TAG if t == unknown_v else t})

    def end_items(s, top):
        return sp.run2(end_fn, ("c", s, "in"), {})

    A = StackAutomaton("DataParser", states, tags, start_items, end_items, error_value, tb.state)
    return A, sp, tb, tag_fn, tmap, dict(sval=sval, tval=tval, tags_e=tags_e, data_fn=data_fn,
                                         start_fn=start_fn, end_fn=end_fn, init_fn=init_fn, T=T, roles=roles)


def _check_init_calls(ctx, tb, X, sname, tname, error_value):
    """The role table of init()'s parameters is checked against the writes that the interpretation of
    init()'s body performed for every call: any disagreement means init() no longer implements the
    documented roles (exit 2).  Then per call: the successor and the after-state are not the error state."""
    T, roles = X["T"], X["roles"]
    init_fn = X["init_fn"]
    pos = T["init_roles"]
    if len(init_fn.params) != len(pos):
        raise AnalysisBroken("DataParser::init has %d parameters, the role table describes %d"
                             % (len(init_fn.params), len(pos)))
    start_tag = [f for f in ctx.facts.fns(T["class"] + "::" + T["default_stag"])]
    if not start_tag:
        raise AnalysisBroken("default start handler %s not found" % T["default_stag"])
    dflt = ("f", start_tag[0].key)
    calls = [c for c in tb.calls if c["callee"].key == init_fn.key]
    seen_st = {}
    n = 0
    for c in calls:
        a = c["argv"]
        g = lambda r: a[pos[r]]
        s, t, nx, z, af, sh, dh, eh, z2 = (g("state"), g("tag"), g("next"), g("end"), g("after"),
                                           g("stag"), g("data"), g("etag"), g("end2"))
        where = c["caller"].where(c["node"])
        if not all(isinstance(v, int) for v in (s, t, nx, z, af, z2)):
            raise AnalysisBroken("%s: init() called with a non-constant state/tag argument" % where)

        def fnv(v):
            return NULL if v in (0, NULL) else v
        sh, dh, eh = fnv(sh), fnv(dh), fnv(eh)
        zz = z if z != 0 else nx
        aa = af if af != 0 else s
        expect = {}
        expect[(roles["next"], (s, t))] = nx
        expect[(roles["after"], (zz,))] = aa
        expect[(roles["stag"], (s, t))] = sh if sh != NULL else dflt
        if dh != NULL:
            expect[(roles["data"], (nx,))] = dh
        if eh != NULL:
            expect[(roles["etag"], (zz,))] = eh
        if z2 != 0:
            expect[(roles["after"], (z2,))] = aa
            expect[(roles["etag"], (z2,))] = eh
        got = {}
        for name, key, val in c["writes"]:
            got[(name, key)] = val
        if got != expect:
            diff = sorted(set(got.items()) ^ set(expect.items()), key=repr)[:4]
            raise AnalysisBroken("%s: the body of DataParser::init no longer implements the role table "
                                 "sa/tables/fsm2.json (init_roles): %s" % (where, diff))
        key = "DataParser:init:%s:%s" % (sname.get(s, s), tname.get(t, t))
        n += 1
        problems = []
        if nx == error_value:
            problems.append("the successor state is the error state (%d): <%s> enters it silently, and "
                            "after[]/data[] of the error state are overwritten" % (nx, tname.get(t, t)))
        if aa == error_value:
            problems.append("the after-state is the error state")
        if (s, t) in seen_st:
            problems.append("second init() for the same (state, tag), first at %s" % seen_st[(s, t)])
        seen_st.setdefault((s, t), where)
        if z2 != 0 and eh == NULL:
            problems.append("alternative end state %s gets a null end handler" % sname.get(z2, z2))
        ctx.report(RULE, key, not problems, where, c["caller"].short, msg="; ".join(problems),
                   detail={"next": sname.get(nx, nx), "end": sname.get(zz, zz), "after": sname.get(aa, aa)})
    return n


def rule_dataparser(ctx):
    A, sp, tb, tag_fn, tmap, X = extract_dataparser(ctx)
    T, roles = X["T"], X["roles"]
    sname = A.states
    tname = {e["v"]: e["name"] for e in X["tags_e"]}
    n_init = _check_init_calls(ctx, tb, X, sname, tname, A.error)
    ctx.floor(RULE, 220, n_init, "DataParser init() calls")
    configs, edges, reach, n_trans = check_automaton(ctx, RULE, A)
    for k in sp.used_fns:
        ctx.saw(k)
    if A.unbounded:
        ctx.note("DataParser: unbounded nesting cycles (post-state, tag): %s"
                 % sorted((sname.get(a), tname.get(b)) for a, b in A.unbounded))
    _report_escapes(ctx, A, "DataParser")
    ctx.floor(RULE, 200, len(reach), "reachable DataParser states")
    ctx.floor(RULE, 30000, n_trans, "DataParser transitions checked")

    def names(name, key):
        if len(key) == 2:
            return (sname.get(key[0], str(key[0])), tname.get(key[1], str(key[1])))
        return (sname.get(key[0], str(key[0])),)
    _report_table_conflicts(ctx, "DataParser", tb, names, tag_fn.where())
    unset_reach = sorted((n, k) for n, k in sp.unset_reads if k[0] in reach or k[0] == A.error)
    ctx.report(RULE, "DataParser:tables:initialised", not unset_reach, X["start_fn"].where(), "",
               msg="" if not unset_reach else "table entries read in a reachable state but never written by "
               "the constructor: %s" % [(n, names(n, k)) for n, k in unset_reach[:6]])
    bad_calls = sorted({(F.short(k[0].split("(")[0]), k[1], "?" if k[2] == TOP else sname.get(k[2][1]))
                        for k in sp.bad_calls if k[1] != "unset"
                        and (k[2] == TOP or k[2][1] in reach or k[2][1] == A.error)})
    ctx.report(RULE, "DataParser:dispatch:no-null-call", not bad_calls, X["start_fn"].where(), "",
               msg="" if not bad_calls else "handler call through a null/unknown member pointer: %s" % bad_calls)
    # character data: data[state] never moves the automaton except through error()
    bad = []
    handlers = set()
    for s in sorted(set(reach) | {A.error}):
        handlers.add(tb.tables[roles["data"]].get((s,)))
        for tok, _ in sp.run2(X["data_fn"], ("c", s, "in"), {}):
            if tok == TOP or not (tok[2] == "in" or (tok[1] == A.error and tok[2] == "error")):
                bad.append((sname.get(s), str(tok)))
    ctx.report(RULE, "DataParser:data:state-preserving", not bad, X["data_fn"].where(), X["data_fn"].short,
               msg="" if not bad else "a character-data handler changes the state: %s" % bad[:5],
               detail={"handlers": sorted(_vname(h) for h in handlers if h)})
    # F5: data_tag enumerators vs tag() vs init calls
    used = _used_tags(A, reach, X["tags_e"], T["unknown_tag"])
    _f5(ctx, "DataParser", tag_fn, X["tags_e"], tmap, used, T["unknown_tag"], 150)
    return A, configs, edges, tmap


# --------------------------------------------------------------------------- XSD helpers

XS = "{http://www.w3.org/2001/XMLSchema}"


class Xsd:
    """Parent/child element relation and attribute sets of an XML schema (xs:element / complexType /
    sequence / choice / all / extension / attribute; references by name)."""

    def __init__(self, path):
        if not os.path.exists(path):
            raise AnalysisBroken("schema %s not found" % path)
        try:
            self.root = ET.parse(path).getroot()
        except ET.ParseError as e:
            raise AnalysisBroken("schema %s is not well-formed: %s" % (path, e))
        self.gelems = {e.get("name"): e for e in self.root.findall(XS + "element")}
        self.gtypes = {e.get("name"): e for e in self.root.findall(XS + "complexType")}
        self.ggroups = {e.get("name"): e for e in self.root.findall(XS + "group")}
        self.gattrgroups = {e.get("name"): e for e in self.root.findall(XS + "attributeGroup")}
        self.all_names = {e.get("name") for e in self.root.iter(XS + "element") if e.get("name")}
        self._memo = {}

    @staticmethod
    def _local(q):
        return q.split(":")[-1] if q else q

    def _content(self, node, kids, attrs, depth=0):
        if depth > 30:
            raise AnalysisBroken("schema type recursion")
        for ch in node:
            tag = ch.tag
            if tag == XS + "element":
                name = ch.get("name") or self._local(ch.get("ref"))
                kids.add(name)
                if ch.get("name") and ch.get("name") not in self.gelems:
                    self._memo.setdefault(("local", name), ch)
            elif tag == XS + "attribute":
                if ch.get("use") != "prohibited":
                    attrs.add(ch.get("name") or self._local(ch.get("ref")))
            elif tag in (XS + "extension", XS + "restriction"):
                base = self._local(ch.get("base"))
                if base in self.gtypes:
                    self._content(self.gtypes[base], kids, attrs, depth + 1)
                self._content(ch, kids, attrs, depth + 1)
            elif tag in (XS + "group", XS + "attributeGroup") and ch.get("ref"):
                g = (self.ggroups if tag == XS + "group" else self.gattrgroups).get(self._local(ch.get("ref")))
                if g is None:
                    raise AnalysisBroken("schema refers to an undeclared group %s" % ch.get("ref"))
                self._content(g, kids, attrs, depth + 1)
            elif tag in (XS + "complexType", XS + "sequence", XS + "choice", XS + "all",
                         XS + "complexContent", XS + "simpleContent"):
                self._content(ch, kids, attrs, depth + 1)
            elif tag in (XS + "any", XS + "anyAttribute"):
                raise AnalysisBroken("schema uses xs:any - the vocabulary is open, agreement cannot be decided")

    def describe(self, name):
        """(children, attributes) of the element called name"""
        if name in self._memo and not isinstance(self._memo[name], ET.Element):
            return self._memo[name]
        e = self.gelems.get(name)
        if e is None:
            e = self._memo.get(("local", name))
        if e is None:
            return None
        kids, attrs = set(), set()
        t = self._local(e.get("type"))
        if t in self.gtypes:
            self._content(self.gtypes[t], kids, attrs)
        self._content(e, kids, attrs)
        self._memo[name] = (kids, attrs)
        return kids, attrs

    def reachable(self, root):
        seen, todo = set(), [root]
        while todo:
            n = todo.pop()
            if n in seen:
                continue
            d = self.describe(n)
            if d is None:
                raise AnalysisBroken("schema refers to an undeclared element %s" % n)
            seen.add(n)
            todo.extend(d[0])
        return seen


# --------------------------------------------------------------------------- F6: GKFparser vs gama-local.xsd

def _string_eq_literals(fn, var_decl):
    """(literal, comparison node, op) for every ==/!= comparison of local var_decl with a string literal"""
    out = []
    for n in fn.walk():
        if n.get("k") not in ("CXXOperatorCallExpr", "BinaryOperator") or n.get("op") not in ("==", "!="):
            continue
        args = (n.get("c") or [])[1:] if n["k"] == "CXXOperatorCallExpr" else (n.get("c") or [])
        if len(args) != 2:
            continue

        def strip(x):
            while x is not None and x.get("k") in _CASTS + ("CXXConstructExpr",) and len(x.get("c") or []) == 1:
                x = x["c"][0]
            return x
        a, b = strip(args[0]), strip(args[1])
        for v, l in ((a, b), (b, a)):
            if (v is not None and l is not None and v.get("k") == "DeclRefExpr"
                    and v["ref"].get("decl") == var_decl and l.get("k") == "StringLiteral"):
                out.append((l.get("v"), n, n.get("op")))
    return out


def _atts_aliases(fn, atts_decl):
    """the parameter holding expat's attribute array and every local pointer initialised from it"""
    al = {atts_decl}
    changed = True
    while changed:
        changed = False
        for n in fn.walk():
            if n.get("k") != "DeclStmt":
                continue
            for d in n.get("decls", []):
                src = d.get("init")
                while src is not None and src.get("k") in _CASTS and src.get("c"):
                    src = src["c"][0]
                if (src is not None and src.get("k") == "DeclRefExpr" and src["ref"].get("decl") in al
                        and "decl" in d and d["decl"] not in al
                        and (d.get("t") or "").replace(" ", "") == "constchar**"):
                    al.add(d["decl"])
                    changed = True
    return al


def _atts_reads(fn, atts_decl):
    """Assignments/initialisations of locals from successive elements of the expat attribute array:
    list of (target decl, node) in execution order, name/value alternating."""
    reads = []

    def from_atts(x):
        for y in walk(x):
            if y.get("k") == "UnaryOperator" and y.get("op") == "*":
                for z in walk(y):
                    if z.get("k") == "DeclRefExpr" and z["ref"].get("decl") in atts_decl:
                        return ("seq", None)
            if y.get("k") == "ArraySubscriptExpr":
                c = y.get("c") or []
                if len(c) == 2 and c[0].get("k") == "DeclRefExpr" and c[0]["ref"].get("decl") in atts_decl \
                        and c[1].get("k") == "IntegerLiteral":
                    return ("idx", c[1].get("v"))
        return None

    for n in fn.walk():
        tgt, src = None, None
        if n.get("k") == "CXXOperatorCallExpr" and n.get("op") == "=":
            c = n.get("c") or []
            if len(c) == 3 and c[1].get("k") == "DeclRefExpr" and c[1]["ref"].get("dk") == "local":
                tgt, src = c[1]["ref"]["decl"], c[2]
        elif n.get("k") == "BinaryOperator" and n.get("op") == "=":
            c = n.get("c") or []
            if c[0].get("k") == "DeclRefExpr" and c[0]["ref"].get("dk") == "local":
                tgt, src = c[0]["ref"]["decl"], c[1]
        elif n.get("k") == "DeclStmt":
            for d in n.get("decls", []):
                if d.get("init") is not None and "decl" in d:
                    how = from_atts(d["init"])
                    if how:
                        reads.append((d["decl"], n, how))
            continue
        if tgt is not None:
            how = from_atts(src)
            if how:
                reads.append((tgt, n, how))
    return reads


def _attr_names(fx, fn, hier, seen=None):
    """Attribute names accepted by handler fn: dict with 'accepted' (set), 'any' (attributes are not
    inspected at all), 'first_only' (the attribute read is not in a loop although names are accepted)."""
    seen = seen or set()
    if fn.key in seen:
        return {"accepted": set(), "refused": set(), "inspects": False, "first_only": False}
    seen = seen | {fn.key}
    res = {"accepted": set(), "refused": set(), "inspects": False, "first_only": False}
    atts = [p for p in fn.params if p["t"].replace(" ", "") == "constchar**"]
    if not atts:
        return res
    atts_decl = _atts_aliases(fn, atts[0]["decl"])
    cfg = fn.cfg
    reads = [r for r in _atts_reads(fn, atts_decl) if r[0] not in atts_decl]
    # helper calls that receive the attribute array
    for n in fn.calls():
        if n.get("k") != "CXXMemberCallExpr" or not _is_this(F.call_object(n)):
            continue
        if strip_targs(n.get("calleeClass") or "") not in hier:
            continue
        if any(a.get("k") == "DeclRefExpr" and a["ref"].get("decl") in atts_decl for a in (n.get("c") or [])[1:]):
            callee = fx.functions.get(n.get("calleeKey"))
            if callee is not None and callee.body is not None:
                sub = _attr_names(fx, callee, hier, seen)
                for k in ("accepted", "refused"):
                    res[k] |= sub[k]
                res["inspects"] |= sub["inspects"]
                res["first_only"] |= sub["first_only"]
    if not reads:
        return res
    res["inspects"] = True
    # which local holds the attribute name: even position in the read sequence / even index
    name_vars = set()
    seq = [r for r in reads if r[2][0] == "seq"]
    for d, n, how in reads:
        if how[0] == "idx" and how[1] % 2 == 0:
            name_vars.add(d)
    if seq:
        first = None
        for d, n, how in seq:
            if all(n is m or cfg.dominates(n, m) or not cfg.dominates(m, n) for _, m, _ in seq) and \
                    all(n is m or cfg.dominates(n, m) for _, m, _ in seq if m is not n):
                first = (d, n)
        if first is None:
            raise AnalysisBroken("%s: cannot order the reads of the attribute array" % fn.key)
        # alternate: order all sequential reads by dominance from the first
        order = sorted(seq, key=lambda r: sum(1 for _, m, _ in seq if m is not r[1] and cfg.dominates(m, r[1])))
        for i, (d, n, how) in enumerate(order):
            if i % 2 == 0:
                name_vars.add(d)
    if not name_vars:
        raise AnalysisBroken("%s: attribute loop idiom not recognised" % fn.key)
    err_blocks = set()
    for n in fn.calls():
        if n.get("k") == "CXXMemberCallExpr" and strip_targs(n.get("callee") or "") == "GNU_gama::CoreParser::error" \
                and _is_this(F.call_object(n)):
            p = cfg.block_of(n)
            if p is not None:
                err_blocks.add(p[0])
    in_loop = False
    for d, n, how in reads:
        p = cfg.block_of(n)
        if d in name_vars and p is not None:
            succs = cfg.succ.get(p[0], [])
            if any(p[0] in cfg.reachable_blocks_from(s) for s in succs):
                in_loop = True
    for v in name_vars:
        for lit, cmp_node, op in _string_eq_literals(fn, v):
            blk = None
            for bid, b in cfg.blocks.items():
                if b.get("cond") == cmp_node["id"]:
                    blk = b
            if blk is None or len(blk.get("succ", [])) != 2:
                raise AnalysisBroken("%s: comparison of the attribute name with %r is not a branch condition"
                                     % (fn.key, lit))
            tgt = blk["succ"][0 if op == "==" else 1]
            ok = tgt is not None and tgt >= 0 and cfg.paths_avoiding(tgt, err_blocks, {cfg.exit})
            (res["accepted"] if ok else res["refused"]).add(lit)
    if res["accepted"] and not in_loop:
        res["first_only"] = True
    return res


def rule_xsd_gkf(ctx):
    fx = ctx.facts
    T = table()["xsd_gkf"]
    xsd = Xsd(os.path.join(ctx.root, T["schema"]))
    A, sp, tag_fn = fsm.extract_gkf(ctx)
    tmap = fsm.tag_function_map(tag_fn)
    strings = {}
    for lit, (name, v) in tmap.items():
        strings.setdefault(v, set()).add(lit)
    configs, edges = A.explore()
    DOC = "#document"
    par = {}          # parent string -> set of child strings accepted
    handlers = {}     # element string -> set of handler Fn
    start_fn = fx.fn("GNU_gama::local::GKFparser::startElement")
    cls = "GNU_gama::local::GKFparser"
    hier = {cls, "GNU_gama::CoreParser", "GNU_gama::BaseParser"}
    for (s, st), lab, (s2, st2), tok in edges:
        if lab[0] != "start" or tok == TOP or tok[1] == A.error:
            continue
        t = lab[1]
        if t not in strings:
            continue
        parents = strings.get(st[-1], set()) if st else {DOC}
        for p in parents:
            par.setdefault(p, set()).update(strings[t])
        # handler(s) reached by startElement for this (state, tag)
        hs = set()
        for mk, callees in sp.calls_seen.items():
            if mk[0] == start_fn.key and mk[1] == ("c", s, "in") and any(v == t for _, v in mk[2]):
                for q in callees:
                    for f in fx.fns(q):
                        if f.key != tag_fn.key and strip_targs(f.rec["qn"]) != "GNU_gama::CoreParser::error" \
                                and any(p["t"].replace(" ", "") == "constchar**" for p in f.params):
                            hs.add(f)
        for lit in strings[t]:
            handlers.setdefault(lit, []).append(hs)
    ext_children = T.get("children_extensions", {})
    ext_attrs = T.get("attribute_extensions", {})
    aliases = T.get("element_aliases", {})
    root = T["root"]
    xsd_elems = xsd.reachable(root)
    all_strings = set(x for ls in strings.values() for x in ls)
    for a in aliases:
        if a in tmap and aliases[a]["of"] in tmap and tmap[a][1] != tmap[aliases[a]["of"]][1]:
            raise AnalysisBroken("alias %s is not mapped to the enumerator of %s by tag()" % (a, aliases[a]["of"]))
    names = sorted(set(par) | xsd_elems | all_strings | {DOC})
    n_children = n_attrs = 0
    for e in names:
        if e == DOC:
            want = {root}
        else:
            d = xsd.describe(aliases[e]["of"] if e in aliases else e)
            want = set(d[0]) if d else None
        got = set(par.get(e, set()))
        ext = ext_children.get(e, {})
        problems = []
        if e in aliases and (aliases[e]["of"] not in xsd_elems or e in xsd.all_names
                             or e not in all_strings):
            problems.append("stale alias entry (an alias is a name the parser maps to the enumerator of a "
                            "schema element and that the schema itself does not declare)")
        if want is not None:
            want |= {a for a in aliases if aliases[a]["of"] in want}
        lenient = []
        if want is None:
            lenient.append("element accepted by the parser is not declared in %s" % T["schema"])
            want = set()
        for x in sorted(ext):
            if x not in got or x in want:
                problems.append("stale extension entry %s" % x)
        extra = got - want - set(ext)
        missing = want - got
        if extra:
            lenient.append("parser accepts child element(s) %s that the schema does not allow" % sorted(extra))
        if missing:
            problems.append("schema allows child element(s) %s that the parser refuses" % sorted(missing))
        n_children += 1
        # accepting more than the documented grammar is leniency (the property only demands that documents
        # following the grammar are accepted): recorded, not a violation
        ctx.report(RULE, "GKFparser:xsd:children:%s" % e, not problems, start_fn.where(), start_fn.short,
                   msg="; ".join(problems), detail={"parser": sorted(got), "xsd": sorted(want),
                                                     "extensions": sorted(ext), "leniency": lenient})
        if lenient:
            ctx.note("GKFparser <%s>: %s" % (e, "; ".join(lenient)))
        if e == DOC:
            continue
        # attributes
        d = xsd.describe(aliases[e]["of"] if e in aliases else e)
        want_a = set(d[1]) if d else set()
        ext = ext_attrs.get(e, {})
        problems = []
        accepted, uninspected, first_only, hnames = set(), False, False, set()
        for hs in handlers.get(e, []):
            if not hs:
                uninspected = True
            for h in hs:
                ctx.saw(h)
                hnames.add(h.short)
                r = _attr_names(fx, h, hier)
                accepted |= r["accepted"]
                if not r["inspects"]:
                    uninspected = True
                first_only |= r["first_only"]
        if e not in handlers:
            problems.append("no reachable start transition accepts <%s>" % e)
        lenient = []
        if uninspected:
            lenient.append("the attributes of <%s> are not inspected: any attribute is accepted" % e)
        if first_only and len(want_a) > 1:
            # not leniency: the schema allows several attributes on this element, the handler reads one
            problems.append("only the first attribute of <%s> is read (the attribute array is not read in a "
                            "loop) although the schema declares %d attributes: a schema-valid element loses "
                            "every attribute after the first (ignored or reported as missing)" % (e, len(want_a)))
        elif first_only:
            lenient.append("only the first attribute of <%s> is inspected (the attribute array is not read "
                           "in a loop): further attributes are silently ignored" % e)
        for x in sorted(ext):
            if x not in accepted or x in want_a:
                problems.append("stale extension entry %s" % x)
        extra = accepted - want_a - set(ext)
        missing = want_a - accepted
        if extra:
            lenient.append("parser accepts attribute(s) %s not in the schema" % sorted(extra))
        if missing and not uninspected:
            problems.append("schema attribute(s) %s are refused by the parser" % sorted(missing))
        n_attrs += 1
        ctx.report(RULE, "GKFparser:xsd:attrs:%s" % e, not problems, start_fn.where(),
                   ", ".join(sorted(hnames)), msg="; ".join(problems),
                   detail={"parser": sorted(accepted), "xsd": sorted(want_a), "extensions": sorted(ext),
                           "leniency": lenient})
        if lenient:
            ctx.note("GKFparser <%s>: %s" % (e, "; ".join(lenient)))
    ctx.floor(RULE, 17, n_children, "GKFparser elements compared with the schema (children)")
    ctx.floor(RULE, 16, n_attrs, "GKFparser elements compared with the schema (attributes)")


# --------------------------------------------------------------------------- C12 vocabulary

_TAG_RE = re.compile(r"<(/?)([A-Za-z_][A-Za-z0-9_.\-]*)?")


def _flatten_stream(n):
    """operands of a chain a << b << c (left to right), or None if n is not an ostream insertion"""
    if n.get("k") != "CXXOperatorCallExpr" or n.get("op") != "<<":
        return None
    c = n.get("c") or []
    if len(c) != 3:
        return None
    left = _flatten_stream(c[1])
    return (left if left is not None else [c[1]]) + [c[2]]


class _Strings:
    """possible literal values of a `const char*` / std::string expression (names of written elements)"""

    def __init__(self, fx, scope):
        self.fx = fx
        self.scope = scope
        self.by_qn = {}
        for f in scope:
            self.by_qn.setdefault(f.qn, []).append(f)

    def of(self, fn, n, depth=0):
        if n is None or depth > 8:
            return {None}
        k = n.get("k")
        c = n.get("c") or []
        if k == "StringLiteral":
            return {n.get("v")}
        if k in _CASTS or (k in ("CXXConstructExpr", "CXXTemporaryObjectExpr") and len(c) == 1):
            return self.of(fn, c[0], depth + 1)
        if k == "CXXOperatorCallExpr" and n.get("op") == "=" and len(c) == 3:
            return self.of(fn, c[2], depth + 1)
        if k == "BinaryOperator" and n.get("op") == "=":
            return self.of(fn, c[1], depth + 1)
        if k == "ConditionalOperator" and len(c) == 3:
            return self.of(fn, c[1], depth + 1) | self.of(fn, c[2], depth + 1)
        if k == "DeclRefExpr" and n["ref"].get("dk") == "local":
            d = n["ref"]["decl"]
            out = set()
            for x in fn.walk():
                if x.get("k") == "DeclStmt":
                    for dd in x.get("decls", []):
                        if dd.get("decl") == d and dd.get("init") is not None:
                            out |= self.of(fn, dd["init"], depth + 1)
                elif x.get("k") == "BinaryOperator" and x.get("op") == "=" and \
                        x["c"][0].get("k") == "DeclRefExpr" and x["c"][0]["ref"].get("decl") == d:
                    out |= self.of(fn, x["c"][1], depth + 1)
                elif x.get("k") == "CXXOperatorCallExpr" and x.get("op") == "=" and len(x.get("c") or []) == 3 \
                        and x["c"][1].get("k") == "DeclRefExpr" and x["c"][1]["ref"].get("decl") == d:
                    out |= self.of(fn, x["c"][2], depth + 1)
            return out or {None}
        if k == "DeclRefExpr" and n["ref"].get("dk") == "parm":
            d = n["ref"]["decl"]
            idx = [i for i, p in enumerate(fn.params) if p["decl"] == d]
            if not idx:
                return {None}
            out = set()
            for g in self.scope:
                for call in g.calls():
                    callee = strip_targs(call.get("callee") or "")
                    if callee != fn.qn:
                        continue
                    args = F.call_args(call)
                    if idx[0] < len(args):
                        out |= self.of(g, args[idx[0]], depth + 1)
            return out or {None}
        if k == "MemberExpr" and n.get("mk") == "field":
            owner = strip_targs(n.get("owner") or "")
            out = set()
            for g in self.scope:
                if strip_targs(g.cls or "") != owner:
                    continue
                for x in g.walk():
                    if x.get("k") == "CXXOperatorCallExpr" and x.get("op") == "=" and len(x.get("c") or []) == 3 \
                            and x["c"][1].get("k") == "MemberExpr" and x["c"][1].get("member") == n.get("member"):
                        out |= self.of(g, x["c"][2], depth + 1)
                    elif x.get("k") == "BinaryOperator" and x.get("op") == "=" \
                            and x["c"][0].get("k") == "MemberExpr" and x["c"][0].get("member") == n.get("member"):
                        out |= self.of(g, x["c"][1], depth + 1)
            return out or {None}
        if k == "CXXMemberCallExpr":
            callee = self.fx.functions.get(n.get("calleeKey"))
            if callee is not None and callee.body is not None:
                rets = [x for x in callee.walk() if x.get("k") == "ReturnStmt"]
                out = set()
                for r in rets:
                    for v in F.children(r):
                        out |= self.of(callee, v, depth + 1)
                return out or {None}
        return {None}


def writer_elements(ctx, fx, T):
    """element names written by the adjustment-XML writer: (opened, closed, where-by-name)"""
    anchor = None
    files = set()
    for w in T["writers"]:
        a = fx.fn(w["class"] + "::" + w["entry"])
        anchor = anchor or a
        files |= {f.file for f in fx.methods_of(w["class"])}
    scope = [f for f in fx.functions.values() if f.file in files and f.body is not None and f.cls]
    S = _Strings(fx, scope)
    opened, closed, where = set(), set(), {}
    n_lit = 0
    for f in scope:
        left_open = set()
        selfclose = False
        inner = set()
        chains = []
        for n in f.walk():
            ops = _flatten_stream(n)
            if ops is not None and n["id"] not in inner:
                chains.append(ops)
                for x in walk(n):
                    if x is not n and x.get("k") == "CXXOperatorCallExpr" and x.get("op") == "<<":
                        # nested part of the same chain (left spine) - skip when visited later
                        pass
                # mark the left spine as consumed
                cur = n
                while True:
                    c = cur.get("c") or []
                    if len(c) == 3 and c[1].get("k") == "CXXOperatorCallExpr" and c[1].get("op") == "<<":
                        inner.add(c[1]["id"])
                        cur = c[1]
                    else:
                        break
        covered = set()
        def _lits_of(o, depth=0):
            """string literals an operand can stand for: the literal itself, or the arms of `c ? "a" : "b"`"""
            while o is not None and o.get("k") in _CASTS and o.get("c"):
                o = o["c"][0]
            if o is None or depth > 4:
                return []
            if o.get("k") == "StringLiteral":
                return [o]
            if o.get("k") == "ConditionalOperator" and len(o.get("c") or []) == 3:
                return _lits_of(o["c"][1], depth + 1) + _lits_of(o["c"][2], depth + 1)
            if o.get("k") == "ParenExpr" and o.get("c"):
                return _lits_of(o["c"][0], depth + 1)
            return []
        for ops in chains:
            for i, lit in [(i_, l_) for i_, o_ in enumerate(ops) for l_ in _lits_of(o_)]:
                covered.add(lit["id"])
                text = lit.get("v") or ""
                if re.match(r"\s*/>", text):
                    selfclose = True         # closes a start tag that an earlier literal left open
                if "<" not in text:
                    continue
                ctx.saw(f)
                n_lit += 1
                for m in _TAG_RE.finditer(text):
                    close, name = m.group(1), m.group(2)
                    rest = text[m.end():]
                    if name is None:
                        if text[m.end():m.end() + 1] in ("?", "!"):
                            continue
                        if rest.strip():
                            continue            # a bare '<' inside text, not markup
                        if i + 1 >= len(ops):
                            raise AnalysisBroken("%s: '<' is written without an element name" % f.where(lit))
                        vals = S.of(f, ops[i + 1])
                        if None in vals or not vals:
                            raise AnalysisBroken("%s: the element name written after '<' is not a literal"
                                                 % f.where(lit))
                        nm = set()
                        for v in vals:
                            mm = re.match(r"[A-Za-z_][A-Za-z0-9_.\-]*", v)
                            if not mm:
                                raise AnalysisBroken("%s: %r is not an element name" % (f.where(lit), v))
                            nm.add(mm.group(0))
                    else:
                        nm = {name}
                    for x in nm:
                        (closed if close else opened).add(x)
                        where.setdefault(x, f.where(lit))
                        if not close and re.match(r"\s*/>", rest) and name is not None:
                            closed.add(x)
                        if not close and name is not None and ">" not in rest:
                            left_open.add(x)
        if selfclose:
            closed |= left_open
        # literals with markup that are not written through a recognised ostream chain
        for n in f.walk():
            if n.get("k") == "StringLiteral" and n["id"] not in covered and _TAG_RE.search(n.get("v") or "") \
                    and re.search(r"</?[A-Za-z]", n.get("v") or ""):
                raise AnalysisBroken("%s: markup literal %r is not an operand of an ostream insertion"
                                     % (f.where(n), n.get("v")))
    ctx.floor(RULE, 150, n_lit, "markup literals in the adjustment-XML writer")
    return opened, closed, where, anchor


def rule_xsd_adjxml(ctx):
    fx = ctx.facts
    T = table()["xsd_adjxml"]
    xsd = Xsd(os.path.join(ctx.root, T["schema"]))
    opened, closed, where, anchor = writer_elements(ctx, fx, T)
    tag_fn = fx.fn(T["reader_class"] + "::tag")
    ctx.saw(tag_fn)
    known = set(fsm.tag_function_map(tag_fn))
    declared = set(xsd.reachable(T["root"]))
    orphans = sorted(set(xsd.all_names) - declared)
    if orphans:
        ctx.note("adjxml: elements declared in %s but not reachable from <%s> (ignored): %s"
                 % (T["schema"], T["root"], orphans))
    diffs = T.get("differences", {})
    n = 0
    for name in sorted(opened | closed | known | declared | set(diffs)):
        member = {"writer": name in opened, "reader": name in known, "xsd": name in declared}
        problems = []
        if (name in opened) != (name in closed):
            problems.append("written as %s tag only" % ("a start" if name in opened else "an end"))
        if name in diffs:
            want = set(diffs[name]["in"])
            have = {k for k, v in member.items() if v}
            if want != have or len(have) == 3:
                problems.append("stale entry in the table of documented differences (now in %s)" % sorted(have))
        elif not all(member.values()):
            problems.append("element <%s> is %s" % (name, ", ".join(
                "%s by the %s" % ("known" if v else "NOT known", k) if k != "xsd" else
                "%s in %s" % ("declared" if v else "NOT declared", os.path.basename(T["schema"]))
                for k, v in sorted(member.items()))))
        n += 1
        ctx.report(RULE, "adjxml:vocabulary:%s" % name, not problems,
                   where.get(name, tag_fn.where()), anchor.short, msg="; ".join(problems), detail=member)
    ctx.floor(RULE, 80, n, "adjustment-XML element names compared")


# --------------------------------------------------------------------------- GKFparser: error escape

def rule_gkf_escape(ctx):
    """Supplement to fsm.rule_gkf (whose propagation does not remember that error() was already called):
    no start/end transition of GKFparser calls error() and then overwrites the state with a non-error
    value - the stored diagnostic would never be thrown (BaseParser::xml_parse only tests state == 0)."""
    fx = ctx.facts
    cls = "GNU_gama::local::GKFparser"
    A0, sp0, tag_fn = fsm.extract_gkf(ctx)
    start_fn = fx.fn(cls + "::startElement")
    end_fn = fx.fn(cls + "::endElement")
    tag_local = None
    for n in start_fn.walk():
        if n.get("k") == "DeclStmt":
            for d in n.get("decls", []):
                if d.get("init") is not None and any(
                        is_call(x) and x.get("calleeKey") == tag_fn.key for x in walk(d["init"])):
                    tag_local = d["name"]
    if tag_local is None:
        raise AnalysisBroken("GKFparser::startElement: local initialised from tag() not found")
    hier = {cls, "GNU_gama::CoreParser", "GNU_gama::BaseParser"}
    sp = StateProp2(fx, hierarchy=hier, error_value=A0.error)
    # reachability from StateProp2's own transitions (tracks call results through locals as well)
    A1 = StackAutomaton("GKFparser", A0.states, A0.tags,
                        lambda s, t: sp.run2(start_fn, ("c", s, "in"), {tag_local: t}),
                        lambda s, top: sp.run2(end_fn, ("c", s, "in"), {}),
                        A0.error, A0.start_state)
    configs, _ = A1.explore()
    reach = {s for s, _ in configs}
    n = 0
    for s in sorted(reach):
        if s == A0.error:
            continue
        trans = [("end", None, sp.run2(end_fn, ("c", s, "in"), {}))]
        for t in sorted(A0.tags):
            trans.append(("start", t, sp.run2(start_fn, ("c", s, "in"), {tag_local: t})))
        for kind, t, items in trans:
            esc = sorted({A0.sname(tok[1]) for tok, _ in items if tok != TOP and tok[2] == "escaped"})
            if kind == "start" and not esc and all(tok != TOP and tok[1] == A0.error for tok, _ in items):
                continue            # a refused tag: nothing to decide
            n += 1
            key = "GKFparser:error-escape:%s:%s" % (A0.sname(s), A0.tname(t) if t is not None else "end")
            ctx.report(RULE, key, not esc, (start_fn if kind == "start" else end_fn).where(), "",
                       msg="" if not esc else "after error() the state is overwritten with %s: the recorded "
                       "diagnostic is never thrown and parsing continues" % esc)
    for k in sp.used_fns:
        ctx.saw(k)
    ctx.floor(RULE, 40, n, "GKFparser accepting transitions checked for error escape")
