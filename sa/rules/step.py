"""R-STEP / R-SCRATCH: lock-step position counters and per-call initialisation of scratch containers.

R-STEP  A *counter* is an integer or pointer local / field that is advanced (`++`, `+= e`, `v = v + e`) inside
a loop over an element sequence (or inside a per-element callback) and runs alongside the elements:
an offset into a structure, a row number, a count.  For every update site the engine computes, on the
CFG of one iteration (body entry -> next evaluation of the loop condition), the exact condition under
which the site is executed: the disjunction over its control-dependence parents, recursively, as a
DNF over the branch conditions of the body (`if (P) {..}`, `if (!P) continue;`, `&&`/`||`, De-Morgan
forms are all the same formula; `v += c ? a : b` is split into two guarded advances).  The *class* of a counter is the function

        valuation of the branch atoms  ->  total advance in that iteration

and the table `step.json` freezes, per counter confirmed by reading, the demanded function as a list of
`{when: DNF, step: s}` terms with the reason (what the counter indexes).  Measured and demanded classes
are compared as functions (truth table over the atoms), so the way a guard is written does not matter.
Counters are identified by function + advance + what they index, never by the local's name.

R-SCRATCH  see the second half of this file.
"""
import itertools
import json
import re
from collections import Counter, defaultdict

import engine
import facts as F
from facts import AnalysisBroken, walk, strip_targs, short

LOOPS = ("ForStmt", "WhileStmt", "DoStmt", "CXXForRangeStmt")
INT_TYPES = {"int", "unsigned int", "unsigned long", "long", "unsigned", "short", "long long",
             "unsigned long long", "unsigned short", "std::size_t", "size_t"}
CASTS = ("CXXStaticCastExpr", "CStyleCastExpr", "CXXFunctionalCastExpr", "ImplicitCastExpr",
         "CXXReinterpretCastExpr", "CXXConstCastExpr")


def is_int_type(t):
    t = (t or "").replace("const ", "").replace("volatile ", "").strip()
    return t in INT_TYPES


def type_short(t):
    t = short(t or "?")
    t = t.replace("const ", "").strip()
    return t


# =========================================================================== per-function view

class View:
    """Per-function helpers: definitions of locals, canonical rendering, iteration regions."""

    def __init__(self, fn):
        self.fn = fn
        self.cfg = fn.cfg
        self.nodes = fn.nodes
        self._defs = None
        self._regions = {}
        self.param_pos = {p.get("decl"): i for i, p in enumerate(fn.params)}

    # ---- definitions of locals
    @property
    def defs(self):
        """decl id -> list of ('init', init node | None) / ('write', node)"""
        if self._defs is None:
            d = defaultdict(list)
            for n in self.fn.walk():
                k = n.get("k")
                if k == "DeclStmt":
                    for dc in n.get("decls", []):
                        if "decl" in dc:
                            d[dc["decl"]].append(("init", dc.get("init"), dc))
                elif k in ("BinaryOperator", "CompoundAssignOperator") and (
                        n.get("op") == "=" or k == "CompoundAssignOperator"):
                    l = n["c"][0]
                    if l.get("k") == "DeclRefExpr" and "decl" in l["ref"]:
                        d[l["ref"]["decl"]].append(("write", n, None))
                elif k == "UnaryOperator" and n.get("op") in ("++", "--", "&"):
                    l = n["c"][0]
                    if l.get("k") == "DeclRefExpr" and "decl" in l["ref"]:
                        d[l["ref"]["decl"]].append(("write", n, None))
                elif k == "CXXOperatorCallExpr" and n.get("op") in (
                        "=", "+=", "-=", "++", "--", "*=", "/="):
                    a = F.call_args(n)
                    if a and a[0].get("k") == "DeclRefExpr" and "decl" in a[0]["ref"]:
                        d[a[0]["ref"]["decl"]].append(("write", n, None))
            self._defs = d
        return self._defs

    def single_init(self, decl):
        ds = self.defs.get(decl, [])
        if len(ds) == 1 and ds[0][0] == "init" and ds[0][1] is not None:
            return ds[0][1]
        if len(ds) == 2 and ds[0][0] == "init" and ds[0][1] is None and ds[1][0] == "write":
            w = ds[1][1]
            if w.get("k") == "BinaryOperator" and w.get("op") == "=":
                return w["c"][1]
        return None

    # ---- canonical rendering (no local names)
    def render(self, n, env=None, depth=0):
        env = env or {}
        if n is None:
            return ""
        if depth > 14:
            return "..."
        k = n.get("k")
        c = n.get("c") or []
        R = lambda x: self.render(x, env, depth + 1)
        if k == "DeclRefExpr":
            ref = n["ref"]
            dk = ref.get("dk")
            if dk in ("local", "parm"):
                decl = ref.get("decl")
                if decl in env:
                    return env[decl]
                if decl in self.param_pos:
                    return "@%d" % self.param_pos[decl]
                init = self.single_init(decl)
                if init is not None and depth < 10:
                    return self.render(init, env, depth + 1)
                return "<%s>" % type_short(n.get("t"))
            if dk == "enumconst":
                return ref.get("name", "?")
            return short(ref.get("qn") or ref.get("name", "?"))
        if k == "MemberExpr":
            base = R(c[0]) if c else ""
            if base in ("this", ""):
                return n.get("member", "?")
            return base + "." + n.get("member", "?")
        if k == "CXXThisExpr":
            return "this"
        if k in ("IntegerLiteral", "FloatingLiteral", "CXXBoolLiteralExpr", "CharacterLiteral"):
            return str(n.get("v"))
        if k == "StringLiteral":
            return json.dumps(n.get("v"))
        if k == "CXXNullPtrLiteralExpr" or k == "GNUNullExpr":
            return "0"
        if k in ("BinaryOperator", "CompoundAssignOperator") and len(c) == 2:
            return "(%s %s %s)" % (R(c[0]), n.get("op"), R(c[1]))
        if k == "UnaryOperator" and c:
            if n.get("op") == "*":
                return R(c[0])
            if n.get("postfix"):
                return R(c[0]) + n.get("op", "")
            return n.get("op", "") + R(c[0])
        if k == "CXXMemberCallExpr":
            return "%s(%s)" % (R(c[0]) if c else "?", ", ".join(R(a) for a in c[1:]))
        if k == "CXXOperatorCallExpr":
            op = n.get("op", "?")
            args = c[1:]
            if op in ("*", "->") and len(args) == 1:
                return R(args[0])
            if op == "()" and args:
                return "%s(%s)" % (R(args[0]), ", ".join(R(a) for a in args[1:]))
            if op == "[]" and len(args) == 2:
                return "%s[%s]" % (R(args[0]), R(args[1]))
            if len(args) == 2:
                return "(%s %s %s)" % (R(args[0]), op, R(args[1]))
            if len(args) == 1:
                return op + R(args[0])
        if k == "CallExpr":
            return "%s(%s)" % (R(c[0]) if c else "?", ", ".join(R(a) for a in c[1:]))
        if k in ("CXXConstructExpr", "CXXTemporaryObjectExpr"):
            if len(c) == 1:
                return R(c[0])
            return "%s(%s)" % (type_short(n.get("ctor") or n.get("t")), ", ".join(R(a) for a in c))
        if k == "ArraySubscriptExpr" and len(c) == 2:
            return "%s[%s]" % (R(c[0]), R(c[1]))
        if k == "ConditionalOperator" and len(c) == 3:
            return "(%s ? %s : %s)" % tuple(R(x) for x in c)
        if k == "CXXDynamicCastExpr":
            return "dyn<%s>(%s)" % (type_short(n.get("castTo") or n.get("t")), R(c[0]) if c else "")
        if k in CASTS:
            return R(c[0]) if c else ""
        if k == "CXXNewExpr":
            return "new[%s]" % ", ".join(R(x) for x in c)
        if c:
            return "%s(%s)" % (k, ", ".join(R(x) for x in c))
        return k or "?"

    # ---- branch atoms
    def atom(self, n, env):
        """(text, polarity) of a branch condition leaf, negations and comparison direction normalised."""
        pol = True
        for _ in range(12):
            k = n.get("k")
            c = n.get("c") or []
            if k == "UnaryOperator" and n.get("op") == "!":
                pol = not pol
                n = c[0]
                continue
            if k == "CXXOperatorCallExpr" and n.get("op") == "!" and len(c) == 2:
                pol = not pol
                n = c[1]
                continue
            if k == "DeclRefExpr" and n["ref"].get("dk") == "local" and n["ref"].get("decl") not in env:
                init = self.single_init(n["ref"].get("decl"))
                if init is not None and n["ref"].get("decl") not in self.param_pos:
                    n = init
                    continue
            if k in CASTS and c:
                n = c[0]
                continue
            break
        k = n.get("k")
        c = n.get("c") or []
        op = n.get("op")
        args = None
        if k == "BinaryOperator" and op in ("==", "!=", "<", ">", "<=", ">="):
            args = c
        elif k == "CXXOperatorCallExpr" and op in ("==", "!=", "<", ">", "<=", ">=") and len(c) == 3:
            args = c[1:]
        if args is not None:
            a, b = self.render(args[0], env), self.render(args[1], env)
            if op in ("==", "!="):
                if op == "!=":
                    pol = not pol
                zero = [x for x in (a, b) if x in ("0", "False")]
                if len(zero) == 1:
                    other = b if a in ("0", "False") else a
                    return other, not pol
                a, b = sorted((a, b))
                return "(%s == %s)" % (a, b), pol
            if op == ">":
                return "(%s < %s)" % (b, a), pol
            if op == ">=":
                return "(%s < %s)" % (a, b), not pol
            if op == "<=":
                return "(%s < %s)" % (b, a), not pol
            return "(%s < %s)" % (a, b), pol
        return self.render(n, env), pol

    def formula(self, n, env, pol=True, depth=0):
        """DNF (list of frozensets of (atom text, polarity)) of a boolean expression: `!`, `&&`, `||`, and
        single-definition bool locals are expanded, the leaves are normalised by atom()"""
        for _ in range(12):
            k = n.get("k")
            c = n.get("c") or []
            if k == "UnaryOperator" and n.get("op") == "!":
                pol = not pol
                n = c[0]
                continue
            if k in CASTS and c:
                n = c[0]
                continue
            if k == "DeclRefExpr" and n["ref"].get("dk") == "local" and n["ref"].get("decl") not in env \
                    and n["ref"].get("decl") not in self.param_pos and depth < 6:
                init = self.single_init(n["ref"].get("decl"))
                if init is not None:
                    n = init
                    depth += 1
                    continue
            break
        k = n.get("k")
        c = n.get("c") or []
        if k == "BinaryOperator" and n.get("op") in ("&&", "||") and depth < 8:
            fa = self.formula(c[0], env, pol, depth + 1)
            fb = self.formula(c[1], env, pol, depth + 1)
            conj = (n["op"] == "&&") == pol
            if not conj:
                return _simplify(fa + fb)
            out = []
            for x in fa:
                for y in fb:
                    z = x | y
                    if any((a, not p) in z for a, p in z):
                        continue
                    out.append(z)
            return _simplify(out)
        txt, p0 = self.atom(n, env)
        return [frozenset({(txt, p0 == pol)})]

    # ---- loops
    def loops_around(self, node):
        """enclosing loop statements, outermost first (a statement in the init part of a for is not
        inside that loop)"""
        out = []
        for a in self.fn.ancestors(node):
            if a.get("k") not in LOOPS:
                continue
            init = a.get("init")
            if init is not None and any(x is node for x in walk(init)):
                continue
            rs = a.get("rangeStmt")
            if rs is not None and any(x is node for x in walk(rs)):
                continue
            out.append(a)
        return out[::-1]

    def loop_blocks(self, L):
        """(terminator block, header block set, body entry block, exit block) of a loop statement"""
        cfg = self.cfg
        T = None
        for bid, b in cfg.blocks.items():
            if b.get("term") == L["id"] and b.get("termK") == L.get("k"):
                T = bid
                break
        if T is None:
            raise AnalysisBroken("no terminator block for the loop at %s" % self.fn.where(L))
        H = {T}
        cond = L.get("cond")
        if cond is not None:
            ids = {x["id"] for x in walk(cond)}
            for bid, b in cfg.blocks.items():
                if any(isinstance(e, int) and e in ids for e in b.get("el", [])):
                    H.add(bid)
        raw = cfg.blocks[T].get("succ", [])
        E = raw[0] if raw else None
        X = raw[1] if len(raw) > 1 else None
        if E is None or E < 0:
            raise AnalysisBroken("loop body pruned at %s" % self.fn.where(L))
        return T, H, E, X

    def loop_env(self, L, depth):
        """decl ids that stand for the current element of loop L -> '$depth'"""
        env = {}
        tag = "$" if depth == 1 else "$%d" % depth
        k = L.get("k")
        if k == "CXXForRangeStmt":
            for key in ("loopVar", "beginStmt"):
                st = L.get(key)
                if st is not None and st.get("k") == "DeclStmt":
                    for d in st.get("decls", []):
                        if "decl" in d:
                            env[d["decl"]] = tag
            return env
        if k in ("ForStmt", "WhileStmt", "DoStmt"):
            modified = set()
            where = [L.get("inc")] if k == "ForStmt" and L.get("inc") is not None else []
            if k != "ForStmt":
                where = [L.get("body")]
            for part in where:
                for x in walk(part):
                    kk = x.get("k")
                    tgt = None
                    if kk == "UnaryOperator" and x.get("op") in ("++", "--"):
                        tgt = x["c"][0]
                    elif kk == "CompoundAssignOperator":
                        tgt = x["c"][0]
                    elif kk == "CXXOperatorCallExpr" and x.get("op") in ("++", "--", "+=", "-="):
                        a = F.call_args(x)
                        tgt = a[0] if a else None
                    if tgt is not None and tgt.get("k") == "DeclRefExpr" and "decl" in tgt["ref"]:
                        modified.add(tgt["ref"]["decl"])
            incond = {x["ref"]["decl"] for x in walk(L.get("cond"))
                      if x.get("k") == "DeclRefExpr" and "decl" in x["ref"]}
            for d in modified & incond:
                env[d] = tag
        return env

    def loop_desc(self, L, env):
        """container / bound descriptor of a loop, independent of the loop form"""
        k = L.get("k")
        if k == "CXXForRangeStmt":
            rs = L.get("rangeStmt")
            if rs is not None:
                for d in rs.get("decls", []):
                    if d.get("init") is not None:
                        return self.render(d["init"], env)
        if k == "ForStmt":
            own = self.loop_env(L, 99)
            init = L.get("init")
            if init is not None and init.get("k") == "DeclStmt":
                for d in init.get("decls", []):
                    if d.get("decl") in own and d.get("init") is not None:
                        for x in walk(d["init"]):
                            if x.get("k") == "CXXMemberCallExpr" and (x["c"][0].get("member") in (
                                    "begin", "cbegin", "rbegin")):
                                return self.render(F.call_object(x), env)
        c = L.get("cond")
        e2 = dict(env)
        e2.update(self.loop_env(L, 0))
        for kk in list(e2):
            if e2[kk] == "$0":
                e2[kk] = "_"
        return self.render(c, e2) if c is not None else "forever"

    def counted(self, L, env):
        """number of iterations of a canonical counted loop `for (T d=a; d<X; d++)`, rendered; else None"""
        if L.get("k") != "ForStmt":
            return None
        own = self.loop_env(L, 99)
        if len(own) != 1:
            return None
        d = next(iter(own))
        init = L.get("init")
        a = None
        if init is not None and init.get("k") == "DeclStmt":
            for dc in init.get("decls", []):
                if dc.get("decl") == d and dc.get("init") is not None and dc["init"].get("k") == "IntegerLiteral":
                    a = dc["init"].get("v")
        elif init is not None and init.get("k") == "BinaryOperator" and init.get("op") == "=":
            l, r = init["c"]
            if l.get("k") == "DeclRefExpr" and l["ref"].get("decl") == d and r.get("k") == "IntegerLiteral":
                a = r.get("v")
        if a is None:
            return None
        inc = L.get("inc")
        incs = [x for x in walk(inc) if x.get("k") == "UnaryOperator" and x.get("op") == "++"
                and x["c"][0].get("k") == "DeclRefExpr" and x["c"][0]["ref"].get("decl") == d]
        if len(incs) != 1:
            return None
        # the induction variable is written nowhere else, the body neither breaks nor returns
        writes = [w for w in self.defs.get(d, []) if w[0] == "write" and w[1] is not incs[0]
                  and not (init is not None and w[1] is init)]
        if writes:
            return None
        for x in walk(L.get("body")):
            if x.get("k") in ("BreakStmt", "ReturnStmt", "GotoStmt", "CXXThrowExpr"):
                # a break of a loop nested deeper is harmless, but keep it simple and exact
                return None
        c = L.get("cond")
        if c is None or c.get("k") != "BinaryOperator" or c.get("op") not in ("<", "<="):
            return None
        l, r = c["c"]
        if not (l.get("k") == "DeclRefExpr" and l["ref"].get("decl") == d):
            return None
        if any(x.get("k") == "DeclRefExpr" and x["ref"].get("decl") == d for x in walk(r)):
            return None
        X = self.render(r, env)
        if (a == 0 and c["op"] == "<") or (a == 1 and c["op"] == "<="):
            return X
        return None

    # ---- iteration region and control dependence
    def region(self, key, E, sinks, inner_loops):
        """Control-dependence conditions of the blocks of one iteration.
        E: entry block, sinks: set of blocks that end the iteration (never entered),
        inner_loops: loop statements nested in the region (their back edges are redirected to their exits).
        Returns cond(block) -> DNF (list of frozensets of (atomkey, polarity)) or None if the block is not
        on a completed iteration."""
        if key in self._regions:
            return self._regions[key]
        cfg = self.cfg
        SINK = -1
        # forward reachable
        succ = {}
        seen = set()
        stack = [E]
        redirect = {}      # (p, h) back edge of an inner loop -> exit
        drop = set()
        loopcond = {}      # header block of inner loop -> loop id
        for L2 in inner_loops:
            T2, H2, E2, X2 = self.loop_blocks(L2)
            for h in H2:
                loopcond[h] = L2["id"]
            if L2.get("k") == "DoStmt":
                drop.add((T2, E2))
                continue
            body = set()
            st = [E2]
            while st:
                b = st.pop()
                if b in body or b in H2:
                    continue
                body.add(b)
                st.extend(cfg.succ.get(b, []))
            for p in body:
                for s in cfg.succ.get(p, []):
                    if s in H2:
                        redirect[(p, s)] = X2
        while stack:
            b = stack.pop()
            if b in seen:
                continue
            seen.add(b)
            out = []
            raw = cfg.blocks[b].get("succ", [])
            for idx, s in enumerate(raw):
                if s is None or s < 0:
                    continue
                if (b, s) in drop:
                    continue
                if (b, s) in redirect:
                    s2 = redirect[(b, s)]
                    if s2 is None or s2 < 0:
                        continue
                    out.append((SINK if s2 in sinks else s2, None))
                    if s2 not in sinks:
                        stack.append(s2)
                    continue
                if s in sinks:
                    out.append((SINK, idx))
                else:
                    out.append((s, idx))
                    stack.append(s)
            succ[b] = out
        # prune blocks that cannot complete the iteration
        pred = defaultdict(list)
        for b, out in succ.items():
            for s, idx in out:
                pred[s].append(b)
        live = set()
        st = [SINK]
        while st:
            b = st.pop()
            if b in live:
                continue
            live.add(b)
            st.extend(pred.get(b, []))
        if E not in live:
            res = {}
            self._regions[key] = res
            return res
        g = {b: [(s, idx) for s, idx in succ[b] if s in live] for b in succ if b in live}
        g[SINK] = []
        nodes = list(g)
        # the region must be acyclic (inner loops were cut)
        order = self._topo(g, E)
        if order is None:
            raise AnalysisBroken("iteration region of %s is cyclic after cutting inner loops (%s)"
                                 % (self.fn.short, key))
        # post-dominators towards SINK
        pdom = {b: None for b in nodes}
        pdom[SINK] = {SINK}
        for b in reversed(order):
            if b == SINK:
                continue
            ss = [s for s, _ in g[b]]
            if not ss:
                pdom[b] = {b}
                continue
            acc = None
            for s in ss:
                acc = set(pdom[s]) if acc is None else acc & pdom[s]
            pdom[b] = acc | {b}
        # control dependence
        cd = defaultdict(list)
        for p in nodes:
            ss = g[p]
            if len({s for s, _ in ss}) < 2:
                continue
            for s, idx in ss:
                for b in pdom[s]:
                    if b == SINK:
                        continue
                    if b in pdom[p] and b != p:
                        continue
                    if b == p:
                        continue
                    cd[b].append((p, s, idx))
        memo = {}

        def cond(b):
            if b in memo:
                return memo[b]
            memo[b] = [frozenset()]   # provisional (acyclic, never used)
            parents = cd.get(b)
            if not parents:
                res = [frozenset()]
            else:
                res = []
                for p, s, idx in parents:
                    lit = self._edge_literal(p, s, idx, loopcond)
                    for conj in cond(p):
                        if lit is None:
                            res.append(conj)
                        else:
                            neg = (lit[0], not lit[1])
                            if neg in conj:
                                continue
                            res.append(conj | {lit})
                res = _simplify(res)
            memo[b] = res
            return res

        out = {}
        for b in nodes:
            if b != SINK:
                out[b] = cond(b)
        self._regions[key] = out
        return out

    @staticmethod
    def _topo(g, E):
        indeg = defaultdict(int)
        for b, out in g.items():
            for s, _ in out:
                indeg[s] += 1
        order = []
        ready = [b for b in g if indeg[b] == 0]
        while ready:
            b = ready.pop()
            order.append(b)
            for s, _ in g[b]:
                indeg[s] -= 1
                if indeg[s] == 0:
                    ready.append(s)
        if len(order) != len(g):
            return None
        return order

    def _edge_literal(self, p, s, idx, loopcond):
        blk = self.cfg.blocks[p]
        if p in loopcond:
            if idx == 0:
                return (("loop", loopcond[p]), True)
            return None
        raw = blk.get("succ", [])
        if blk.get("termK") == "SwitchStmt":
            lab = self.cfg.blocks[raw[idx]].get("label") if idx is not None else None
            ln = self.nodes.get(lab) if lab else None
            v = "default"
            if ln is not None and ln.get("k") == "CaseStmt":
                v = str(ln.get("v"))
            return (("case", blk.get("cond"), v), True)
        if blk.get("termK") in ("CXXTryStmt",):
            return None       # handler dispatch: no exception edges are modelled, never on a normal path
        if blk.get("cond") is None or idx is None:
            raise AnalysisBroken("%s: branch without condition in block %d" % (self.fn.short, p))
        cn = self.nodes.get(blk["cond"])
        while cn is not None and cn.get("k") == "BinaryOperator" and cn.get("op") in ("&&", "||"):
            cn = cn["c"][1]
        if cn is None:
            raise AnalysisBroken("%s: condition node of block %d not exported" % (self.fn.short, p))
        return (("if", cn["id"]), idx == 0)


def _simplify(dnf):
    """absorption and merging of complementary conjunctions"""
    dnf = list({c for c in dnf})
    changed = True
    while changed:
        changed = False
        # x&A | !x&A -> A
        for a, b in itertools.combinations(dnf, 2):
            d = a ^ b
            if len(d) == 2:
                (k1, p1), (k2, p2) = tuple(d)
                if k1 == k2 and p1 != p2:
                    dnf.remove(a)
                    dnf.remove(b)
                    dnf.append(a & b)
                    changed = True
                    break
        if changed:
            dnf = list(set(dnf))
            continue
        for a in dnf:
            if any(b < a for b in dnf):
                dnf.remove(a)
                changed = True
                break
    return sorted(dnf, key=lambda c: sorted(map(str, c)))


# =========================================================================== R-STEP discovery

class Site:
    __slots__ = ("node", "step", "var")

    def __init__(self, node, step, var):
        self.node, self.step, self.var = node, step, var


def _lvalue_id(n):
    if n.get("k") == "DeclRefExpr" and n["ref"].get("dk") in ("local", "parm") and "decl" in n["ref"]:
        return ("l", n["ref"]["decl"])
    if n.get("k") == "MemberExpr" and n.get("mk") == "field":
        return ("f", F.expr_text(n))
    return None


def _counter_type(t):
    """integers, and pointers into contiguous storage (a pointer walked alongside a loop is a position)"""
    if is_int_type(t):
        return True
    t = (t or "").rstrip()
    return t.endswith("*") and not t.endswith("**") and "(" not in t


def update_sites(fn):
    """incremental updates of integer / pointer lvalues: [(node, lvalue node, sign, step expr | int)]"""
    cached = getattr(fn, "_step_sites", None)
    if cached is not None:
        return cached
    out = []
    is_int_type = _counter_type
    for n in fn.walk():
        k = n.get("k")
        if k == "UnaryOperator" and n.get("op") in ("++", "--"):
            lv = n["c"][0]
            if is_int_type(lv.get("t")) and _lvalue_id(lv):
                out.append((n, lv, 1 if n["op"] == "++" else -1, 1))
        elif k == "CompoundAssignOperator" and n.get("op") in ("+=", "-="):
            lv, e = n["c"]
            if is_int_type(lv.get("t")) and _lvalue_id(lv):
                out.append((n, lv, 1 if n["op"] == "+=" else -1, e))
        elif k == "BinaryOperator" and n.get("op") == "=":
            lv, r = n["c"]
            li = _lvalue_id(lv)
            if li and is_int_type(lv.get("t")) and r.get("k") == "BinaryOperator" and r.get("op") in ("+", "-"):
                a, b = r["c"]
                if _lvalue_id(a) == li:
                    out.append((n, lv, 1 if r["op"] == "+" else -1, b))
                elif r["op"] == "+" and _lvalue_id(b) == li:
                    out.append((n, lv, 1, a))
    fn._step_sites = out
    return out


def plain_writes(fn, lid):
    """non-incremental writes (initialisation / reset) of an lvalue"""
    inc = {id(s[0]) for s in update_sites(fn)}
    out = []
    for n in fn.walk():
        k = n.get("k")
        if k == "BinaryOperator" and n.get("op") == "=" and id(n) not in inc:
            # chained assignment a = b = c = 0 writes every link
            if _lvalue_id(n["c"][0]) == lid:
                out.append(n)
        elif k == "DeclStmt" and lid[0] == "l":
            for d in n.get("decls", []):
                if d.get("decl") == lid[1]:
                    out.append(n)
    return out


class CounterInst:
    """one counter: a variable, the loop it runs along, its update sites with conditions"""

    def __init__(self, view, lid, loop, sites):
        self.view, self.lid, self.loop, self.sites = view, lid, loop, sites
        self.terms = []       # (dnf over atom texts, step)   step: int or text
        self.uses = []
        self.name = ""
        self.steps = []
        self.where = ""

    def step_sig(self):
        return "+".join(sorted({str(s) for s in self.steps}))

    def key(self):
        fn = self.view.fn
        if self.lid[0] == "f":
            return "%s:%s" % (fn.sig, self.lid[1])
        return "%s:+=%s@%s" % (fn.sig, self.step_sig(), ",".join(self.uses) or "-")


def _consumer(view, n, env, var_is):
    """what a read of the counter feeds: climb through arithmetic to the consuming construct"""
    fn = view.fn
    cur = n
    for _ in range(10):
        p = fn.parent(cur)
        if p is None:
            return "?"
        k = p.get("k")
        c = p.get("c") or []
        if k in CASTS or k == "ParenExpr":
            cur = p
            continue
        if k == "UnaryOperator" and p.get("op") in ("++", "--") :
            cur = p
            continue
        if k == "UnaryOperator" and p.get("op") in ("-", "+"):
            cur = p
            continue
        if k == "UnaryOperator" and p.get("op") == "*":
            return "deref"
        if k == "BinaryOperator" and p.get("op") in ("+", "-", "*", "/", "%"):
            cur = p
            continue
        if k == "ArraySubscriptExpr":
            if len(c) == 2 and c[1] is cur:
                base = c[0]
                return "[]%s" % _base_desc(view, base, env)
            return "ptr"
        if k == "CXXOperatorCallExpr" and p.get("op") in ("()", "[]"):
            args = c[1:]
            for i, a in enumerate(args):
                if a is cur and i > 0:
                    return "%s%s#%d" % (_base_desc(view, args[0], env), p.get("op"), i)
            return "obj"
        if k == "CXXOperatorCallExpr" and p.get("op") == "<<":
            return "out<<"
        if k in ("CXXMemberCallExpr", "CallExpr", "CXXConstructExpr", "CXXTemporaryObjectExpr"):
            args = F.call_args(p)
            for i, a in enumerate(args):
                if a is cur:
                    cal = strip_targs(p.get("callee") or "?").split("::")[-1]
                    return "%s#%d" % (cal, i)
            return "call"
        if k in ("BinaryOperator",) and p.get("op") == "=":
            if c[1] is cur:
                lhs = c[0]
                if var_is(lhs):
                    return None   # v = v + e : the update itself
                return "=>%s" % _base_desc(view, lhs, env)
            return None
        if k == "CompoundAssignOperator":
            if c[1] is cur:
                if var_is(c[0]):
                    return None
                return "+=>%s" % _base_desc(view, c[0], env)
            return None
        if k == "BinaryOperator" and p.get("op") in ("<", ">", "<=", ">=", "==", "!="):
            return "cmp"
        if k == "BinaryOperator" and p.get("op") in ("&&", "||"):
            return "cond"
        if k == "BinaryOperator" and p.get("op") == ",":
            return None
        if k in ("IfStmt", "WhileStmt", "ForStmt", "DoStmt", "ConditionalOperator", "CXXForRangeStmt"):
            if p.get("cond") is cur or (k == "ConditionalOperator" and c and c[0] is cur):
                return "cond"
            return None
        if k == "ReturnStmt":
            return "return"
        if k == "DeclStmt":
            for d in p.get("decls", []):
                if d.get("init") is cur:
                    return "init:%s" % type_short(d.get("t"))
            return "decl"
        if k == "CXXNewExpr":
            return "new[]"
        if k in ("CompoundStmt",):
            return None
        return k
    return "?"


def _base_desc(view, n, env):
    """position-free, name-free description of the indexed / assigned object"""
    k = n.get("k")
    if k == "DeclRefExpr" and n["ref"].get("dk") in ("local", "parm"):
        d = n["ref"].get("decl")
        if d in env:
            return env[d]
        if d in view.param_pos:
            return "@%d" % view.param_pos[d]
        return "<%s>" % type_short(n.get("t"))
    if k in ("ArraySubscriptExpr",):
        c = n.get("c") or []
        return _base_desc(view, c[0], env) + "[]"
    if k == "CXXOperatorCallExpr" and n.get("op") in ("()", "[]"):
        a = F.call_args(n)
        return _base_desc(view, a[0], env) + n.get("op")
    txt = view.render(n, env)
    return txt


def discover(fn):
    """all counters of one function: [CounterInst]"""
    view = View(fn)
    sites = update_sites(fn)
    if not sites:
        return []
    byvar = defaultdict(list)
    for s in sites:
        byvar[_lvalue_id(s[1])].append(s)
    out = []
    for lid, ss in byvar.items():
        resets = plain_writes(fn, lid)
        reset_ids = {x["id"] for r in resets for x in walk(r)}
        groups = defaultdict(list)
        for s in ss:
            loops = view.loops_around(s[0])
            if not loops:
                if lid[0] == "f":
                    groups[None].append(s)      # per-element callback form: fields only
                continue
            # the loop the counter runs along: the outermost enclosing loop that does not contain a
            # (re)initialisation of the counter
            rel = None
            for L in loops:
                inside = {x["id"] for x in walk(L)}
                if not (reset_ids & inside):
                    rel = L
                    break
            if rel is None:
                continue      # re-initialised in the innermost loop: not a running position
            groups[rel["id"]].append(s)
        for lk, grp in groups.items():
            L = fn.nodes.get(lk) if lk is not None else None
            ci = CounterInst(view, lid, L, grp)
            ci.name = F.expr_text(grp[0][1])
            ci.where = fn.where(grp[0][0])
            out.append(ci)
    return out


def induction_only(ci):
    """the counter is a control variable of its innermost loop (tested in that loop's condition): it cannot
    be skipped without hanging the loop, and a `continue` of a for statement still runs the increment -
    trivially total, not an instance"""
    L = ci.loop
    if L is None:
        return False
    view = ci.view
    for s in ci.sites:
        loops = view.loops_around(s[0])
        Lin = loops[-1]
        cond = Lin.get("cond")
        in_cond = cond is not None and any(_lvalue_id(x) == ci.lid for x in walk(cond))
        if not in_cond:
            return False
    return True


def classify(ci, entry_node=None):
    """fill ci.terms / ci.steps / ci.uses"""
    view = ci.view
    fn = view.fn
    cfg = view.cfg
    L = ci.loop
    if L is not None:
        T, H, E, X = view.loop_blocks(L)
        inner = [x for x in walk(L.get("body")) if x.get("k") in LOOPS]
        inner += [x for x in walk(L.get("inc")) if x.get("k") in LOOPS]
        reg = view.region(("loop", L["id"]), E, H, inner)
        env = view.loop_env(L, 1)
    else:
        if entry_node is None:
            E = cfg.entry
            rk = ("fn",)
        else:
            pos = cfg.block_of(entry_node)
            if pos is None:
                raise AnalysisBroken("%s: anchor not in the CFG" % fn.short)
            E = pos[0]
            rk = ("anchor", entry_node["id"])
        inner = [x for x in fn.walk() if x.get("k") in LOOPS]
        reg = view.region(rk, E, {cfg.exit}, inner)
        env = {}
        if fn.params:
            env[fn.params[0].get("decl")] = "$"
    ci.terms = []
    ci.steps = []
    for node, lv, sign, e in ci.sites:
        pos = cfg.block_of(node)
        if pos is None:
            raise AnalysisBroken("%s: update of %s is not in the CFG" % (fn.short, ci.name))
        dnf = reg.get(pos[0])
        # element variables of the loops between the counter's loop and the site
        senv = dict(env)
        depth = 1
        for L2 in view.loops_around(node):
            if L is not None and L2 is L:
                continue
            if L is not None and not any(a is L for a in fn.ancestors(L2)):
                continue
            depth += 1
            senv.update(view.loop_env(L2, depth))
        # `v += c ? a : b` is two guarded advances
        variants = [(frozenset(), e)]
        if not isinstance(e, int):
            ee = e
            while ee.get("k") in CASTS and ee.get("c"):
                ee = ee["c"][0]
            if ee.get("k") == "ConditionalOperator" and len(ee.get("c") or []) == 3:
                cnd, ea, eb = ee["c"]
                fa, fb = view.formula(cnd, senv, True), view.formula(cnd, senv, False)
                variants = [(x, ea) for x in fa] + [(y, eb) for y in fb]
        for extra, e1 in variants:
            if isinstance(e1, int):
                step = sign * e1
            else:
                e2 = e1
                while e2.get("k") in CASTS and e2.get("c"):
                    e2 = e2["c"][0]
                if e2.get("k") == "IntegerLiteral":
                    step = sign * e2.get("v")
                else:
                    step = ("-" if sign < 0 else "") + view.render(e1, senv)
            if step == 0:
                continue
            if dnf is None:
                # the site is not on any completed iteration (e.g. followed by break/return): no advance
                ci.terms.append(([], step, node))
                ci.steps.append(step)
                continue
            tdnf = []
            mult = []
            for conj in dnf:
                alts = [frozenset(extra)]
                m = []
                for (ak, pol) in conj:
                    if ak[0] == "loop":
                        L2 = fn.nodes[ak[1]]
                        cnt = view.counted(L2, senv)
                        if cnt is not None and pol:
                            m.append(cnt)
                            continue
                        f = [frozenset({("loop(%s)" % view.loop_desc(L2, senv), pol)})]
                    elif ak[0] == "case":
                        f = [frozenset({("sw(%s)==%s" % (view.render(fn.nodes[ak[1]], senv), ak[2]), pol)})]
                    else:
                        f = view.formula(fn.nodes[ak[1]], senv, pol)
                    nxt = []
                    for x in alts:
                        for y in f:
                            z = x | y
                            if any((a, not p) in z for a, p in z):
                                continue
                            nxt.append(z)
                    alts = nxt
                    if len(alts) > 4096:
                        raise AnalysisBroken("%s: guard of %s explodes" % (fn.short, ci.name))
                for z in alts:
                    tdnf.append(z)
                    mult.append(tuple(sorted(m)))
            if len(set(mult)) > 1:
                raise AnalysisBroken("%s: update of %s is reached through different inner loops"
                                     % (fn.short, ci.name))
            if mult and mult[0]:
                pre = "*".join(mult[0])
                step = pre if step == 1 else "%s*%s" % (pre, step)
            ci.terms.append((_simplify(tdnf), step, node))
            ci.steps.append(step)
    # uses
    uses = set()

    def var_is(x):
        return _lvalue_id(x) == ci.lid

    scope = L if L is not None else fn.body
    for n in fn.walk():
        if _lvalue_id(n) != ci.lid:
            continue
        u = _consumer(view, n, env, var_is)
        if u:
            uses.add(u)
    ci.uses = sorted(uses)
    return ci


# --------------------------------------------------------------------------- class functions

def term_atoms(terms):
    at = set()
    for dnf, step in terms:
        for conj in dnf:
            for a, p in conj:
                at.add(a)
    return at


def class_function(terms, atoms):
    """valuation (tuple of bools over sorted atoms) -> Counter of advance"""
    atoms = sorted(atoms)
    if len(atoms) > 14:
        raise AnalysisBroken("more than 14 branch atoms in one counter class: %s" % atoms[:20])
    idx = {a: i for i, a in enumerate(atoms)}
    table = {}
    for val in itertools.product((False, True), repeat=len(atoms)):
        tot = Counter()
        for dnf, step in terms:
            if any(all(val[idx[a]] == p for a, p in conj) for conj in dnf):
                if isinstance(step, int):
                    tot["#"] += step
                else:
                    tot[step] += 1
        table[val] = tuple(sorted((k, v) for k, v in tot.items() if v))
    return table


def same_class(t1, t2):
    atoms = term_atoms(t1) | term_atoms(t2)
    return class_function(t1, atoms) == class_function(t2, atoms)


def _advance_table(terms, atoms):
    atoms = sorted(atoms)
    if len(atoms) > 14:
        raise AnalysisBroken("more than 14 branch atoms in one counter class: %s" % atoms[:20])
    idx = {a: i for i, a in enumerate(atoms)}
    table = {}
    for val in itertools.product((False, True), repeat=len(atoms)):
        act = [step for dnf, step in terms if any(all(val[idx[a]] == p for a, p in conj) for conj in dnf)]
        lit = sum(act) if act and all(isinstance(x, int) for x in act) else None
        table[val] = (bool(act), lit)
    return table


def _step_texts(terms):
    return {str(step) for dnf, step in terms if not isinstance(step, int)}


def compare_class(measured, demanded):
    """'same' / 'differ' / 'unknown'.  Branch conditions and symbolic advances are compared as texts, and two
    texts can denote the same thing (`!s.empty()` / `s.size()`, a hoisted local, a helper that returns 0 or n
    instead of a guarded `+= n`): a verdict is given only where it does not depend on that.
    When the atoms of one side are a subset of the other's (the same conditions, or a guard added / dropped)
    the truth tables decide: does the counter advance, and by which literal amount.  "Advances on one side and
    not on the other" counts only if the advancing side steps by a literal or by an amount that also occurs,
    as the same text, on the other side (an unknown symbolic amount may be zero).  With unrelated atoms only
    the two exact statements survive - demanded on every iteration / demanded under a guard - under the same
    proviso."""
    am, ad = term_atoms(measured), term_atoms(demanded)
    sm, sd = _step_texts(measured), _step_texts(demanded)

    def advance_known(side_terms, other_texts, val_idx, val):
        """the terms active at this valuation step by literals or by amounts the other side knows"""
        for dnf, step in side_terms:
            if any(all(val[val_idx[a]] == p for a, p in conj) for conj in dnf):
                if not isinstance(step, int) and str(step) not in other_texts:
                    return False
        return True

    if am <= ad or ad <= am:
        un = sorted(am | ad)
        idx = {a: i for i, a in enumerate(un)}
        tm, td = _advance_table(measured, un), _advance_table(demanded, un)
        verdict = "same"
        for val in tm:
            if tm[val][0] != td[val][0]:
                adv_terms, other = (measured, sd) if tm[val][0] else (demanded, sm)
                if advance_known(adv_terms, other, idx, val):
                    return "differ"
                verdict = "unknown"
            elif tm[val][1] is not None and td[val][1] is not None and tm[val][1] != td[val][1]:
                return "differ"
        return verdict
    tm, td = _advance_table(measured, am), _advance_table(demanded, ad)
    m_total = all(v[0] for v in tm.values())
    d_total = all(v[0] for v in td.values())
    if m_total and d_total:
        lm = {v[1] for v in tm.values()}
        ld = {v[1] for v in td.values()}
        if len(lm) == 1 and len(ld) == 1 and None not in lm and None not in ld and lm != ld:
            return "differ"
        return "same"
    if m_total != d_total:
        total_terms, other = (measured, sd) if m_total else (demanded, sm)
        if all(isinstance(step, int) or str(step) in other for dnf, step in total_terms):
            return "differ"
    return "unknown"


def terms_to_json(terms):
    """canonical, readable form of a measured class: [{when: [[lit..]..], step}]; sites with the same
    condition and integer steps are merged"""
    acc = {}
    for dnf, step in terms:
        when = sorted(sorted(("" if p else "!") + a for a, p in conj) for conj in dnf)
        k = json.dumps(when)
        if k in acc and isinstance(step, int) and isinstance(acc[k]["step"], int):
            acc[k]["step"] += step
        elif k in acc:
            acc[k + "#" + str(len(acc))] = {"when": when, "step": step}
        else:
            acc[k] = {"when": when, "step": step}
    return [acc[k] for k in sorted(acc)]


def terms_from_json(js):
    out = []
    for t in js:
        dnf = []
        for conj in t["when"]:
            lits = set()
            for lit in conj:
                if lit.startswith("!"):
                    lits.add((lit[1:], False))
                else:
                    lits.add((lit, True))
            dnf.append(frozenset(lits))
        out.append((dnf, t["step"]))
    return out


def show_terms(js):
    parts = []
    for t in js:
        w = " | ".join(" & ".join(c) if c else "always" for c in t["when"]) if t["when"] else "never"
        parts.append("%s => +%s" % (w, t["step"]))
    return "; ".join(parts)


# =========================================================================== R-STEP rule

def _find_anchor(view, spec):
    """the unique call `object.callee(..)` of the function named by an anchor spec"""
    fn = view.fn
    hits = []
    for n in fn.calls():
        if n.get("k") != "CXXMemberCallExpr":
            continue
        cal = strip_targs(n.get("callee") or "").split("::")[-1]
        if cal != spec["callee"]:
            continue
        obj = F.call_object(n)
        if obj is not None and view.render(obj, {}) == spec["object"]:
            hits.append(n)
    if len(hits) != 1:
        raise AnalysisBroken("%s: anchor %s.%s() found %d times (expected once)"
                             % (fn.sig, spec["object"], spec["callee"], len(hits)))
    return hits[0]


def classify_anchored(ci, spec):
    """callback form: class of a field counter relative to an anchor statement of the same function
    (e.g. the push_back into the list whose size the counter mirrors)."""
    view = ci.view
    cfg = view.cfg
    anchor = _find_anchor(view, spec)
    classify(ci, entry_node=anchor)
    apos = cfg.block_of(anchor)
    terms = []
    for (dnf, step, node) in ci.terms:
        spos = cfg.block_of(node)
        ok = cfg.dominates(anchor, node)
        if spos[0] == apos[0] and spos[1] < apos[1]:
            ok = False
        if not ok:
            terms.append(([frozenset({("not dominated by %s.%s()" % (spec["object"], spec["callee"]), True)})],
                          step, node))
        else:
            terms.append((dnf, step, node))
    ci.terms = terms
    return ci


def _prune(terms):
    """drop conjunctions that contain an atom with both polarities (same predicate tested twice)"""
    out = []
    for dnf, step, node in terms:
        nd = []
        for conj in dnf:
            pos = {a for a, p in conj if p}
            neg = {a for a, p in conj if not p}
            if pos & neg:
                continue
            nd.append(conj)
        out.append((_simplify(nd), step, node))
    return out


def in_scope(fn, scope):
    return fn.body is not None and any(fn.file.startswith(p) for p in scope)


def measure_all(fx, scope, table_by_key=None, broken=None):
    """key -> [CounterInst] over every function of the scope"""
    table_by_key = table_by_key or {}
    res = defaultdict(list)
    for fn in sorted(fx.functions.values(), key=lambda f: (f.file, f.line, f.key)):
        if not in_scope(fn, scope):
            continue
        for ci in discover(fn):
            if induction_only(ci):
                continue
            if ci.loop is None:
                # callback form: only fields that are not re-initialised in the same function
                if plain_writes(fn, ci.lid):
                    continue
            try:
                if ci.lid[0] == "f" and (ci.key() in table_by_key) and table_by_key[ci.key()].get("anchor") \
                        and ci.loop is None:
                    classify_anchored(ci, table_by_key[ci.key()]["anchor"])
                else:
                    classify(ci)
                ci.terms = _prune(ci.terms)
            except AnalysisBroken as e:
                if broken is not None:
                    broken.append((fn, ci, str(e)))
                    continue
                raise
            res[ci.key()].append(ci)
    return res


def measured_json(ci):
    return terms_to_json([(d, s) for d, s, _ in ci.terms])


def rule_step(ctx):
    rule = "R-STEP"
    fx = ctx.facts
    tab = engine.load_table("step.json")
    scope = tab["scope"]
    entries = tab["counters"]
    by_key = {e["key"]: e for e in entries}
    if len(by_key) != len(entries):
        raise AnalysisBroken("step.json: duplicate counter keys")
    broken = []
    found = measure_all(fx, scope, by_key, broken)
    broken_keys = set()
    for fn, ci, msg in broken:
        try:
            broken_keys.add(ci.key())
        except Exception:
            pass
        ctx.note("R-STEP: counter %s in %s could not be classified: %s" % (ci.name, fn.sig, msg))
    matched = set()
    n_inst = 0
    n_lost = 0
    n_guarded = 0
    loops_seen = set()
    measured_cache = {}
    for e in entries:
        key = e["key"]
        insts = found.get(key)
        if not insts:
            # fall back: same function, same advance, not claimed by another entry
            fsig, _, rest = key.partition(":+=")
            if rest:
                stepsig = rest.split("@")[0]
                cand = [k for k, v in found.items() if k not in by_key and k.startswith(fsig + ":+=")
                        and k.partition(":+=")[2].split("@")[0] == stepsig]
                if len(cand) == 1:
                    insts = found[cand[0]]
                    matched.add(cand[0])
                    ctx.note("R-STEP: tabled counter %s matched to %s (uses changed)" % (key, cand[0]))
        if not insts:
            # the text of the advance or of what is fed may have changed (a local hoisted, a `?:` for an if):
            # re-identify by function + what it feeds, or as the only untabled counter of that function
            fsig, _, rest = key.partition(":+=")
            feeds = rest.partition("@")[2]
            untabled = [k for k in found if k not in by_key and k not in matched and k.startswith(fsig + ":+=")]
            same_feed = [k for k in untabled if k.partition(":+=")[2].partition("@")[2] == feeds]
            missing_here = [e2["key"] for e2 in entries if e2["key"].startswith(fsig + ":+=") and not found.get(e2["key"])]
            pick = None
            if len(same_feed) == 1:
                pick = same_feed[0]
            elif len(untabled) == 1 and len(missing_here) == 1:
                pick = untabled[0]
            if pick is not None:
                insts = found[pick]
                matched.add(pick)
                ctx.note("R-STEP: tabled counter %s re-identified as %s" % (key, pick))
        if not insts:
            # not an analysis failure: the loop was restructured beyond recognition (or removed).  The obligation
            # cannot be placed any more; it is listed, and the floors below fail if too many go this way
            n_lost += 1
            ctx.note("R-STEP: tabled counter %s can no longer be found (function, advance and indexed object all "
                     "changed); not checked" % key)
            continue
        matched.add(key)
        classes = e["classes"]
        groups = defaultdict(list)
        for ci in insts:
            groups[ci.view.fn.key].append(ci)
            ctx.saw(ci.view.fn)
            if ci.loop is not None:
                loops_seen.add((ci.view.fn.key, ci.loop["id"]))
        if any(len(grp) != len(classes) for grp in groups.values()):
            n_lost += 1
            ctx.note("R-STEP: %s: the number of counters with this signature changed (table has %d); not checked"
                     % (key, len(classes)))
            continue
        measured_cache[key] = insts
        # every demanded class must be matched by a distinct counter of every instantiation
        verdict = [None] * len(classes)      # None = ok, else (counter, message)
        incomparable = set()
        for fk, grp in sorted(groups.items()):
            free = list(grp)
            unmatched = []
            for i, c in enumerate(classes):
                dem = terms_from_json(c["class"])
                hit = None
                for ci in free:
                    if compare_class([(d, s_) for d, s_, _ in ci.terms], dem) == "same":
                        hit = ci
                        break
                if hit is not None:
                    free.remove(hit)
                else:
                    unmatched.append(i)
            # a left-over pair whose conditions are worded differently cannot be compared: not a verdict
            for i in list(unmatched):
                dem = terms_from_json(classes[i]["class"])
                unk = [ci for ci in free if compare_class([(d, s_) for d, s_, _ in ci.terms], dem) == "unknown"]
                if unk:
                    free.remove(unk[0])
                    unmatched.remove(i)
                    incomparable.add(i)
                    ctx.note("R-STEP: %s: branch conditions are worded differently from the table (`%s` / `%s`); "
                             "not comparable, not checked" % (key, show_terms(measured_json(unk[0])), show_terms(classes[i]["class"])))
            for i in unmatched:
                # blame the left-over counter (for a single class: the counter itself)
                ci = free[0] if free else grp[0]
                if len(free) > 1:
                    byname = [x for x in free if x.name == classes[i].get("hint")]
                    ci = byname[0] if byname else ci
                if verdict[i] is None:
                    verdict[i] = ci
        for i, c in enumerate(classes):
            ikey = key if len(classes) == 1 else "%s#%d" % (key, i + 1)
            n_inst += 1
            if c["class"] and any(t["when"] != [[]] for t in c["class"]):
                n_guarded += 1
            detail = {"demanded": show_terms(c["class"]), "indexes": c.get("indexes", e.get("indexes", "")),
                      "reason": c.get("reason", e.get("reason", "")), "anchors": e.get("props", [])}
            b = verdict[i]
            if i in incomparable and b is None:
                n_lost += 1
                continue
            if b is not None:
                ctx.bad(rule, ikey, b.where, b.view.fn.short,
                        "counter `%s` advances `%s`, demanded `%s` (%s)" % (
                            b.name, show_terms(measured_json(b)), show_terms(c["class"]), detail["reason"]),
                        dict(detail, measured=show_terms(measured_json(b))))
            else:
                ci0 = insts[0]
                ctx.ok(rule, ikey, ci0.where, ci0.view.fn.short, "", detail)
    # sibling / allocation pairs: two counters that must step identically
    n_pairs = 0
    for p in tab.get("pairs", []):
        a, b = p["a"], p["b"]
        ia, ib = measured_cache.get(a), measured_cache.get(b)
        if not ia or not ib:
            ctx.note("R-STEP: pair %s / %s: one side could not be located; not checked" % (a, b))
            continue
        n_pairs += 1
        ok = True
        worst = None
        for x in ia:
            for y in ib:
                if compare_class([(d, s) for d, s, _ in x.terms], [(d, s) for d, s, _ in y.terms]) == "differ":
                    ok = False
                    worst = (x, y)
        k = "pair:%s" % p["name"]
        if ok:
            ctx.ok(rule, k, ia[0].where, ia[0].view.fn.short, "", {"reason": p.get("reason", "")})
        else:
            x, y = worst
            ctx.bad(rule, k, x.where, x.view.fn.short,
                    "`%s` advances `%s` but `%s` (%s) advances `%s`: %s" % (
                        x.name, show_terms(measured_json(x)), y.name, y.view.fn.short,
                        show_terms(measured_json(y)), p.get("reason", "")))
    # sibling groups: the same family of counters kept by several writers must step identically
    for g in tab.get("groups", []):
        lists = []
        for k in g["keys"]:
            insts = measured_cache.get(k)
            if not insts:
                ctx.note("R-STEP: group %s: %s could not be located; left out" % (g["name"], k))
                continue
            fk0 = sorted({i.view.fn.key for i in insts})[0]
            lists.append((k, [i for i in insts if i.view.fn.key == fk0]))
        if len(lists) < 2:
            continue
        ref_k, ref = lists[0]
        for k, lst in lists[1:]:
            n_pairs += 1
            free = list(lst)
            miss = []
            for x in ref:
                hit = None
                for y in free:
                    if compare_class([(d, s_) for d, s_, _ in x.terms], [(d, s_) for d, s_, _ in y.terms]) != "differ":
                        hit = y
                        break
                if hit is None:
                    miss.append(x)
                else:
                    free.remove(hit)
            gk = "group:%s:%s" % (g["name"], lst[0].view.fn.short)
            if miss:
                x = miss[0]
                ctx.bad(rule, gk, lst[0].where, lst[0].view.fn.short,
                        "%s: %s has a counter advancing `%s`, no counter of %s does (%s)" % (
                            g["name"], ref[0].view.fn.short, show_terms(measured_json(x)),
                            lst[0].view.fn.short, g.get("reason", "")))
            else:
                ctx.ok(rule, gk, lst[0].where, lst[0].view.fn.short, "", {"reason": g.get("reason", "")})
    untabled = sorted(k for k in found if k not in matched)
    if untabled:
        ctx.note("R-STEP: %d counter(s) discovered in the scope without a table entry (not decided): %s"
                 % (len(untabled), "; ".join(untabled[:40])))
    fl = tab.get("floors", {})
    ctx.floor(rule, fl.get("counters", 0), n_inst, "tabled counters classified")
    ctx.floor(rule, fl.get("guarded", 0), n_guarded, "counters with a guarded class")
    ctx.floor(rule, fl.get("loops", 0), len(loops_seen), "element loops with a running counter")
    ctx.floor(rule, fl.get("pairs", 0), n_pairs, "sibling / allocation pairs")


# =========================================================================== R-SCRATCH
#
# Objects whose content outlives one use: container members kept between calls (to avoid
# re-allocation, or as buffers filled by several handlers), scalar members that are counted up, by-
# reference output parameters, locals constructed with dimensions only.  Events on such an object:
#
#   full initialisation   set_zero() / set_all(c) / fill / assign, whole assignment `v = w`, clear(),
#                         erase(begin(), end()), reset() without size, `n = 0` for a scalar, a canonical
#                         counted loop assigning every element over the object's full range, a member of
#                         `this` all of whose normal paths fully initialise the object (must-init summary)
#   accumulation          `v(i) += e`, `v += w`, push_back / insert / emplace, `n++`, `n += e`
#   read                  element reads, begin()/end() escapes, passing the object, whole-object arithmetic
#   neutral               reset(n)/resize(n) (matvec keeps the content when the size is unchanged),
#                         dim()/size()/.., a plain element write `v(i) = e`
#
# Roles frozen in step.json (`scratch.members`), each with its reason:
#   scratch / rebuilt     per call: in every method a full initialisation dominates (CFG) every accumulation
#                         and every read of the member; `readers` lists the methods that legitimately read
#                         the finished result (reads only - an accumulation there is still a violation);
#                         a non-public helper is fine when every caller initialises before the call
#   accumulator           per scope (a run, an element, a cluster): filled by several methods, so the clause
#                         is on the scope boundary: for every group of `entries` (alternatives, e.g. the
#                         start handler or the finish function of a cluster) at least one method fully
#                         re-initialises the member on every *normal* path (paths through a call of an
#                         `abnormal` function such as the parser's error() or through a throw do not count)
#   persistent            state kept between calls by design (results, caches, the factorisation): no clause
# Locals and reference parameters are scratch when the function zeroes them at all (the zeroing must then
# dominate every use; for an output parameter the sparse element writes count as uses).

CONTAINER_RE = re.compile(r"(^|[\s:<])(Vec|Mat|SymMat|CovMat|BandMat|TransMat|TransVec|IntegerList|vector|set|list|"
                          r"map|multimap|deque)<")
SHAPE_METHODS = {"dim", "rows", "cols", "size", "max_size", "capacity", "bandWidth", "empty", "min_rc", "max_rc"}
ZERO_METHODS = {"set_zero", "set_all", "set_identity", "set_diagonal", "assign", "fill"}
RESIZE_METHODS = {"reset", "resize", "reserve"}
EMPTY_METHODS = {"clear"}
APPEND_METHODS = {"push_back", "emplace_back", "push_front", "emplace_front", "insert", "emplace", "emplace_hint"}


def is_container_type(t):
    t = (t or "")
    if t.rstrip().endswith("*"):
        return False
    return bool(CONTAINER_RE.search(" " + t))


class Ev:
    __slots__ = ("kind", "node", "info")

    def __init__(self, kind, node, info=None):
        self.kind, self.node, self.info = kind, node, info


def _obj_id(n, scalars):
    """identity of an object expression: member of this / local / parameter"""
    k = n.get("k")
    if k == "MemberExpr" and n.get("mk") == "field" and F.is_this_field(n):
        if is_container_type(n.get("t")):
            return ("f", n.get("member"))
        if n.get("member") in scalars:
            return ("s", n.get("member"))
    if k == "DeclRefExpr" and n["ref"].get("dk") in ("local", "parm") and "decl" in n["ref"]:
        if is_container_type(n.get("t")):
            return ("l", n["ref"]["decl"])
    return None


def _is_begin_end_of(view, args, oid, scalars):
    """erase(m.begin(), m.end()) on the same object"""
    if len(args) != 2:
        return False
    names = []
    for a in args:
        x = a
        while x.get("k") in CASTS + ("CXXConstructExpr",) and x.get("c"):
            x = x["c"][0]
        if x.get("k") != "CXXMemberCallExpr":
            return False
        obj = F.call_object(x)
        if obj is None or _obj_id(obj, scalars) != oid:
            return False
        names.append(x["c"][0].get("member"))
    return names in (["begin", "end"], ["cbegin", "cend"])


def collect_events(view, scalars=()):
    """object id -> [Ev] for every object of interest referenced in the function"""
    fn = view.fn
    cache = getattr(view, "_events", None)
    if cache is None:
        cache = view._events = {}
    ck = tuple(sorted(scalars))
    if ck in cache:
        return cache[ck]
    evs = defaultdict(list)
    for n in fn.walk():
        oid = _obj_id(n, scalars)
        if oid is None:
            continue
        p = fn.parent(n)
        while p is not None and p.get("k") in CASTS:
            n, p = p, fn.parent(p)
        if p is None:
            continue
        k = p.get("k")
        c = p.get("c") or []
        if oid[0] == "s":
            if k == "BinaryOperator" and p.get("op") == "=" and c and c[0] is n:
                evs[oid].append(Ev("fullinit", p, "assigned"))
            elif k == "CompoundAssignOperator" and c and c[0] is n:
                evs[oid].append(Ev("accum", p, p.get("op")))
            elif k == "UnaryOperator" and p.get("op") in ("++", "--"):
                evs[oid].append(Ev("accum", p, p.get("op")))
            else:
                evs[oid].append(Ev("consume", p, k))
            continue
        if k == "MemberExpr" and p.get("mk") == "method":
            call = fn.parent(p)
            m = p.get("member")
            if call is not None and call.get("k") == "CXXMemberCallExpr":
                args = F.call_args(call)
                info = None
                if m in SHAPE_METHODS:
                    kind = "shape"
                elif m in ZERO_METHODS:
                    kind = "fullinit"
                elif m in RESIZE_METHODS:
                    kind = "resize"
                    info = [view.render(a, {}) for a in args]
                    if not args:
                        kind = "empty"
                elif m in EMPTY_METHODS:
                    kind = "empty"
                elif m == "erase" and _is_begin_end_of(view, args, oid, scalars):
                    kind = "empty"
                elif m in APPEND_METHODS:
                    kind = "append"
                elif m in ("begin", "end", "cbegin", "cend") and _feeds_full_erase(fn, call):
                    kind = "shape"
                else:
                    kind = "consume"
                    info = m
                evs[oid].append(Ev(kind, call, info))
                continue
        if k == "CXXOperatorCallExpr":
            op = p.get("op")
            args = c[1:]
            if op in ("()", "[]") and args and args[0] is n:
                gp = fn.parent(p)
                cur = p
                while gp is not None and gp.get("k") in CASTS:
                    cur, gp = gp, fn.parent(gp)
                gk = gp.get("k") if gp is not None else None
                gc = (gp.get("c") or []) if gp is not None else []
                if gk == "BinaryOperator" and gp.get("op") == "=" and gc and gc[0] is cur:
                    evs[oid].append(Ev("elemwrite", gp, args[1:]))
                elif gk == "CXXOperatorCallExpr" and gp.get("op") == "=" and len(gc) > 1 and gc[1] is cur:
                    evs[oid].append(Ev("elemwrite", gp, args[1:]))
                elif gk == "CompoundAssignOperator" and gc and gc[0] is cur:
                    evs[oid].append(Ev("accum", gp, "element " + str(gp.get("op"))))
                elif gk == "UnaryOperator" and gp.get("op") in ("++", "--"):
                    evs[oid].append(Ev("accum", gp, "element " + str(gp.get("op"))))
                elif gk == "MemberExpr" and gp.get("mk") == "method" and gp.get("member") in (
                        ZERO_METHODS | RESIZE_METHODS | SHAPE_METHODS):
                    evs[oid].append(Ev("elemshape", p, None))
                else:
                    evs[oid].append(Ev("consume", p, "element"))
                continue
            if op == "=" and args and args[0] is n:
                evs[oid].append(Ev("fullinit", p, "assigned"))
                continue
            if op in ("+=", "-=", "*=", "/=") and args and args[0] is n:
                evs[oid].append(Ev("accum", p, "whole " + op))
                continue
            evs[oid].append(Ev("consume", p, "operator" + str(op)))
            continue
        if k == "DeclStmt":
            continue
        evs[oid].append(Ev("consume", p, k))
    for n in fn.walk():
        if n.get("k") == "DeclStmt":
            for d in n.get("decls", []):
                if "decl" in d and is_container_type(d.get("t")):
                    init = d.get("init")
                    args = []
                    if init is not None and init.get("k") in ("CXXConstructExpr", "CXXTemporaryObjectExpr"):
                        args = init.get("c") or []
                    dims_only = init is None or (
                        init.get("k") in ("CXXConstructExpr", "CXXTemporaryObjectExpr")
                        and all(is_int_type(a.get("t")) for a in args))
                    evs[("l", d["decl"])].append(
                        Ev("decl" if dims_only else "fullinit", n, [view.render(a, {}) for a in args]))
    cache[ck] = evs
    return evs


def _feeds_full_erase(fn, call):
    """m.begin() / m.end() as an argument of m.erase(m.begin(), m.end()): part of the clearing idiom"""
    p = fn.parent(call)
    for _ in range(4):
        if p is None:
            return False
        if p.get("k") == "CXXMemberCallExpr" and (p["c"][0].get("member") == "erase"):
            return True
        if p.get("k") in CASTS + ("CXXConstructExpr",):
            p = fn.parent(p)
            continue
        return False
    return False


def _full_loop_inits(view, oid, evs, size_texts):
    """canonical counted loops that assign every element of a vector over its full range: [loop node]"""
    out = []
    for ev in evs:
        if ev.kind != "elemwrite" or not ev.info or len(ev.info) != 1:
            continue
        idx = ev.info[0]
        if idx.get("k") != "DeclRefExpr" or "decl" not in idx["ref"]:
            continue
        loops = view.loops_around(ev.node)
        if not loops:
            continue
        L = loops[-1]
        own = view.loop_env(L, 99)
        if idx["ref"]["decl"] not in own:
            continue
        X = view.counted(L, {})
        if X is None or X not in size_texts:
            continue
        T, H, E, Xb = view.loop_blocks(L)
        inner = [x for x in walk(L.get("body")) if x.get("k") in LOOPS]
        reg = view.region(("loop", L["id"]), E, H, inner)
        pos = view.cfg.block_of(ev.node)
        if pos is None or reg.get(pos[0]) != [frozenset()]:
            continue
        out.append(L)
    return out


class ScratchAnalysis:
    def __init__(self, fx):
        self.fx = fx
        self.views = {}
        self.mi_memo = {}

    def view(self, fn):
        if fn.key not in self.views:
            self.views[fn.key] = View(fn)
        return self.views[fn.key]

    # ---- must-init summaries
    def must_init(self, fn, oid, scalars=(), abnormal=(), size_texts=(), _depth=0):
        """every normal path of fn (entry -> exit, not through an abnormal call or a throw) passes a full
        initialisation of the member - directly, by a full-range loop, or through a member called on this"""
        mk = (fn.key, oid, tuple(sorted(abnormal)))
        if mk in self.mi_memo:
            return self.mi_memo[mk]
        self.mi_memo[mk] = False
        if fn.body is None or _depth > 5:
            return False
        view = self.view(fn)
        cfg = fn.cfg
        evs = collect_events(view, scalars).get(oid, [])
        init_blocks = set()
        for ev in evs:
            if ev.kind in ("fullinit", "empty"):
                pos = cfg.block_of(ev.node)
                if pos is not None:
                    init_blocks.add(pos[0])
        sizes = set(size_texts)
        for ev in evs:
            if ev.kind == "resize" and ev.info and len(ev.info) == 1:
                sizes.add(ev.info[0])
        if oid[0] == "f":
            sizes |= {"%s.dim()" % oid[1], "%s.size()" % oid[1]}
        loop_exits = set()
        for L in _full_loop_inits(view, oid, evs, sizes):
            T, H, E, X = view.loop_blocks(L)
            if X is not None and X >= 0:
                loop_exits.add((T, X))
        abn = set()
        for call in fn.calls():
            cal = strip_targs(call.get("callee") or "").split("::")[-1]
            if cal in abnormal:
                pos = cfg.block_of(call)
                if pos is not None:
                    abn.add(pos[0])
            if call.get("k") == "CXXMemberCallExpr":
                obj = F.call_object(call)
                if obj is not None and obj.get("k") == "CXXThisExpr":
                    cfn = self.fx.functions.get(call.get("calleeKey"))
                    if cfn is not None and cfn.key != fn.key and \
                            self.must_init(cfn, oid, scalars, abnormal, size_texts, _depth + 1):
                        pos = cfg.block_of(call)
                        if pos is not None:
                            init_blocks.add(pos[0])
        for n in fn.walk():
            if n.get("k") == "CXXThrowExpr":
                pos = cfg.block_of(n)
                if pos is not None:
                    abn.add(pos[0])
        # is the exit reachable on a normal path that avoids every initialisation?
        seen = set()
        stack = [cfg.entry]
        res = True
        while stack:
            b = stack.pop()
            if b in seen or b in init_blocks or b in abn:
                continue
            seen.add(b)
            if b == cfg.exit:
                res = False
                break
            for s_ in cfg.succ.get(b, []):
                if (b, s_) in loop_exits:
                    continue      # leaving a full-range initialising loop: initialised
                stack.append(s_)
        self.mi_memo[mk] = res
        return res

    # ---- dominance clause inside one function
    def analyse(self, fn, oid, scalars=(), size_texts=(), writes_are_uses=False):
        """(reads, accumulations, inits, undominated reads, undominated accumulations, events)"""
        view = self.view(fn)
        evs = collect_events(view, scalars).get(oid, [])
        cfg = fn.cfg
        sizes = set(size_texts)
        for ev in evs:
            if ev.kind in ("resize", "decl") and ev.info and len(ev.info) == 1:
                sizes.add(ev.info[0])
        if oid[0] == "f":
            sizes |= {"%s.dim()" % oid[1], "%s.size()" % oid[1]}
        inits = [ev.node for ev in evs if ev.kind in ("fullinit", "empty")]
        loops = _full_loop_inits(view, oid, evs, sizes)
        helper_inits = []
        if oid[0] in ("f", "s"):
            for call in fn.calls():
                if call.get("k") != "CXXMemberCallExpr":
                    continue
                obj = F.call_object(call)
                if obj is None or obj.get("k") != "CXXThisExpr":
                    continue
                cal = self.fx.functions.get(call.get("calleeKey"))
                if cal is not None and cal.key != fn.key and self.must_init(cal, oid, scalars, (), sizes):
                    helper_inits.append(call)
        reads = [ev for ev in evs if ev.kind == "consume"]
        accs = [ev for ev in evs if ev.kind in ("accum", "append") or (writes_are_uses and ev.kind == "elemwrite")]

        def dominated(u):
            for f in inits + helper_inits:
                if cfg.dominates(f, u.node):
                    return True
            for L in loops:
                inside = any(a is L for a in fn.ancestors(u.node))
                T, H, E, X = view.loop_blocks(L)
                upos = cfg.block_of(u.node)
                if not inside and upos is not None and T in cfg.dom.get(upos[0], ()):
                    return True
            return False

        und_r = [u for u in reads if not dominated(u)]
        und_a = [u for u in accs if not dominated(u)]
        return reads, accs, inits + helper_inits + loops, und_r, und_a, evs


def _is_reference_local(fn, decl):
    for n in fn.walk():
        if n.get("k") == "DeclStmt":
            for d in n.get("decls", []):
                if d.get("decl") == decl:
                    return (d.get("t") or "").rstrip().endswith("&")
    return False


def _class_fields(fx, cls):
    rec = fx.cls(cls)
    out = {}
    for f in rec.get("fields", []):
        out[f["name"]] = f.get("t", "")
    return out


def _callers_initialise(sa, fx, methods, fn, oid, scalars, size_texts, visiting):
    """fn (non-public, non-virtual) uses the member without initialising it: every call of fn on this
    inside the class must be dominated by a full initialisation in the caller (or the caller is itself
    such a helper)."""
    if fn.rec.get("access", 0) == 0 or fn.rec.get("virtual"):
        return False
    if fn.key in visiting:
        return False
    visiting = visiting | {fn.key}
    sites = 0
    for caller in methods:
        if caller.key == fn.key:
            continue
        for call in caller.calls():
            if call.get("calleeKey") != fn.key:
                continue
            sites += 1
            reads, accs, inits, und_r, und_a, evs = sa.analyse(caller, oid, scalars, size_texts)
            ok = any(caller.cfg.dominates(i, call) for i in inits if i.get("k") not in LOOPS)
            if not ok:
                for L in [i for i in inits if i.get("k") in LOOPS]:
                    T, H, E, X = sa.view(caller).loop_blocks(L)
                    cpos = caller.cfg.block_of(call)
                    if cpos is not None and T in caller.cfg.dom.get(cpos[0], ()) and \
                            not any(a is L for a in caller.ancestors(call)):
                        ok = True
            if not ok and not _callers_initialise(sa, fx, methods, caller, oid, scalars, size_texts, visiting):
                return False
    return sites > 0


def rule_scratch(ctx):
    rule = "R-SCRATCH"
    fx = ctx.facts
    tab = engine.load_table("step.json")["scratch"]
    sa = ScratchAnalysis(fx)
    n_oblig = n_persist = n_reader = n_entry = 0
    by_class = defaultdict(list)
    for m in tab["members"]:
        by_class[m["class"]].append(m)
    for cls, members in sorted(by_class.items()):
        fields = _class_fields(fx, cls)
        methods = [f for f in fx.methods_of(cls) if f.body is not None]
        by_name = defaultdict(list)
        for f in methods:
            by_name[f.name].append(f)
        scalars = tuple(sorted(m["member"] for m in members if m["member"] in fields
                               and not is_container_type(fields[m["member"]])))
        tabled = set()
        for m in members:
            name = m["member"]
            tabled.add(name)
            if name not in fields:
                # the member is gone (turned into a local, replaced by another mechanism): its obligation is gone
                # with it; the floors below fail if the inventory erodes
                ctx.note("R-SCRATCH: %s has no member %s any more; not checked" % (cls, name))
                continue
            oid = ("f" if is_container_type(fields[name]) else "s", name)
            role = m["role"]
            if role == "persistent":
                n_persist += 1
                continue
            if role not in ("scratch", "rebuilt", "accumulator"):
                raise AnalysisBroken("R-SCRATCH: unknown role %s for %s::%s" % (role, cls, name))
            size_texts = set()
            for fn in methods:
                for ev in collect_events(sa.view(fn), scalars).get(oid, []):
                    if ev.kind == "resize" and ev.info and len(ev.info) == 1:
                        size_texts.add(ev.info[0])
            if role == "accumulator":
                abnormal = tuple(m.get("abnormal", ()))
                n_acc_sites = 0
                for fn in methods:
                    for ev in collect_events(sa.view(fn), scalars).get(oid, []):
                        if ev.kind in ("accum", "append"):
                            n_acc_sites += 1
                if n_acc_sites == 0:
                    raise AnalysisBroken("R-SCRATCH: accumulator %s::%s is accumulated nowhere any more"
                                         % (cls, name))
                # several scope kinds may share one buffer (<obs> and <height-differences> both push into `sigma`):
                # then the buffer must be empty at every scope entry whatever scope came before, i.e. all scopes
                # re-initialise at their start or all at their end - a mix leaves one order of scopes uncovered
                per_group = []
                for grp in m["entries"]:
                    okpos = set()
                    cands = []
                    for pos, en in enumerate(grp):
                        if en not in by_name:
                            raise AnalysisBroken("R-SCRATCH: scope entry %s::%s of %s not found" % (cls, en, name))
                        cands += by_name[en]
                        if any(sa.must_init(f, oid, scalars, abnormal, size_texts) for f in by_name[en]):
                            okpos.add("start" if pos == 0 and len(grp) > 1 else ("end" if len(grp) > 1 else "only"))
                    per_group.append((grp, cands, okpos))
                common = None
                for _, _, okpos in per_group:
                    if okpos:       # a scope kind without any re-initialisation is reported on its own
                        common = set(okpos) if common is None else (common & okpos)
                for grp, cands, okpos in per_group:
                    for f in cands:
                        ctx.saw(f)
                    key = "%s:%s:reset-per-scope" % ("|".join(sorted({f.sig for f in cands})), name)
                    n_entry += 1
                    if okpos and (common or len(per_group) == 1):
                        ctx.ok(rule, key, cands[0].where(), cands[0].short, "",
                               {"role": "accumulator", "reason": m.get("reason", ""), "reset_at": sorted(okpos)})
                    elif okpos:
                        f0 = cands[-1]
                        ctx.bad(rule, key, f0.where(), f0.short,
                                "`%s` is shared by %d kinds of scope; this one re-initialises it at its %s, another one "
                                "only at its %s: when the other kind of scope comes first, this one starts from its "
                                "content (%s)" % (name, len(per_group), "/".join(sorted(okpos)),
                                                  "/".join(sorted(set().union(*[o for _, _, o in per_group]) - okpos)) or "?",
                                                  m.get("reason", "")))
                    else:
                        f0 = cands[-1]
                        ctx.bad(rule, key, f0.where(), f0.short,
                                "`%s` is accumulated (%d site(s): push_back / insert / ++) within a scope but none of "
                                "%s re-initialises it (clear / assignment) on every normal path: the next scope starts "
                                "from the previous content (%s)" % (name, n_acc_sites, [f.short for f in cands],
                                                                    m.get("reason", "")))
                continue
            touched = 0
            for fn in sorted(methods, key=lambda f: f.key):
                reads, accs, inits, und_r, und_a, evs = sa.analyse(fn, oid, scalars, size_texts)
                if not reads and not accs:
                    continue
                ctx.saw(fn)
                touched += 1
                key = "%s:%s" % (fn.sig, name)
                hand = (m.get("readers") or {}).get(fn.name)
                bad = list(und_a)
                if not hand:
                    bad += und_r
                if bad and _callers_initialise(sa, fx, methods, fn, oid, scalars, size_texts, set()):
                    n_oblig += 1
                    ctx.ok(rule, key, fn.where(), fn.short, "", {"role": role, "via": "callers"})
                    continue
                if not bad:
                    if hand and und_r:
                        n_reader += 1
                        ctx.ok(rule, key, fn.where(), fn.short, "", {"role": "reader", "reason": hand})
                    else:
                        n_oblig += 1
                        ctx.ok(rule, key, fn.where(), fn.short, "",
                               {"role": role, "reason": m.get("reason", ""), "inits": len(inits),
                                "reads": len(reads), "accumulations": len(accs)})
                    continue
                n_oblig += 1
                u = bad[0]
                what = "accumulated into" if u in und_a else "read"
                ctx.bad(rule, key, fn.where(u.node), fn.short,
                        "member `%s` is %s (%s) on a path on which no full initialisation (set_zero / clear / "
                        "whole assignment / full-range loop / initialising helper) of this call precedes it: it "
                        "still holds the previous call's content (%s)"
                        % (name, what, F.expr_text(u.node)[:80], m.get("reason", "")))
            if touched == 0:
                raise AnalysisBroken("R-SCRATCH: member %s::%s is used by no method any more" % (cls, name))
        for f, t in sorted(fields.items()):
            if f not in tabled and is_container_type(t) and not t.rstrip().endswith("&"):
                ctx.note("R-SCRATCH: container member %s::%s (%s) has no role in step.json (not decided)"
                         % (short(cls), f, type_short(t)))
    # locals and reference parameters that the function zeroes
    n_local = 0
    scope = tab["local_scope"]
    for fn in sorted(fx.functions.values(), key=lambda f: (f.file, f.line, f.key)):
        if not in_scope(fn, scope):
            continue
        view = sa.view(fn)
        allev = collect_events(view)
        seen_keys = Counter()
        for oid, evs in sorted(allev.items(), key=lambda kv: str(kv[0])):
            if oid[0] != "l":
                continue
            if not any(ev.kind == "fullinit" and ev.node.get("k") == "CXXMemberCallExpr" for ev in evs):
                continue
            is_param = oid[1] in view.param_pos
            if not is_param and _is_reference_local(fn, oid[1]):
                continue          # an alias of another object (e.g. a cache row): not this function's scratch
            reads, accs, inits, und_r, und_a, _ = sa.analyse(fn, oid, writes_are_uses=is_param)
            if not reads and not accs:
                continue
            ctx.saw(fn)
            decl = [ev for ev in evs if ev.kind in ("decl", "fullinit") and ev.node.get("k") == "DeclStmt"]
            if is_param:
                desc = "param@%d" % view.param_pos[oid[1]]
            else:
                t = ""
                for ev in decl:
                    for d in ev.node.get("decls", []):
                        if d.get("decl") == oid[1]:
                            t = type_short(d.get("t"))
                desc = "local %s(%s)" % (t, ", ".join(decl[0].info or []) if decl else "")
            key = "%s:%s" % (fn.sig, desc)
            seen_keys[key] += 1
            if seen_keys[key] > 1:
                key += "#%d" % seen_keys[key]
            n_local += 1
            und = und_a + und_r
            if und:
                u = und[0]
                ctx.bad(rule, key, fn.where(u.node), fn.short,
                        "container is zeroed in this function but used (%s) on a path the zeroing does not "
                        "dominate" % F.expr_text(u.node)[:80])
            else:
                ctx.ok(rule, key, fn.where(), fn.short, "", {"inits": len(inits), "uses": len(reads) + len(accs)})
    fl = tab.get("floors", {})
    ctx.floor(rule, fl.get("member_instances", 0), n_oblig,
              "(method, scratch member) instances with an initialisation obligation")
    ctx.floor(rule, fl.get("scope_entries", 0), n_entry, "accumulator scope entries")
    ctx.floor(rule, fl.get("persistent", 0), n_persist, "members with a persistent role")
    ctx.floor(rule, fl.get("local_instances", 0), n_local, "zeroed locals / reference parameters")
