"""R-SIB / R-ERR: sibling agreement and error-state consumption.

 (a) the four AdjBase implementations: identical override sets; each can signal an
     unresolvable regularisation (a reachable `throw Exc(Exception::BadRegularization ..)`
     in the call closure of its solve path);
 (b) error indicators: a field that is only ever incremented/zeroed as an error counter and
     has a public accessor must have a reader on a path to a throw / error();
 (c) LocalNetwork::null_space() handles exactly Exception::BadRegularization and rethrows
     everything else before it touches the solver;
 (d) GKFparser::finish_{obs,hdiffs,coords,vectors}: each compares the covariance dimension
     with the size of the cluster before finish_cov(), and each runs cholDec() on a copy
     inside try/catch that ends in error(); process_cov bounds dim >= 1 and 0 <= band < dim
     before it accepts the element.
"""
import engine
import facts as F
from facts import AnalysisBroken, strip_targs, short, walk

RULE_SIB = "R-SIB"
RULE_ERR = "R-ERR"

SOLVERS = ["GNU_gama::AdjEnvelope", "GNU_gama::AdjCholDec", "GNU_gama::AdjGSO", "GNU_gama::AdjSVD"]


def _throws_badreg(fn):
    """Reachable CXXThrowExpr nodes of fn whose exception is constructed from
    Exception::BadRegularization (a throw in a block the CFG proves unreachable does not count)."""
    out = []
    cfg = fn.cfg if fn.rec.get("cfg") else None
    for n in fn.walk():
        if n.get("k") == "CXXThrowExpr":
            if cfg is not None:
                pb = cfg.block_of(n)
                if pb is None or pb[0] not in cfg.reach:
                    continue
            for x in walk(n):
                if x.get("k") == "DeclRefExpr" and x["ref"].get("dk") == "enumconst" \
                        and x["ref"].get("name") == "BadRegularization":
                    out.append(n)
                    break
    return out


def _closure(fx, start, limit=400):
    """Functions reachable from start through resolved calls into the fact base (any receiver)."""
    seen = {start.key: start}
    todo = [start]
    while todo and len(seen) < limit:
        g = todo.pop()
        for c in g.calls():
            ck = c.get("calleeKey")
            cq = strip_targs(c.get("callee") or "")
            if not cq or not cq.startswith("GNU_gama::"):
                continue
            for f in fx.fns(cq):
                if f.key == ck and f.key not in seen and f.body is not None:
                    seen[f.key] = f
                    todo.append(f)
    return list(seen.values())


def _method(fx, cls, name, nparams=None):
    for h in [cls] + fx.bases_of(cls):
        for f in fx.methods_of(h):
            if f.name == name and (nparams is None or len(f.params) == nparams) and f.body is not None:
                return f
    return None


def rule_solver_siblings(ctx):
    fx = ctx.facts
    base = fx.cls("GNU_gama::AdjBase")
    virtuals = sorted({(m["name"], tuple(m["params"])) for m in base["methods"]
                       if m["virtual"] and not m["name"].startswith("~")})
    if len(virtuals) < 10:
        raise AnalysisBroken("R-SIB: AdjBase exposes only %d virtual members" % len(virtuals))
    n = 0
    for cls in SOLVERS:
        fx.cls(cls)
        for name, params in virtuals:
            f = _method(fx, cls, name, len(params))
            pure = any(m["name"] == name and tuple(m["params"]) == params and m["pure"] for m in base["methods"])
            key = "override:%s:%s/%d" % (short(cls), name, len(params))
            n += 1
            if f is None:
                ctx.bad(RULE_SIB, key, msg="%s has no definition of AdjBase::%s" % (short(cls), name))
                continue
            owner = strip_targs(f.cls)
            # a non-pure default of AdjBase (cond, q0_xx) may be inherited; pure ones must be implemented
            ok = (not pure) or owner != "GNU_gama::AdjBase"
            ctx.report(RULE_SIB, key, ok, f.where(), f.short,
                       "" if ok else "pure virtual AdjBase::%s not implemented by %s" % (name, short(cls)),
                       {"implemented_in": short(owner)})
    ctx.floor(RULE_SIB, 40, n, "solver override obligations")


def rule_badreg_signalled(ctx):
    """Each solver's solve path contains a reachable throw of Exception::BadRegularization."""
    fx = ctx.facts
    n = 0
    for cls in SOLVERS:
        entry = _method(fx, cls, "unknowns", 0)
        if entry is None:
            raise AnalysisBroken("R-ERR: %s::unknowns() not found" % cls)
        # bind the virtual solve() to this class
        fns = {entry.key: entry}
        for name in ("solve", "solve_x", "solve_x0", "solve_q0"):
            f = _method(fx, cls, name, 0)
            if f is not None:
                fns[f.key] = f
        clos = {}
        for f in list(fns.values()):
            for g in _closure(fx, f):
                # do not wander into sibling solvers through the shared base
                gc = strip_targs(g.cls or "")
                if gc in SOLVERS and gc != cls:
                    continue
                clos[g.key] = g
        for g in clos.values():
            ctx.saw(g)
        throwers = [g for g in clos.values() if _throws_badreg(g)]
        key = "badreg:%s" % short(cls)
        n += 1
        ctx.report(RULE_ERR, key, bool(throwers), entry.where(), short(cls) + "::solve",
                   "" if throwers else
                   "no function reachable from %s's solve path throws Exception::BadRegularization: an "
                   "unresolvable regularisation subset cannot be signalled to LocalNetwork::null_space()"
                   % short(cls),
                   {"throwers": sorted(short(g.qn) for g in throwers), "closure": len(clos)})
    ctx.floor(RULE_ERR, 4, n, "solvers checked for bad-regularisation signalling")


def rule_error_counters_consumed(ctx):
    """A private integer field that is only incremented / zeroed (an error counter) and exposed by a
    public const accessor must be read by somebody: an accessor nobody calls is a dropped error."""
    fx = ctx.facts
    table = engine.load_table("sib.json")
    n = 0
    for ent in table["error_counters"]:
        cls = ent["class"] if ent["class"].startswith("GNU_gama::") else "GNU_gama::" + ent["class"]
        fx.cls(cls)
        field = ent["field"]
        accessor = ent["accessor"]
        acc = [f for f in fx.methods_of(cls) if f.name == accessor and not f.params]
        if not acc:
            raise AnalysisBroken("R-ERR: accessor %s::%s() not found" % (cls, accessor))
        # the accessor returns the field
        returns_field = any(F.is_this_field(x, field) for x in acc[0].walk())
        if not returns_field:
            raise AnalysisBroken("R-ERR: %s::%s() no longer returns %s" % (cls, accessor, field))
        # writers confirm the role: only ++ / += / = 0
        readers = []
        for f in fx.functions.values():
            for c in f.calls():
                if strip_targs(c.get("callee") or "") == cls + "::" + accessor:
                    readers.append((f, c))
        internal = []
        for f in fx.methods_of(cls):
            if f.key == acc[0].key:
                continue
            w = False
            for x in f.walk():
                if F.is_this_field(x, field):
                    p = f.parent(x)
                    if p is not None and p.get("k") in ("UnaryOperator", "BinaryOperator", "CompoundAssignOperator") \
                            and p.get("op") in ("++", "=", "+=") and (p.get("c") or [None])[0] is x:
                        w = True
                    else:
                        internal.append((f, x))
        consumed = []
        for f, c in readers:
            # the value must reach a throw or an error(): the reading function throws / calls error
            if any(x.get("k") == "CXXThrowExpr" for x in f.walk()):
                consumed.append(f)
        for f, x in internal:
            if any(y.get("k") == "CXXThrowExpr" for y in f.walk()):
                consumed.append(f)
        key = "counter:%s::%s" % (short(cls), field)
        n += 1
        ctx.report(RULE_ERR, key, bool(consumed), acc[0].where(), acc[0].short,
                   "" if consumed else "error indicator %s::%s is set but %s() is never consumed on a path "
                   "to a throw: the condition it records is silently dropped" % (short(cls), field, accessor),
                   {"readers": [short(f.qn) for f, _ in readers]})
    ctx.floor(RULE_ERR, 1, n, "error counters")


def rule_nullspace_catch(ctx):
    """LocalNetwork::null_space(): the catch clause rethrows everything that is not BadRegularization
    before any solver query."""
    fx = ctx.facts
    fn = fx.fn("local::LocalNetwork::null_space")
    ctx.saw(fn)
    catches = [n for n in fn.walk() if n.get("k") == "CXXCatchStmt"]
    if not catches:
        raise AnalysisBroken("R-ERR: LocalNetwork::null_space has no catch clause any more")
    ok_all = True
    for ci, cat in enumerate(catches):
        body = cat.get("body") or {}
        stmts = body.get("c") or []
        first = stmts[0] if stmts else None
        ok = False
        why = "the handler does not start with the test of the exception's error code"
        if first is not None and first.get("k") == "IfStmt":
            cond = first.get("cond")
            refs = [x for x in walk(cond) if x.get("k") == "DeclRefExpr" and x["ref"].get("name") == "BadRegularization"]
            neq = [x for x in walk(cond) if x.get("k") == "BinaryOperator" and x.get("op") == "!="]
            rethrow = [x for x in walk(first.get("then")) if x.get("k") == "CXXThrowExpr" and not (x.get("c") or [])]
            if refs and neq and rethrow and first.get("else") is None:
                ok = True
            else:
                why = "the first statement must be `if (code != BadRegularization) throw;`"
        # the caught type is the matvec exception
        if "Exception::matvec" not in cat.get("excT", "") and "MatVecException" not in cat.get("excT", ""):
            ok = False
            why = "the handler catches %s instead of the matvec exception" % cat.get("excT")
        ctx.report(RULE_ERR, "null_space:catch#%d:only-bad-regularisation" % (ci + 1), ok, fn.where(cat), fn.short,
                   "" if ok else why)
        ok_all = ok_all and ok
    # the handler identifies the unknown through lindep() and removes its point with a reason
    calls = {strip_targs(c.get("callee") or "").rsplit("::", 1)[-1] for c in fn.calls()}
    need = {"lindep", "unknown_type", "unknown_pointid", "removed"}
    ctx.report(RULE_ERR, "null_space:uses-lindep-and-reports", need <= calls, fn.where(), fn.short,
               "" if need <= calls else "null_space no longer calls %s" % sorted(need - calls))
    ctx.floor(RULE_ERR, 1, len(catches), "null_space catch clauses")


# --------------------------------------------------------------------------- (d) GKFparser finish_*

def _idim_cmp_size(fn):
    """Comparison nodes relating this->idim to observation_list.size()."""
    out = []

    def is_size_call(x):
        if x.get("k") == "CXXMemberCallExpr" and (x.get("callee") or "").endswith("::size"):
            obj = F.call_object(x)
            return obj is not None and obj.get("k") == "MemberExpr" and obj.get("member") == "observation_list"
        return False

    size_locals = set()
    for n in fn.walk():
        if n.get("k") == "DeclStmt":
            for d in n.get("decls", []):
                if d.get("init") is not None and any(is_size_call(x) for x in walk(d["init"])):
                    size_locals.add(d["decl"])
    for n in fn.walk():
        if n.get("k") == "BinaryOperator" and n.get("op") in ("!=", "==", "<", ">", "<=", ">="):
            has_idim = any(F.is_this_field(x, "idim") for x in walk(n))
            has_size = False
            for x in walk(n):
                if is_size_call(x):
                    has_size = True
                if x.get("k") == "DeclRefExpr" and x["ref"].get("decl") in size_locals:
                    has_size = True
            if has_idim and has_size:
                out.append(n)
    return out


def rule_finish_siblings(ctx):
    fx = ctx.facts
    cls = "GNU_gama::local::GKFparser"
    names = ["finish_obs", "finish_hdiffs", "finish_coords", "finish_vectors"]
    n = 0
    for name in names:
        fn = fx.fn(cls + "::" + name)
        ctx.saw(fn)
        cfg = fn.cfg
        fc = [c for c in fn.calls() if strip_targs(c.get("callee") or "") == cls + "::finish_cov"]
        if not fc:
            raise AnalysisBroken("R-SIB: %s no longer calls finish_cov" % name)
        cmps = _idim_cmp_size(fn)
        for ci, c in enumerate(fc):
            ok = any(cfg.dominates(x, c) for x in cmps)
            n += 1
            ctx.report(RULE_SIB, "GKFparser::%s:dim-check-before-finish_cov%s" % (name, "" if len(fc) == 1 else "#%d" % ci),
                       ok, fn.where(c), fn.short,
                       "" if ok else "the covariance matrix is filled without comparing its dimension (idim) with the "
                       "number of observations of the cluster (observation_list.size()), unlike the sibling handlers")
        # positive-definiteness test: cholDec inside a try whose handler calls error()
        tries = [t for t in fn.walk() if t.get("k") == "CXXTryStmt"]
        good = False
        for t in tries:
            kids = t.get("c") or []
            body = kids[0] if kids else None
            handlers = [h for h in kids[1:] if h.get("k") == "CXXCatchStmt"]
            has_chol = body is not None and any(
                F.is_call(x) and strip_targs(x.get("callee") or "").endswith("::cholDec") for x in walk(body))
            has_err = any(any(F.is_call(x) and strip_targs(x.get("callee") or "") == "GNU_gama::CoreParser::error"
                              for x in walk(h)) for h in handlers)
            if has_chol and has_err:
                # guarded by check_cov_mat only (an `if` on that member), nothing else
                good = True
        n += 1
        ctx.report(RULE_SIB, "GKFparser::%s:positive-definite-check" % name, good, fn.where(), fn.short,
                   "" if good else "no cholDec() of the covariance matrix under try/catch -> error() in this handler")
    # process_cov bounds
    pc = fx.fn(cls + "::process_cov")
    ctx.saw(pc)
    cfg = pc.cfg
    rets = []
    for r in pc.walk():
        if r.get("k") == "ReturnStmt":
            c = r.get("c") or []
            if c and c[0].get("k") == "IntegerLiteral" and c[0].get("v") == 0:
                rets.append(r)
    if not rets:
        raise AnalysisBroken("R-SIB: process_cov has no `return 0` any more")
    dim_lo, band_hi, band_lo = [], [], []
    for x in pc.walk():
        if x.get("k") == "BinaryOperator" and x.get("op") in ("<", "<=", ">", ">="):
            l, r = x["c"]
            fl = [F.is_this_field(l, "idim"), F.is_this_field(r, "idim")]
            bl = [F.is_this_field(l, "iband"), F.is_this_field(r, "iband")]
            lits = [y.get("k") == "IntegerLiteral" for y in (l, r)]
            if any(fl) and any(lits):
                dim_lo.append(x)
            if any(fl) and any(bl):
                band_hi.append(x)
            if any(bl) and any(lits):
                band_lo.append(x)
        if F.is_call(x) and (x.get("callee") or "").endswith("isNegative") \
                and any(F.is_this_field(y, "iband") for y in walk(x)):
            band_lo.append(x)
    for what, nodes in (("dim>=1", dim_lo), ("band<dim", band_hi), ("band>=0", band_lo)):
        ok = all(any(cfg.dominates(x, r) for x in nodes) for r in rets)
        n += 1
        ctx.report(RULE_SIB, "GKFparser::process_cov:%s" % what, ok, pc.where(), pc.short,
                   "" if ok else "process_cov can accept a <cov-mat> without the bound %s being tested" % what)
    ctx.floor(RULE_SIB, 11, n, "covariance acceptance obligations")


# --------------------------------------------------------------------------- R-PAIR P1 (C14)

RULE_PAIR = "R-PAIR"


def rule_removed_pairing(ctx):
    """Every deactivation of a point's coordinates inside LocalNetwork (set_unused_xy / set_unused_z)
    is followed on every path by removed(id, code) with a reason code of the same axis class, so that
    the point shows up in the list of removed points."""
    fx = ctx.facts
    cls = "GNU_gama::local::LocalNetwork"
    enum = fx.enum(cls + "::rm_points")
    codes = {e["name"] for e in enum["enumerators"]}
    n = 0
    for fn in fx.methods_of(cls):
        if fn.body is None:
            continue
        deact = [c for c in fn.calls()
                 if strip_targs(c.get("callee") or "") in ("GNU_gama::local::LocalPoint::set_unused_xy",
                                                            "GNU_gama::local::LocalPoint::set_unused_z")]
        if not deact:
            continue
        ctx.saw(fn)
        cfg = fn.cfg
        rem = [c for c in fn.calls() if strip_targs(c.get("callee") or "") == cls + "::removed"]
        ordinal = {}
        for d in deact:
            axis = "xy" if d["callee"].endswith("set_unused_xy") else "z"
            ordinal[axis] = ordinal.get(axis, 0) + 1
            ok = False
            seen_codes = []
            for r in rem:
                if not cfg.postdominates(r, d):
                    continue
                args = F.call_args(r)
                code = None
                if len(args) == 2 and args[1].get("k") == "DeclRefExpr" and args[1]["ref"].get("dk") == "enumconst":
                    code = args[1]["ref"]["name"]
                seen_codes.append(code)
                if code in codes and (code.endswith("_" + axis) or code.endswith("_xyz")):
                    ok = True
            n += 1
            ctx.report(RULE_PAIR, "%s:set_unused_%s#%d->removed" % (short(fn.qn), axis, ordinal[axis]), ok,
                       fn.where(d), fn.short,
                       "" if ok else "coordinates %s of a point are deactivated but no removed(id, rm_*_%s) follows on "
                       "every path (codes seen after it: %s): the point disappears from the adjustment without "
                       "being listed" % (axis, axis, seen_codes))
    ctx.floor(RULE_PAIR, 8, n, "point deactivation sites")


def rule_obs_partition(ctx):
    """LocalNetwork::revision_observations(): every observation goes to exactly one of the lists of
    revised (used) and removed observations - an `if (m->active()) used.push_back(m); else
    removed.push_back(m);` of the same operand; both lists are cleared before being filled and the
    reported count is the size of the used list."""
    fx = ctx.facts
    fn = fx.fn("local::LocalNetwork::revision_observations")
    ctx.saw(fn)

    def pushes(field):
        out = []
        for c in fn.calls():
            if c.get("k") == "CXXMemberCallExpr" and (c.get("callee") or "").endswith("::push_back"):
                obj = F.call_object(c)
                if obj is not None and F.is_this_field(obj, field):
                    out.append(c)
        return out

    used, rem = pushes("revised_obs_"), pushes("removed_obs_")
    if not used:
        raise AnalysisBroken("R-PAIR: revision_observations no longer fills revised_obs_")

    def enclosing_if(node):
        child = node
        for a in fn.ancestors(node):
            if a.get("k") == "IfStmt":
                branch = "then" if any(x is child or x["id"] == child["id"] for x in walk(a.get("then"))) else "else"
                return a, branch
            child = a
        return None, None

    n = 0
    for u in used:
        iff, br = enclosing_if(u)
        ok = False
        why = "push_back to revised_obs_ is not inside an if/else"
        if iff is not None:
            other = iff.get("else") if br == "then" else iff.get("then")
            arg = F.expr_text(F.call_args(u)[0]) if F.call_args(u) else ""
            twins = [r for r in rem if other is not None and any(x["id"] == r["id"] for x in walk(other))
                     and F.call_args(r) and F.expr_text(F.call_args(r)[0]) == arg]
            cond_active = any(F.is_call(x) and (x.get("callee") or "").endswith("::active") for x in walk(iff.get("cond")))
            ok = bool(twins) and cond_active
            why = "the other branch does not put the same observation on removed_obs_ (or the test is not active())"
        n += 1
        ctx.report(RULE_PAIR, "revision_observations:partition", ok, fn.where(u), fn.short, "" if ok else why)
    # both lists cleared before the filling loop, count taken from the used list
    cfg = fn.cfg
    for field in ("revised_obs_", "removed_obs_"):
        clears = [c for c in fn.calls() if c.get("k") == "CXXMemberCallExpr"
                  and (c.get("callee") or "").rsplit("::", 1)[-1] in ("clear", "erase")
                  and F.call_object(c) is not None and F.is_this_field(F.call_object(c), field)]
        targets = used if field == "revised_obs_" else rem
        ok = all(any(cfg.dominates(c, t) for c in clears) for t in targets)
        n += 1
        ctx.report(RULE_PAIR, "revision_observations:%s-cleared-first" % field, ok, fn.where(), fn.short,
                   "" if ok else "%s is appended to without being cleared first: a second revision would list "
                   "observations twice" % field)
    cnt = [x for x in fn.walk() if x.get("k") == "BinaryOperator" and x.get("op") == "="
           and F.is_this_field(x["c"][0], "pocmer_")
           and any(F.is_this_field(y, "revised_obs_") for y in walk(x["c"][1]))]
    n += 1
    ctx.report(RULE_PAIR, "revision_observations:count-from-used-list", bool(cnt), fn.where(), fn.short,
               "" if cnt else "pocmer_ (number of observations) is not taken from revised_obs_")
    ctx.floor(RULE_PAIR, 4, n, "observation partition obligations")


# --------------------------------------------------------------------------- export visitor: angular scale siblings (C13)

RULE_UNIT = "R-UNIT"


def _is_angular(fx, cls):
    """T::angular() of the observation class (most derived definition): returns the literal true?"""
    for h in [cls] + fx.bases_of(cls):
        for f in fx.methods_of(h):
            if f.name == "angular" and not f.params and f.body is not None:
                lits = [x.get("v") for x in f.walk() if x.get("k") == "CXXBoolLiteralExpr"]
                rets = [x for x in f.walk() if x.get("k") == "ReturnStmt"]
                if len(rets) == 1 and len(lits) == 1:
                    return bool(lits[0])
                raise AnalysisBroken("R-UNIT: %s::angular() is no longer a literal" % h)
    return None


def rule_export_scale_siblings(ctx):
    """DisplayObservationVisitor (the observation part of --export): the standard deviation of every
    angular observation type is multiplied by the visitor's `scale` member (cc <-> arc seconds when the
    network is written in degrees) and that of every linear type is not - the sibling visit() methods
    agree with T::angular()."""
    fx = ctx.facts
    cls = "GNU_gama::local::DisplayObservationVisitor"
    fx.cls(cls)
    n = 0
    for fn in fx.methods_of(cls):
        if fn.name != "visit" or len(fn.params) != 1 or fn.body is None:
            continue
        t = fn.params[0]["t"].replace("*", "").replace("const", "").strip()
        ang = _is_angular(fx, t)
        if ang is None:
            raise AnalysisBroken("R-UNIT: cannot find %s::angular()" % t)
        ctx.saw(fn)
        assigns = []
        for x in fn.walk():
            if x.get("k") in ("CXXOperatorCallExpr", "BinaryOperator") and x.get("op") == "=":
                c = x.get("c") or []
                lhs = c[1] if x["k"] == "CXXOperatorCallExpr" and len(c) > 2 else (c[0] if c else None)
                if lhs is not None and F.is_this_field(lhs, "str_stdev"):
                    assigns.append(x)
        if not assigns:
            raise AnalysisBroken("R-UNIT: %s does not assign str_stdev" % fn.sig)
        for ai, a in enumerate(assigns):
            uses_scale = any(F.is_this_field(y, "scale") for y in walk(a))
            uses_stdev = any(F.is_call(y) and (y.get("callee") or "").endswith("::stdDev") for y in walk(a))
            ok = uses_stdev and (uses_scale == ang)
            n += 1
            ctx.report(RULE_UNIT, "DisplayObservationVisitor::visit(%s):stdev-scale%s" % (short(t), "" if len(assigns) == 1 else "#%d" % ai),
                       ok, fn.where(a), fn.short,
                       "" if ok else ("the exported standard deviation of the %s type %s is %s by `scale`, unlike its "
                                      "siblings (angular types are scaled, linear ones are not)"
                                      % ("angular" if ang else "linear", short(t),
                                         "not multiplied" if ang else "multiplied")))
    ctx.floor(RULE_UNIT, 13, n, "DisplayObservationVisitor standard-deviation assignments")


# --------------------------------------------------------------------------- index allocation order (C07 / C05)

def rule_index_alloc_order(ctx):
    """LocalLinearization allocates the indexes of unknowns on first use (`p.index_x() = ++maxn`).
    LocalNetwork::refine_approx_coordinates() updates y of a point with the unknown that follows its x
    (x(i), x(i+1)), i.e. it relies on index_y == index_x + 1.  Every handler that allocates both x and y
    of one point must therefore allocate x first (the guarded allocation of x dominates that of y), as all
    sibling handlers do - otherwise the result depends on which observation touches a point first."""
    fx = ctx.facts
    cls = "GNU_gama::local::LocalLinearization"
    n = 0
    for fn in fx.methods_of(cls):
        if fn.body is None:
            continue
        allocs = {}   # receiver text -> {axis: [(assign node, guard cond node)]}
        for x in fn.walk():
            if x.get("k") != "BinaryOperator" or x.get("op") != "=":
                continue
            lhs, rhs = x["c"]
            if lhs.get("k") != "CXXMemberCallExpr":
                continue
            name = strip_targs(lhs.get("callee") or "").rsplit("::", 1)[-1]
            if name not in ("index_x", "index_y", "index_z"):
                continue
            inc = [y for y in walk(rhs) if y.get("k") == "UnaryOperator" and y.get("op") == "++"
                   and F.is_this_field((y.get("c") or [{}])[0], "maxn")]
            if not inc:
                continue
            recv = F.expr_text(F.call_object(lhs))
            guard = None
            for a in fn.ancestors(x):
                if a.get("k") == "IfStmt":
                    guard = a.get("cond")
                    break
            allocs.setdefault(recv, {}).setdefault(name[-1], []).append((x, guard))
        for recv, ax in sorted(allocs.items()):
            if "x" in ax and "y" in ax:
                ctx.saw(fn)
                cfg = fn.cfg
                for yi, (ya, yg) in enumerate(ax["y"]):
                    ok = any(cfg.dominates(xg if xg is not None else xa, yg if yg is not None else ya)
                             for xa, xg in ax["x"])
                    n += 1
                    ctx.report("R-SIB", "LocalLinearization::%s:%s:x-index-before-y" % (fn.name, recv), ok,
                               fn.where(ya), fn.short,
                               "" if ok else "index_y of '%s' is allocated before index_x, unlike the sibling handlers: "
                               "refine_approx_coordinates() assumes index_y == index_x + 1" % recv)
    # the consumer of the adjacency
    cons = fx.fn("local::LocalNetwork::refine_approx_coordinates")
    ctx.saw(cons)
    ctx.floor("R-SIB", 12, n, "x/y index allocations in LocalLinearization")


# --------------------------------------------------------------------------- rhs assigned on every path (C05)

def rule_rhs_every_path(ctx):
    """LocalLinearization keeps the right-hand side of the current observation in the mutable member
    `rhs`, shared by all handlers.  Every handler must assign it on every normal path (an assignment to
    `rhs` post-dominates the handler's entry); a path that returns without assigning it reports the
    misclosure of the previously linearised observation."""
    fx = ctx.facts
    cls = "GNU_gama::local::LocalLinearization"
    c = fx.cls(cls)
    if not any(f["name"] == "rhs" for f in c["fields"]):
        raise AnalysisBroken("R-LIN: LocalLinearization::rhs not found")
    n = 0
    methods = {f.key: f for f in fx.methods_of(cls) if f.body is not None}

    def this_calls(fn):
        out = []
        for x in fn.walk():
            if x.get("k") == "CXXMemberCallExpr":
                obj = F.call_object(x)
                if obj is not None and obj.get("k") == "CXXThisExpr":
                    callee = fx.functions.get(x.get("calleeKey") or "")
                    if callee is not None and callee.key in methods:
                        out.append((x, callee))
        return out

    summary = {}

    def must_write(fn, stack=()):
        """every normal path through fn assigns rhs, directly or through a member called on this"""
        if fn.key in summary:
            return summary[fn.key]
        if fn.key in stack:
            return False
        writes = [x for x in fn.walk() if x.get("k") in ("BinaryOperator", "CompoundAssignOperator")
                  and x.get("op") == "=" and F.is_this_field(x["c"][0], "rhs")]
        writes += [x for x, callee in this_calls(fn) if must_write(callee, stack + (fn.key,))]
        cfg = fn.cfg
        avoid = set()
        for a in writes:
            pb = cfg.block_of(a)
            if pb is not None:
                avoid.add(pb[0])
        for bid, blk in cfg.blocks.items():      # throwing paths are not normal exits
            if any(isinstance(e, int) and fn.nodes.get(e, {}).get("k") == "CXXThrowExpr" for e in blk.get("el", [])):
                avoid.add(bid)
        r = bool(writes) and not cfg.paths_avoiding(cfg.entry, avoid, {cfg.exit})
        summary[fn.key] = r
        return r

    visits = [f for f in methods.values() if f.name == "visit" and len(f.params) == 1]
    for v in sorted(visits, key=lambda f: f.params[0]["t"]):
        ctx.saw(v)
        calls = this_calls(v)
        for _, h in calls:
            ctx.saw(h)
        ok = must_write(v)
        # the instance is named after the handler the visitor forwards to, when there is exactly one
        names = sorted({h.name for _, h in calls})
        name = names[0] if len(names) == 1 else "visit(%s)" % short(v.params[0]["t"])
        target = calls[0][1] if len(names) == 1 else v
        n += 1
        ctx.report("R-LIN", "LocalLinearization::%s:rhs-on-every-path" % name, ok, target.where(), target.short,
                   "" if ok else "a path through %s returns without assigning rhs: the observation gets the "
                   "right-hand side left over from the previous one" % name)
    ctx.floor("R-LIN", 13, n, "visit overloads of LocalLinearization (one per observation type)")


def _pdom_entry(cfg, node):
    pb = cfg.block_of(node)
    return pb is not None and pb[0] in cfg.pdom.get(cfg.entry, set())


def _end_guard(fn, cmp, use):
    """`it == end` / `it != end` (possibly one operand of an || / && chain that is the condition of an if /
    loop / ?:) protects `use`: the branching block dominates the use and the use cannot be reached through
    the edge taken when the iterator is at end."""
    cfg = fn.cfg
    top = cmp
    want = "||" if cmp.get("op") == "==" else "&&"
    while True:
        par = fn.parent(top)
        if par is not None and par.get("k") == "BinaryOperator" and par.get("op") == want:
            top = par
        else:
            break
    T = None
    for bid, blk in cfg.blocks.items():
        if blk.get("cond") == top["id"] and len(blk.get("succ", [])) == 2:
            T = bid
    ub = cfg.block_of(use)
    if T is None or ub is None:
        return False
    succ = cfg.blocks[T]["succ"]
    bad_edge = succ[0] if cmp.get("op") == "==" else succ[1]
    if T not in cfg.dom.get(ub[0], set()) and T != ub[0]:
        return False
    if bad_edge is None or bad_edge < 0:
        return True
    seen = {bad_edge}
    todo = [bad_edge]
    while todo:
        b = todo.pop()
        if b == ub[0]:
            return False
        for x in cfg.succ.get(b, []):
            if x not in seen and x != T:
                seen.add(x)
                todo.append(x)
    return True


def _point_lookups(fx, fn, is_id, depth=0):
    """Points a function looks up.  is_id(node) -> label for an expression denoting a point id.
    -> {label: {"tests": set, "exists_ok": bool, "node": node}}; a point id handed to a helper with a body is
    followed into the helper (its parameter takes the role of the id)."""
    out = {}
    lookups = {}
    for node in fn.walk():
        if node.get("k") != "DeclStmt":
            continue
        for d in node.get("decls", []) or []:
            init = d.get("init")
            if init is None:
                continue
            for x in walk(init):
                if x.get("k") == "CXXMemberCallExpr" and strip_targs(x.get("callee") or "").endswith("::find"):
                    args = F.call_args(x)
                    lab = is_id(args[0]) if args else None
                    if lab is not None:
                        lookups[d["decl"]] = {"label": lab, "node": node, "tests": set(), "uses": [], "endcmp": []}
    for node in fn.walk():
        k = node.get("k")
        if k not in ("CXXMemberCallExpr", "CallExpr", "CXXOperatorCallExpr"):
            continue
        name = strip_targs(node.get("callee") or "").rsplit("::", 1)[-1]
        if k == "CXXOperatorCallExpr":
            for a in F.call_args(node):
                if a.get("k") == "DeclRefExpr" and a["ref"].get("decl") in lookups:
                    if node.get("op") in ("==", "!="):
                        lookups[a["ref"]["decl"]]["endcmp"].append(node)
                    elif node.get("op") in ("*", "->"):
                        lookups[a["ref"]["decl"]]["uses"].append(node)
            continue
        if name == "find":
            continue
        involved = set()
        obj = F.call_object(node) if k == "CXXMemberCallExpr" else None
        for part in ([obj] if obj is not None else []) + list(F.call_args(node)):
            for x in walk(part):
                if x.get("k") == "DeclRefExpr" and x["ref"].get("decl") in lookups:
                    involved.add(x["ref"]["decl"])
        for dcl in involved:
            lookups[dcl]["tests"].add(name)
        # a point id handed to a helper
        if not involved and depth < 3:
            callee = fx.functions.get(node.get("calleeKey") or "")
            if callee is not None and callee.body is not None and callee.key != fn.key:
                for ai, a in enumerate(F.call_args(node)):
                    lab = is_id(a)
                    if lab is None or ai >= len(callee.params):
                        continue
                    pdecl = callee.params[ai]["decl"]
                    inner = _point_lookups(fx, callee, lambda n, pd=pdecl: "param" if (n.get("k") == "DeclRefExpr" and n["ref"].get("decl") == pd) else None,
                                           depth + 1)
                    if inner:
                        e = out.setdefault(lab, {"tests": set(), "exists_ok": True, "node": node, "via": []})
                        for v in inner.values():
                            e["tests"] |= v["tests"]
                            e["exists_ok"] = e["exists_ok"] and v["exists_ok"]
                        e["via"].append(short(callee.qn))
    for dcl, v in lookups.items():
        e = out.setdefault(v["label"], {"tests": set(), "exists_ok": True, "node": v["node"], "via": []})
        e["tests"] |= v["tests"]
        guarded = bool(v["endcmp"]) and all(any(_end_guard(fn, c, u) for c in v["endcmp"]) for u in v["uses"])
        e["exists_ok"] = e["exists_ok"] and guarded
    return out


def rule_revision_lookup_siblings(ctx):
    """LocalRevision decides per observation whether it takes part in the adjustment: every point the
    observation refers to (`obs->from()`, `to()`, `bs()`, `fs()`) is looked up, must exist, and must pass the
    status tests the observation type needs (active_xy/test_xy, active_z/test_z).  All points of one
    observation need the same coordinates, so inside one handler every point must be put through the same
    *set* of tests - inline or in a helper that receives the id - and the existence test must come before
    the first use of the lookup result.  A copy-paste slip that tests one point twice and another not at all
    keeps an observation to a removed point in the adjustment."""
    from collections import Counter
    fx = ctx.facts
    cls = "GNU_gama::local::LocalRevision"
    fx.cls(cls)
    n = 0
    n_handlers = 0
    for m in sorted(fx.methods_of(cls), key=lambda f: f.name):
        if m.body is None or m.name == "visit" or m.rec.get("ctor") or len(m.params) != 1:
            continue
        obs = m.params[0]["decl"]

        def is_id(node, obs=obs):
            if node is not None and node.get("k") == "CXXMemberCallExpr" and "PointID" in (node.get("t") or ""):
                o = F.call_object(node)
                if o is not None and o.get("k") == "DeclRefExpr" and o["ref"].get("decl") == obs:
                    return F.expr_text(node).replace(" ", "")
            return None
        pts = _point_lookups(fx, m, is_id)
        if not pts:
            continue
        n_handlers += 1
        ctx.saw(m)
        sets = [frozenset(v["tests"]) for v in pts.values()]
        top = Counter(sets).most_common()
        ref = top[0][0] if (len(top) == 1 or top[0][1] > top[1][1]) else None
        for lab, v in sorted(pts.items()):
            n += 1
            same = (len(set(sets)) == 1) or (ref is not None and frozenset(v["tests"]) == ref)
            ctx.report("R-SIB", "LocalRevision::%s:%s:same-tests" % (m.name, lab), same, m.where(v["node"]), m.short,
                       "" if same else "the point %s is put through %s, the other point(s) of this observation through %s"
                       % (lab, sorted(v["tests"]) or "no status test",
                          sorted(ref) if ref is not None else [sorted(x) for x in set(sets) if x != frozenset(v["tests"])]),
                       {"tests": sorted(v["tests"]), "via": v.get("via", [])})
            n += 1
            ctx.report("R-SIB", "LocalRevision::%s:%s:exists-before-use" % (m.name, lab), v["exists_ok"], m.where(v["node"]), m.short,
                       "" if v["exists_ok"] else "the result of looking up %s is used without a preceding comparison with end()" % lab)
    ctx.floor("R-SIB", 10, n_handlers, "LocalRevision handlers with point lookups")
    ctx.floor("R-SIB", 40, n, "lookup obligations in LocalRevision")


def rule_g3_scale_siblings(ctx):
    """DataParser (gama-g3 input): every handler that appends an observation to the current cluster must append one
    scale factor per dimension of that observation on every path to the push (`g3_obs()` compares the sum of the
    dimensions with `scale.size()` and refuses the cluster otherwise), as its siblings do."""
    fx = ctx.facts
    cls = "GNU_gama::DataParser"
    fx.cls(cls)
    n = 0
    for m in sorted(fx.methods_of(cls), key=lambda f: f.name):
        if m.body is None:
            continue
        obs_push, scale_push = [], []
        for c in m.calls():
            if c.get("k") != "CXXMemberCallExpr" or strip_targs(c.get("callee") or "").rsplit("::", 1)[-1] != "push_back":
                continue
            obj = F.call_object(c)
            txt = F.expr_text(obj) if obj is not None else ""
            if txt.endswith("observation_list"):
                obs_push.append(c)
            elif txt.endswith("scale"):
                scale_push.append(c)
        if not obs_push:
            continue
        ctx.saw(m)
        cfg = m.cfg
        for op in obs_push:
            # dimension of the pushed observation: the class of the pointer argument
            args = F.call_args(op)
            t = (args[0].get("t") or "") if args else ""
            cname = strip_targs(t.replace("*", "").replace("const ", "").strip())
            dim = None
            for f in fx.methods_of(cname) if cname in fx.classes else []:
                if f.name == "dimension" and f.body is not None:
                    rets = [x for x in f.walk() if x.get("k") == "ReturnStmt" and x.get("c")]
                    if len(rets) == 1 and rets[0]["c"][0].get("k") == "IntegerLiteral":
                        dim = int(rets[0]["c"][0]["v"])
            if dim is None:
                raise AnalysisBroken("R-SIB: dimension of %s pushed in %s is not a literal" % (cname or t, m.short))
            # minimum and maximum number of scale pushes on a path through the handler that appends the observation:
            # (entry -> the push) + (the push -> exit)
            pb = cfg.block_of(op)
            if pb is None:
                continue

            def pos(snode):
                return cfg.block_of(snode) or (None, -1)
            before_in = {bk: sum(1 for sp in scale_push if pos(sp)[0] == bk and (bk != pb[0] or pos(sp)[1] < pb[1]))
                         for bk in cfg.blocks}
            after_in = {bk: sum(1 for sp in scale_push if pos(sp)[0] == bk and (bk != pb[0] or pos(sp)[1] > pb[1]))
                        for bk in cfg.blocks}

            def span(start, weights, stop=None, edges=None):
                lo, hi = {start: 0}, {start: 0}
                for _ in range(4 * len(cfg.blocks) + 4):
                    changed = False
                    for bk in list(lo):
                        if bk == stop:
                            continue
                        ol, oh = lo[bk] + weights[bk], min(hi[bk] + weights[bk], 99)
                        for s2 in edges.get(bk, []):
                            nl, nh = min(lo.get(s2, 10 ** 6), ol), max(hi.get(s2, -1), oh)
                            if nl != lo.get(s2) or nh != hi.get(s2):
                                lo[s2], hi[s2] = nl, nh
                                changed = True
                    if not changed:
                        break
                return lo, hi
            lo1, hi1 = span(cfg.entry, before_in, stop=pb[0], edges=cfg.succ)
            if pb[0] not in lo1:
                continue
            w2 = dict(after_in)
            lo2, hi2 = span(pb[0], w2, stop=cfg.exit, edges=cfg.succ)
            if cfg.exit not in lo2:
                continue
            mn = lo1[pb[0]] + before_in[pb[0]] + lo2[cfg.exit]
            mx = hi1[pb[0]] + before_in[pb[0]] + hi2[cfg.exit]
            n += 1
            ok = (mn == dim and mx == dim)
            ctx.report("R-SIB", "DataParser::%s:scale-per-dimension" % m.name, ok, m.where(op), m.short,
                       "" if ok else "%s appends a %s (dimension %d) to the cluster but %s scale factor(s) on the way: g3_obs() "
                       "then finds dimension sum != scale.size() and refuses every document that contains this element"
                       % (m.name, short(cname), dim, ("%d" % mn) if mn == mx else "%d..%d" % (mn, mx)))
    ctx.floor("R-SIB", 6, n, "g3 observation handlers that append to the cluster")


# =========================================================================== R-SIB revision pairs
def rule_revision_pairs(ctx):
    """LocalRevision decides, per observation kind, whether an observation takes part in the adjustment.  For
    every point the observation touches it asks two questions per coordinate group: does the point *have* the
    coordinate (`test_xy` / `test_z`) and is the coordinate *part of the adjustment* (`active_xy` / `active_z`:
    false once the point's xy or z was removed).  The two questions belong together: an observation kept for a
    point whose xy was removed stays in the adjustment with that xy silently held fixed, and the reported
    exclusion no longer equals deleting the excluded items (C14).  Decided: in every `LocalRevision` method, for
    every receiver, `test_D` called implies `active_D` called on the same receiver (D in xy, z).  One confirmed
    exception, frozen with its reason (tables/sib.json `revision_pair_exceptions`)."""
    fx = ctx.facts
    rule = "R-SIB"
    tab = engine.load_table("sib.json")
    exc = {k: v for k, v in tab.get("revision_pair_exceptions", {}).items() if not k.startswith("_")}
    cls = "GNU_gama::local::LocalRevision"
    fx.cls(cls)
    pairs = {"test_xy": "active_xy", "test_z": "active_z"}
    lp = "GNU_gama::local::LocalPoint::"
    n = 0
    used = set()
    for fn in sorted(fx.methods_of(cls), key=lambda f: (f.file, f.line, f.key)):
        if fn.body is None:
            continue
        by_recv = {}
        where = {}
        for call in fn.calls():
            callee = F.strip_targs(call.get("callee") or "")
            if not callee.startswith(lp):
                # a helper that asks the questions for the caller (`usable_xy(PD, obs->from())`): its receivers
                # count as receivers of the caller, one per call
                g = fx.functions.get(call.get("calleeKey"))
                if g is not None and g.body is not None and g.file == fn.file and g.key != fn.key and \
                        F.strip_targs(g.cls or "") != cls:
                    hs = {}
                    for c2 in g.calls():
                        cal2 = F.strip_targs(c2.get("callee") or "")
                        if cal2.startswith(lp) and (cal2[len(lp):] in pairs or cal2[len(lp):] in pairs.values()):
                            o2 = F.call_object(c2)
                            hs.setdefault(F.expr_text(o2) if o2 is not None else "?", set()).add(cal2[len(lp):])
                    args = ",".join(F.expr_text(a) for a in F.call_args(call))
                    for r2, names2 in hs.items():
                        r = "%s(%s):%s" % (g.name, args, r2)
                        by_recv.setdefault(r, set()).update(names2)
                        for nm in names2:
                            where.setdefault((r, nm), fn.where(call))
                continue
            name = callee[len(lp):]
            if name not in pairs and name not in pairs.values():
                continue
            obj = F.call_object(call)
            r = F.expr_text(obj) if obj is not None else "?"
            by_recv.setdefault(r, set()).add(name)
            where.setdefault((r, name), fn.where(call))
        if not by_recv:
            continue
        ctx.saw(fn)
        for r, names in sorted(by_recv.items()):
            for t, a in sorted(pairs.items()):
                if t not in names:
                    continue
                key = "LocalRevision::%s:%s:%s-with-%s" % (fn.name, r, t, a)
                ok = a in names
                msg = ""
                if not ok and ("%s:%s" % (fn.name, a)) in exc:
                    ok = True
                    used.add("%s:%s" % (fn.name, a))
                    msg = "exception: " + exc["%s:%s" % (fn.name, a)]
                n += 1
                ctx.report(rule, key, ok, where[(r, t)], fn.short,
                           msg=msg if ok else "the observation is kept after `%s.%s()` without asking `%s()`: a point whose "
                           "coordinate was removed from the adjustment still carries this observation, with the coordinate "
                           "silently held fixed" % (r, t, a), detail={"receiver": r, "asked": sorted(names)})
    for k in exc:
        if k not in used:
            ctx.note("R-SIB revision pairs: exception %s no longer needed" % k)
    ctx.floor(rule, tab.get("revision_pair_floor", 1), n, "coordinate tests of LocalRevision paired with the activity test")
    return {"pairs": n}
