"""R-FIN: no division by (modulus, fmod, log of) a statistic that is legitimately zero, no sqrt of a value that
can be negative by rounding noise or by the sign of the degrees of freedom.

gama-local's statistics have boundary cases in which a quantity is *exactly* zero: degrees of freedom 0,
hence a posteriori reference deviation 0, v'Pv 0 for consistent observations, residual cofactor 0 for an
uncontrolled observation, zero distance between coincident points, ...  `tables/fin.json` has one *event* per
boundary case, the accessor / field / out parameter that yields it, the implications between events, and the
never-zero facts relied on.  A missing guard prints nan/inf for exactly the networks no test input covers.

rule_fin is an abstract interpretation over the exported CFGs (forward must-analysis, one state per block,
block inputs recomputed from the current edge states until nothing changes):

* abstract value: alternatives of event sets ("the value is non-zero as soon as all events of one alternative
  are excluded"), the events that force it to zero, provenance (tabled sources it is built from
  multiplicatively), an integer affine form `source + k`, a sign, "sign is that of a signed integer source"
  (dof can be negative), "difference of noisy cofactors" (for sqrt), kind coordinate.  Products / quotients /
  sqrt / fabs / negation / casts keep may-be-zero; a sum of non-negatives is zero only if both are; a product
  with a factor of unknown provenance can only be proven by a test of the product itself; sums of unknown sign
  lose the provenance (not reported); coordinate minus coordinate is the zero-distance source;
* state: values of locals and of tabled never-zero fields of `this`, boolean locals bound to the condition they
  hold, excluded events, lower bounds of integer sources (`dof > 1` proves `dof-1 != 0`), compound
  expressions tested as a whole (`sqs+squ > 0`), locals known to be 0 and conditional exclusions "index
  local != 0 => event(index) excluded" (the `imax` witness idiom of the text/HTML writers);
* branch edges refine the state with the polarity of the deciding sub-expression (clang's CFG already splits
  `&&`, `||`, `?:`), so `if (dof > 0)`, `if (dof == 0) return`, `x > 0 ? a/x : 0`, a bool local, `if (!(c))
  continue`, `if (x <= 0) x = 1`, `std::max(x, eps)`, an early throw are one mechanism; contradictory edges
  are infeasible; an assignment kills what it invalidates (facts on `i` at `i++`, a new call of an
  out-parameter function);
* parameters are symbolic: a site that depends only on a parameter is decided from *all* call sites (guard in
  the caller), a guard inside the callee is just a guard (`Student`'s N <= 2 branches), callees that receive a
  tainted argument are analysed on demand; for non-public methods and functions of an anonymous namespace an
  unexcluded event is also looked up at every call site (parameterless helpers that read the accessors);
* tabled never-zero fields are verified, not trusted: the invariant is assumed on entry of a method and every
  function that writes the field must leave it non-zero on every normal exit (`if (ab_median <= 0)
  ab_median = 1`); a setter parameter is followed to all callers (GKFparser refuses sigma-apr <= 0).

Instances: one per (function, operation whose operand carries a tabled source), keyed
`Function(sig):kind:shape#n`; the shape renders the operand with locals replaced by the sources they carry, so
it does not depend on local names; n is the ordinal among equal shapes in source order of the function.
Instantiations of one template are reported once.  Denominators of unknown provenance are not decided
(counted in the notes).  A BAD verdict that depends on a branch condition the interpreter could not read is
exit 2 (AnalysisBroken), never a violation.  Assumption: the statistics accessors of one network are stable
within one analysed function (nothing re-adjusts the network between a guard and the use).
Nothing is executed; no source text, line number or statement order is matched.
"""
import collections
import math

import engine
import facts as F
from facts import AnalysisBroken, walk, is_call, call_args, call_object, strip_targs, short, expr_text

RULE = "R-FIN"

OPAQUE = ("opq",)       # an event that no guard on something else can exclude
UNKF = ("unkf",)        # an unknown-provenance factor of a product: neither provable nor reportable
ZEROC = ("zero",)       # the literal 0
NZ_ALTS = (frozenset(),)
EMPTY = frozenset()
MAX_ALTS = 6

AV = collections.namedtuple("AV", "alts must src psrc aff sign neg diff kind const q sg")
UNK = AV(None, EMPTY, EMPTY, EMPTY, None, "?", False, EMPTY, None, None, EMPTY, None)

CASTS = ("ImplicitCastExpr", "CStyleCastExpr", "CXXStaticCastExpr", "CXXFunctionalCastExpr",
         "CXXConstCastExpr", "CXXReinterpretCastExpr")
CMP = ("<", ">", "<=", ">=", "==", "!=")
NEGATE = {"<": ">=", ">": "<=", "<=": ">", ">=": "<", "==": "!=", "!=": "=="}
FLIP = {"<": ">", ">": "<", "<=": ">=", ">=": "<=", "==": "==", "!=": "!="}
FMOD = ("fmod", "fmodf", "fmodl", "remainder", "drem")
LOGS = ("log", "logf", "logl", "log10", "log2", "log10f", "log2f")
SQRTS = ("sqrt", "sqrtf", "sqrtl")
ABSS = ("fabs", "fabsf", "fabsl", "abs", "labs", "llabs")

_TABLE = None


def table():
    global _TABLE
    if _TABLE is None:
        _TABLE = engine.load_table("fin.json")
    return _TABLE


# =========================================================================== abstract values

def mk(alts=None, must=EMPTY, src=EMPTY, psrc=EMPTY, aff=None, sign="?", neg=False, diff=EMPTY, kind=None,
       const=None, q=EMPTY, sg=None):
    """sg = (event, +1/-1): the sign of the value is that of a tabled signed integer source (times polarity)."""
    return AV(alts, must, src, psrc, aff, sign, neg, diff, kind, const, q, sg)


def sg_mul(a, b):
    nonneg = ("+", "0+")
    if a.sg is not None and b.sg is None and b.sign in nonneg:
        return a.sg
    if b.sg is not None and a.sg is None and a.sign in nonneg:
        return b.sg
    if a.sg is not None and b.sg is None and b.sign == "-":
        return (a.sg[0], -a.sg[1])
    if b.sg is not None and a.sg is None and a.sign == "-":
        return (b.sg[0], -b.sg[1])
    return None


def const_av(c):
    if isinstance(c, bool):
        c = int(c)
    if not isinstance(c, (int, float)):
        return UNK
    if c == 0:
        return mk((frozenset([ZEROC]),), frozenset([ZEROC]), sign="0+", const=c)
    return mk(NZ_ALTS, sign="+" if c > 0 else "-", const=c)


def nz_av(sign="?", src=EMPTY):
    return mk(NZ_ALTS, src=src, sign=sign)


def norm_alts(alts):
    """Drop alternatives subsumed by a smaller one, order deterministically, cap."""
    if alts is None:
        return None
    s = sorted(set(alts), key=lambda a: (len(a), sorted(map(repr, a))))
    out = []
    for a in s:
        if not any(b <= a for b in out):
            out.append(a)
    return tuple(out[:MAX_ALTS])


def alts_and(a, b):
    """non-zero needs both: product of alternatives."""
    if a is None or b is None:
        return None
    return norm_alts([x | y for x in a for y in b])


def alts_or(a, b):
    """non-zero as soon as one of them is (sum of non-negatives)."""
    if a is None or b is None:
        return None
    return norm_alts(list(a) + list(b))


def sign_neg(s):
    return {"+": "-", "-": "+"}.get(s, "?")


def sign_mul(a, b):
    if a == "?" or b == "?":
        return "?"
    if "0+" in (a, b):
        if a in ("+", "0+") and b in ("+", "0+"):
            return "0+"
        return "?"
    return "+" if a == b else "-"


def av_mul(a, b, same=False):
    if a.const is not None and b.const is not None:
        return const_av(a.const * b.const)
    alts = alts_and(a.alts, b.alts)
    if alts is None:
        # a product with a value of unknown provenance: zero whenever the known factor is, and only a test of
        # the product itself can prove it non-zero
        k = a if a.alts is not None else (b if b.alts is not None else None)
        if k is not None and (k.src or k.psrc):
            alts = norm_alts([x | {UNKF} for x in k.alts])
    if same:
        sign = "+" if a.sign in ("+", "-") else "0+"
    else:
        sign = sign_mul(a.sign, b.sign)
    neg = False if sign in ("+", "0+") else (a.neg or b.neg)
    sg = None if same else sg_mul(a, b)
    if a.sg is not None and a.sg == b.sg:
        sign, sg = ("0+" if sign == "?" else sign), None
    return mk(alts, a.must | b.must, a.src | b.src, a.psrc | b.psrc, None, sign, neg, a.diff | b.diff, None, None,
              a.q | b.q, sg)


def av_div(a, b):
    if a.const is not None and b.const not in (None, 0):
        return const_av(a.const / b.const)
    sign = sign_mul(a.sign, "+" if b.sign == "0+" else b.sign)
    neg = False if sign in ("+", "0+") else (a.neg or b.neg)
    sg = sg_mul(a, b)
    if a.sg is not None and a.sg == b.sg:
        sign, sg = ("0+" if sign == "?" else sign), None
    return mk(a.alts, a.must, a.src, a.psrc, None, sign, neg, a.diff | b.diff,
              a.kind if b.const is not None else None, None, a.q | b.q, sg)


def av_shift(a, c):
    """a + c for an affine a and a constant c."""
    at, off = a.aff
    atom = ("aff", at, off + c)
    return mk((frozenset([atom]),), frozenset([atom]), a.src, a.psrc, (at, off + c), "?", False, a.diff, None, None,
              a.q)


def av_add(a, b):
    if a.const is not None and b.const is not None:
        return const_av(a.const + b.const)
    if a.const == 0:
        return b
    if b.const == 0:
        return a
    if a.aff is not None and b.const is not None:
        return av_shift(a, b.const)
    if b.aff is not None and a.const is not None:
        return av_shift(b, a.const)
    kind = "coord" if (a.kind == "coord") != (b.kind == "coord") else None
    nonneg = ("+", "0+")
    if a.sign in nonneg and b.sign in nonneg:
        sign = "+" if "+" in (a.sign, b.sign) else "0+"
        alts = NZ_ALTS if sign == "+" else alts_or(a.alts, b.alts)
        return mk(alts, a.must & b.must, a.src | b.src, a.psrc | b.psrc, None, sign, False, a.diff | b.diff, kind,
                  None, a.q | b.q)
    # a sum of values of unknown sign: provenance of the zero is lost (not reported)
    return mk(None, EMPTY, EMPTY, EMPTY, None, "?", a.neg or b.neg, a.diff | b.diff, kind, None, a.q | b.q)


def av_sub(a, b):
    if a.const is not None and b.const is not None:
        return const_av(a.const - b.const)
    if b.const == 0:
        return a
    if a.aff is not None and b.const is not None:
        return av_shift(a, -b.const)
    if a.kind == "coord" and b.kind == "coord":
        return mk((frozenset([OPAQUE]),), EMPTY, frozenset(["coord-diff"]) | a.src | b.src, a.psrc | b.psrc,
                  None, "?", False, a.diff | b.diff, None, None, a.q | b.q)
    kind = "coord" if (a.kind == "coord") != (b.kind == "coord") else None
    diff = a.diff | b.diff
    if a.q or b.q:
        diff = diff | a.q | b.q
    neg = bool(a.q or b.q) or a.neg or b.neg
    return mk(None, EMPTY, EMPTY, EMPTY, None, "?", neg, diff, kind, None, a.q | b.q)


def av_neg(a):
    if a.const is not None:
        return const_av(-a.const)
    return a._replace(sign=sign_neg(a.sign), aff=None, kind=None, neg=a.neg or bool(a.q and a.sign != "-"),
                      sg=None if a.sg is None else (a.sg[0], -a.sg[1]))


def av_abs(a, root=False):
    if a.const is not None and a.const >= 0:
        return const_av(math.sqrt(a.const) if root else a.const)
    if root:
        sign = "+" if a.sign == "+" else "0+"
    else:
        sign = "+" if a.sign in ("+", "-") else "0+"
    return mk(a.alts, a.must, a.src, a.psrc, None, sign, False, a.diff, None, None, a.q)


def av_join(a, b):
    if a == b:
        return a
    alts = alts_and(a.alts, b.alts)          # provable only if provable on both paths
    if a.sign == b.sign:
        sign = a.sign
    elif a.sign in ("+", "0+") and b.sign in ("+", "0+"):
        sign = "0+"
    else:
        sign = "?"
    return mk(alts, a.must & b.must, a.src | b.src, a.psrc | b.psrc, a.aff if a.aff == b.aff else None, sign,
              a.neg or b.neg, a.diff | b.diff, a.kind if a.kind == b.kind else None,
              a.const if a.const == b.const else None, a.q | b.q, a.sg if a.sg == b.sg else None)


def atoms_of(v):
    out = set(v.must)
    for alt in (v.alts or ()):
        out |= alt
    if v.aff is not None:
        out.add(v.aff[0])
    return out


def mentions(atom, key):
    """Does the (nested tuple) atom mention the local/field key?"""
    if atom == key:
        return True
    if isinstance(atom, tuple):
        return any(mentions(x, key) for x in atom)
    return False


def subst(atom, old, new):
    if atom == old:
        return new
    if isinstance(atom, tuple):
        return tuple(subst(x, old, new) for x in atom)
    return atom


def opaque_out(v, key):
    """Replace every event of v that mentions key (a local that is being re-assigned) by OPAQUE."""
    if not any(mentions(a, key) for a in atoms_of(v)):
        return v
    alts = v.alts
    if alts is not None:
        alts = norm_alts([frozenset(OPAQUE if mentions(x, key) else x for x in alt) for alt in alts])
    must = frozenset(x for x in v.must if not mentions(x, key))
    aff = v.aff if (v.aff is None or not mentions(v.aff[0], key)) else None
    sg = v.sg if (v.sg is None or not mentions(v.sg[0], key)) else None
    return v._replace(alts=alts, must=must, aff=aff, sg=sg)


# =========================================================================== state

class State:
    __slots__ = ("env", "bexpr", "ex", "lb", "zero", "cf", "uc", "dead", "nzx")

    def __init__(self):
        self.env = {}        # key -> AV; key = ('l', decl) or ('f', field)
        self.bexpr = {}      # ('l', decl) -> node id of the condition the bool local holds
        self.ex = set()      # excluded events
        self.lb = {}         # integer event -> lower bound
        self.zero = set()    # locals known to be 0
        self.cf = set()      # (local key, event): local != 0  =>  event excluded
        self.uc = set()      # ids of branch conditions on the way that could not be interpreted
        self.dead = False    # set by a refinement that contradicts the state (infeasible edge)
        self.nzx = {}        # canonical compound expression -> sign: tested non-zero as a whole

    def copy(self):
        s = State()
        s.env = dict(self.env)
        s.bexpr = dict(self.bexpr)
        s.ex = set(self.ex)
        s.lb = dict(self.lb)
        s.zero = set(self.zero)
        s.cf = set(self.cf)
        s.uc = set(self.uc)
        s.nzx = dict(self.nzx)
        return s

    def same(self, o):
        return (self.env == o.env and self.bexpr == o.bexpr and self.ex == o.ex and self.lb == o.lb
                and self.zero == o.zero and self.cf == o.cf and self.uc == o.uc and self.nzx == o.nzx)


def join_states(a, b):
    s = State()
    for k, v in a.env.items():
        if k in b.env:
            s.env[k] = av_join(v, b.env[k])
    for k, v in a.bexpr.items():
        if b.bexpr.get(k) == v:
            s.bexpr[k] = v
    s.ex = a.ex & b.ex
    for k, v in a.lb.items():
        if k in b.lb:
            s.lb[k] = min(v, b.lb[k])
    s.zero = a.zero & b.zero
    # conditional exclusions: each side must support (d, e): e excluded, or (d, e) known, or d == 0
    cand = set(a.cf) | set(b.cf)
    for side, other in ((a, b), (b, a)):
        for d in other.zero:
            for e in side.ex:
                if mentions(e, d):
                    cand.add((d, e))
    for d, e in cand:
        if all((e in x.ex) or ((d, e) in x.cf) or (d in x.zero) for x in (a, b)):
            if e not in s.ex:
                s.cf.add((d, e))
    s.uc = a.uc | b.uc
    for k, v in a.nzx.items():
        if k in b.nzx:
            s.nzx[k] = v if v == b.nzx[k] else "?"
    return s


# =========================================================================== per-function interpreter

class Site:
    __slots__ = ("fn", "node", "kind", "den", "av", "proven", "blame", "uc", "order", "shape")


class CallArg:
    __slots__ = ("caller", "callee", "k", "proven", "src", "psrc", "blame_params", "node")


class Model:
    """Tables resolved against the fact base + the whole-program bookkeeping."""

    def __init__(self, ctx):
        self.ctx = ctx
        self.fx = ctx.facts
        self.T = table()
        self.events = self.T["events"]
        self.acc = self.T["accessors"]
        self.fields = self.T["fields"]
        self.outp = self.T["out_params"]
        self.boolacc = self.T["bool_accessors"]
        self.coord = set(self.T["coordinate_accessors"])
        self.quant = {k: v for k, v in self.T["quantities"].items() if not k.startswith("_")}
        self.nz = self.T["never_zero"]
        self.signs = self.T.get("signs", {})
        self.nzf = self.T["never_zero_fields"]
        self.scope = set(self.T["scope_files"])
        for ev in list(self.acc.values()) + list(self.fields.values()):
            if ev["event"] not in self.events:
                raise AnalysisBroken("fin.json: unknown event %s" % ev["event"])
        for name, e in self.events.items():
            for x in e.get("implied_by", []) + e.get("implies_one_of", []):
                if x not in self.events:
                    raise AnalysisBroken("fin.json: event %s refers to unknown event %s" % (name, x))
        # helpers whose callers are all known: non-public methods and functions of an anonymous namespace
        self.helpers = set()
        for f in self.fx.functions.values():
            if f.body is None:
                continue
            if (f.cls and f.rec.get("access") in (1, 2) and not f.rec.get("virtual")) or \
                    "(anonymous namespace)" in f.key:
                self.helpers.add(f.key)
        self.callers = collections.defaultdict(set)     # callee key -> keys of functions that call it
        for f in self.fx.functions.values():
            if f.body is None:
                continue
            for c in f.calls():
                ck = c.get("calleeKey")
                if ck in self.helpers:
                    self.callers[ck].add(f.key)
        self.nz_reliance = set()     # (function, node) where a never-zero fact was used

    # -- events
    def ev_atom(self, name, recv, args):
        e = self.events[name]
        return ("ev", name, recv, tuple(args) if e.get("indexed") else ())

    def related(self, atom, name):
        """The event `name` for the same receiver / index as atom."""
        _, n0, recv, args = atom
        e = self.events[name]
        if e.get("indexed") and not self.events[n0].get("indexed"):
            return None
        return ("ev", name, recv, args if e.get("indexed") else ())

    def ev_av(self, atom):
        name = atom[1]
        e = self.events[name]
        aff = (atom, 0) if e.get("int") else None
        sign = "0+" if ((e.get("int") and e.get("min", None) == 0) or e.get("nonneg")) else "?"
        sg = (atom, 1) if (e.get("int") and e.get("min", None) is None) else None
        return mk((frozenset([atom]),), frozenset([atom]), frozenset([name]), EMPTY, aff, sign, sg=sg)


class FnRun:
    """Abstract interpretation of one function."""

    def __init__(self, M, fn):
        self.M = M
        self.fn = fn
        self.nodes = fn.nodes
        self.cfg = fn.cfg
        self.params = {p["decl"]: (i, p) for i, p in enumerate(fn.params) if "decl" in p}
        self.sites = []
        self.callargs = []
        self.snapshots = []          # (call node, state) for calls of helpers (guard-in-the-caller summaries)
        self.exit_state = None
        self.field_writes = set()
        self.recording = False
        self.bound_nodes = {}
        self._order = {}
        for i, n in enumerate(fn.walk()):
            self._order[n["id"]] = i
        self.local_types = {}
        self.decl_recs = {}
        for n in fn.walk():
            if n.get("k") == "DeclStmt":
                for d in n.get("decls", []):
                    if "decl" in d:
                        self.local_types[d["decl"]] = d.get("t", "")
                        self.decl_recs[d["decl"]] = d
        for d, (i, p) in self.params.items():
            self.local_types[d] = p.get("t", "")

    # ---------------------------------------------------------------- canonical keys
    def canon(self, n):
        if n is None:
            return ("none",)
        k = n.get("k")
        c = n.get("c") or []
        if k == "DeclRefExpr":
            r = n["ref"]
            if r.get("dk") in ("local", "parm") and "decl" in r:
                return ("l", r["decl"])
            if r.get("dk") == "enumconst":
                return ("c", r.get("v"))
            return ("g", r.get("qn") or r.get("name"))
        if k in ("IntegerLiteral", "FloatingLiteral", "CharacterLiteral", "CXXBoolLiteralExpr"):
            return ("c", n.get("v"))
        if k == "CXXThisExpr":
            return ("this",)
        if k == "MemberExpr" and n.get("mk") == "field" and c:
            base = self.canon(c[0])
            if base == ("this",):
                return ("f", n.get("member"))
            return ("m", base, n.get("member"))
        if k == "UnaryOperator" and n.get("op") in ("*", "&") and c:
            return self.canon(c[0])
        if k in CASTS and c:
            return self.canon(c[0])
        if is_call(n) and k != "CXXConstructExpr":
            obj = call_object(n)
            return ("call", strip_targs(n.get("callee") or ""), self.canon(obj) if obj is not None else ("none",),
                    tuple(self.canon(a) for a in self.args_of(n)))
        return ("x", k, n.get("op"), tuple(self.canon(x) for x in c))

    def args_of(self, n):
        """Arguments of a call without the object of a member operator call."""
        a = call_args(n)
        if n.get("k") == "CXXOperatorCallExpr" and n.get("memberOp"):
            return a[1:]
        return a

    # ---------------------------------------------------------------- evaluation
    def param_av(self, decl):
        i, p = self.params[decl]
        atom = ("par", i)
        t = (p.get("t") or "")
        is_int = t.replace("const ", "").strip() in ("int", "unsigned int", "long", "unsigned long", "short",
                                                       "unsigned", "size_t", "std::size_t")
        return mk((frozenset([atom]),), frozenset([atom]), EMPTY, frozenset([i]), (atom, 0) if is_int else None)

    def eval(self, n, st):
        v = self.eval0(n, st)
        if st.nzx and n is not None and n.get("k") in ("BinaryOperator", "CallExpr", "CXXMemberCallExpr",
                                                        "CXXOperatorCallExpr") and v.const is None:
            sg = st.nzx.get(self.canon(n))
            if sg is not None:
                v = v._replace(alts=NZ_ALTS, sign=sg if sg in ("+", "-") else
                               (v.sign if v.sign in ("+", "-") else ("+" if v.sign == "0+" else "?")),
                               neg=False if sg == "+" else v.neg)
        return v

    def eval0(self, n, st):
        if n is None:
            return UNK
        k = n.get("k")
        c = n.get("c") or []
        M = self.M
        if k in ("IntegerLiteral", "FloatingLiteral", "CXXBoolLiteralExpr", "CharacterLiteral"):
            v = n.get("v")
            if isinstance(v, str):
                try:
                    v = float(v)
                except ValueError:
                    return UNK
            return const_av(v)
        if k in CASTS:
            if not c:
                return UNK
            ck = n.get("castKind")
            inner = self.eval(c[0], st)
            if ck == "FloatingToIntegral":
                if inner.const is not None:
                    return const_av(int(inner.const))
                return UNK._replace(psrc=inner.psrc)
            if ck in ("IntegralToFloating", "FloatingCast", "IntegralCast", "NoOp", "LValueToRValue",
                      "IntegralToBoolean", "FloatingToBoolean", None, "ConstructorConversion",
                      "UserDefinedConversion"):
                return inner._replace(kind=inner.kind)
            return UNK
        if k == "DeclRefExpr":
            r = n["ref"]
            dk = r.get("dk")
            if dk in ("local", "parm") and "decl" in r:
                key = ("l", r["decl"])
                if key in st.env:
                    return st.env[key]
                if r["decl"] in self.params:
                    return self.param_av(r["decl"])
                return UNK
            if dk == "enumconst":
                return const_av(r.get("v"))
            return UNK
        if k == "MemberExpr":
            if n.get("mk") == "field" and c and c[0].get("k") == "CXXThisExpr":
                return self.field_av(n, st)
            return UNK
        if k == "UnaryOperator":
            op = n.get("op")
            if not c:
                return UNK
            if op == "-":
                return av_neg(self.eval(c[0], st))
            if op == "+":
                return self.eval(c[0], st)
            return UNK
        if k == "BinaryOperator":
            op = n.get("op")
            if op in ("=", ","):
                return self.eval(c[1], st)
            if op in ("*", "/", "+", "-", "%"):
                a = self.eval(c[0], st)
                b = self.eval(c[1], st)
                return self.arith(op, a, b, c[0], c[1])
            return UNK
        if k == "CompoundAssignOperator":
            op = n.get("op", "")[:-1]
            a = self.eval(c[0], st)
            b = self.eval(c[1], st)
            return self.arith(op, a, b, c[0], c[1])
        if k == "ConditionalOperator" and len(c) == 3:
            s1 = st.copy()
            self.refine(c[0], True, s1)
            s2 = st.copy()
            self.refine(c[0], False, s2)
            if s1.dead and not s2.dead:
                return self.eval(c[2], s2)
            if s2.dead and not s1.dead:
                return self.eval(c[1], s1)
            return av_join(self.eval(c[1], s1), self.eval(c[2], s2))
        if is_call(n):
            return self.eval_call(n, st)
        if k == "CXXDefaultArgExpr" and c:
            return self.eval(c[0], st)
        return UNK

    def arith(self, op, a, b, na, nb):
        if op == "*":
            ca, cb = self.canon(na), self.canon(nb)
            return av_mul(a, b, same=(ca == cb and not self.has_call(na)))
        if op == "/":
            return av_div(a, b)
        if op == "%":
            return UNK._replace(src=a.src, psrc=a.psrc, sign="0+" if a.sign in ("+", "0+") else "?")
        if op == "+":
            return av_add(a, b)
        if op == "-":
            return av_sub(a, b)
        return UNK

    def has_call(self, n):
        """A call whose value may differ between two evaluations (anything but tabled accessors)."""
        for x in walk(n):
            if is_call(x):
                cal = strip_targs(x.get("callee") or "")
                if cal not in self.M.acc and cal not in self.M.quant and cal not in self.M.coord:
                    return True
        return False

    def field_av(self, n, st):
        key = ("f", n.get("member"))
        if key in st.env:
            return st.env[key]
        qn = "%s::%s" % (strip_targs(n.get("owner") or ""), n.get("member"))
        M = self.M
        if qn in M.nzf:
            if self.recording:
                M.nz_reliance.add((self.fn.key, n["id"]))
            return nz_av(M.nzf[qn].get("sign", "?"))
        if qn in M.fields and not M.events[M.fields[qn]["event"]].get("indexed"):
            return M.ev_av(M.ev_atom(M.fields[qn]["event"], ("this",), ()))
        return UNK

    def eval_call(self, n, st):
        M = self.M
        k = n.get("k")
        callee = strip_targs(n.get("callee") or "")
        simple = callee.rsplit("::", 1)[-1]
        args = self.args_of(n)
        obj = call_object(n)
        if k in ("CXXConstructExpr", "CXXTemporaryObjectExpr"):
            if len(args) == 1:
                return self.eval(args[0], st)
            return UNK
        if callee in M.acc:
            recv = self.canon(obj) if obj is not None else ("this",)
            atom = M.ev_atom(M.acc[callee]["event"], recv, [self.canon(a) for a in args])
            v = M.ev_av(atom)
            if callee in M.quant:
                v = v._replace(q=frozenset([M.quant[callee]]))
            if v.aff is not None:
                lb = self.lower(atom, st)
                if lb is not None and lb >= 1:
                    v = v._replace(sign="+")
                elif lb is not None and lb >= 0:
                    v = v._replace(sign="0+")
            return v
        if callee in M.nz:
            if self.recording:
                M.nz_reliance.add((self.fn.key, n["id"]))
            return nz_av(M.nz[callee].get("sign", "?"))
        if callee in M.signs:
            return UNK._replace(sign=M.signs[callee]["sign"])
        if callee in M.coord and not args:
            return UNK._replace(kind="coord")
        if callee in M.quant:
            return UNK._replace(q=frozenset([M.quant[callee]]))
        if k == "CXXOperatorCallExpr" and n.get("op") in ("()", "[]") and obj is not None:
            # element of a tabled vector field: vahkopr(i), sigma_L(i)
            if obj.get("k") == "MemberExpr" and obj.get("mk") == "field":
                qn = "%s::%s" % (strip_targs(obj.get("owner") or ""), obj.get("member"))
                if qn in M.fields:
                    base = (obj.get("c") or [{}])[0]
                    recv = self.canon(base)
                    atom = M.ev_atom(M.fields[qn]["event"], recv, [self.canon(a) for a in args])
                    return M.ev_av(atom)
            return UNK
        if k == "CallExpr" or k == "CXXMemberCallExpr":
            if simple in SQRTS and len(args) == 1:
                return av_abs(self.eval(args[0], st), root=True)
            if simple in ABSS and len(args) == 1:
                return av_abs(self.eval(args[0], st))
            if simple in ("exp", "expf"):
                return nz_av("+")
            if simple in ("pow", "powf") and len(args) == 2:
                a = self.eval(args[0], st)
                e = self.eval(args[1], st)
                if a.sign == "+":
                    return nz_av("+", a.src)
                if e.const is not None and e.const > 0:
                    even = float(e.const).is_integer() and int(e.const) % 2 == 0
                    return mk(a.alts, a.must, a.src, a.psrc, None, "0+" if (even or a.sign == "0+") else "?",
                              False if even else a.neg, a.diff, None, None, a.q)
                return UNK
            if simple == "max" and callee.startswith("std::") and len(args) == 2:
                a, b = self.eval(args[0], st), self.eval(args[1], st)
                if "+" in (a.sign, b.sign):
                    return nz_av("+", a.src | b.src)
                if a.sign == "0+" or b.sign == "0+":
                    return mk(alts_or(a.alts, b.alts) if (a.sign == "0+" and b.sign == "0+") else None,
                              a.must & b.must, a.src | b.src, a.psrc | b.psrc, None, "0+", False,
                              a.diff | b.diff, None, None, a.q | b.q)
                return UNK._replace(src=a.src | b.src, psrc=a.psrc | b.psrc)
            if simple == "min" and callee.startswith("std::") and len(args) == 2:
                a, b = self.eval(args[0], st), self.eval(args[1], st)
                if a.sign == "+" and b.sign == "+":
                    return nz_av("+", a.src | b.src)
                return UNK._replace(src=a.src | b.src, psrc=a.psrc | b.psrc)
        return UNK

    # ---------------------------------------------------------------- excluded / proven
    def excluded(self, atom, st, depth=0):
        if atom in st.ex:
            return True
        if atom in (OPAQUE, ZEROC, UNKF):
            return False
        tag = atom[0]
        if tag == "aff":
            _, base, off = atom
            lb = self.lower(base, st)
            return lb is not None and lb + off > 0
        if tag == "ev":
            e = self.M.events[atom[1]]
            if e.get("int"):
                lb = self.lower(atom, st)
                if lb is not None and lb >= 1:
                    return True
            one_of = e.get("implies_one_of") or []
            if one_of and depth < 4:
                rel = [self.M.related(atom, x) for x in one_of]
                if all(r is not None and self.excluded_cause(r, st, depth + 1) for r in rel):
                    return True
            return False
        if tag == "par":
            lb = st.lb.get(atom)
            return lb is not None and lb >= 1
        return False

    def excluded_cause(self, atom, st, depth):
        """As excluded(), but a signed integer cause (dof: the accessors answer 0 for dof <= 0) must be
        bounded from below by 1, not merely be non-zero."""
        e = self.M.events[atom[1]]
        if e.get("int") and e.get("min") is None:
            lb = self.lower(atom, st)
            return lb is not None and lb >= 1
        return self.excluded(atom, st, depth)

    def lower(self, atom, st):
        lb = st.lb.get(atom)
        if atom[0] == "ev":
            m = self.M.events[atom[1]].get("min")
            if m is not None and (lb is None or m > lb):
                lb = m
        return lb

    def exclude(self, atom, st, depth=0):
        if atom in (OPAQUE, ZEROC, UNKF) or atom in st.ex:
            return
        if atom[0] == "aff":
            return
        st.ex.add(atom)
        for pair in list(st.cf):
            if pair[1] == atom:
                st.cf.discard(pair)
        if atom[0] == "ev":
            e = self.M.events[atom[1]]
            if e.get("int") and e.get("min") == 0:
                st.lb[atom] = max(st.lb.get(atom, 0), 1)
            if depth < 4:
                for x in e.get("implied_by") or []:
                    r = self.M.related(atom, x)
                    if r is not None:
                        self.exclude(r, st, depth + 1)

    def proven(self, v, st):
        if v.sign in ("+", "-"):
            return True
        if v.aff is not None:
            lb = self.lower(v.aff[0], st)
            if lb is not None and lb + v.aff[1] > 0:
                return True
        if v.alts is None:
            return False
        return any(all(self.excluded(a, st) for a in alt) for alt in v.alts)

    def blame(self, v, st):
        """Unexcluded events of the alternative that is closest to a proof."""
        best = None
        for alt in (v.alts or ()):
            rest = frozenset(a for a in alt if not self.excluded(a, st))
            rank = (len([a for a in rest if a[0] not in ("par", "unkf")]), len(rest))
            if best is None or rank < best[0]:
                best = (rank, rest)
        return best[1] if best is not None else EMPTY

    # ---------------------------------------------------------------- refinement
    def deciding(self, n):
        """The sub-expression whose value decides the branch of a block whose terminator condition is n."""
        while n is not None and n.get("k") == "BinaryOperator" and n.get("op") in ("&&", "||"):
            n = n["c"][1]
        return n

    def key_of(self, n):
        """State key of an lvalue expression the interpreter tracks (local or field of this), else None."""
        if n is None:
            return None
        k = n.get("k")
        if k in CASTS and n.get("c"):
            return self.key_of(n["c"][0])
        if k == "DeclRefExpr" and n["ref"].get("dk") in ("local", "parm") and "decl" in n["ref"]:
            return ("l", n["ref"]["decl"])
        if k == "MemberExpr" and n.get("mk") == "field" and (n.get("c") or [{}])[0].get("k") == "CXXThisExpr":
            qn = "%s::%s" % (strip_targs(n.get("owner") or ""), n.get("member"))
            if qn in self.M.nzf:
                return ("f", n.get("member"))
        return None

    def event_field(self, n):
        """Event name if n is a tabled event field of this (scalar or element), else None."""
        if n is None:
            return None
        if n.get("k") == "CXXOperatorCallExpr" and n.get("op") in ("()", "[]"):
            n = call_object(n)
            if n is None:
                return None
        if n.get("k") == "MemberExpr" and n.get("mk") == "field":
            qn = "%s::%s" % (strip_targs(n.get("owner") or ""), n.get("member"))
            if qn in self.M.fields:
                return self.M.fields[qn]["event"]
        return None

    def kill_atom(self, atom, st):
        st.ex.discard(atom)
        st.lb.pop(atom, None)
        for p in [p for p in st.cf if p[1] == atom]:
            st.cf.discard(p)
        for k2, v in list(st.env.items()):
            if atom in atoms_of(v):
                alts = v.alts
                if alts is not None:
                    alts = norm_alts([frozenset(OPAQUE if x == atom else x for x in alt) for alt in alts])
                st.env[k2] = v._replace(alts=alts, must=v.must - {atom},
                                        aff=None if (v.aff and v.aff[0] == atom) else v.aff,
                                        sg=None if (v.sg and v.sg[0] == atom) else v.sg)

    def kill_event(self, name, st):
        for a in [a for a in st.ex if a[0] == "ev" and a[1] == name]:
            st.ex.discard(a)
        for a in [a for a in st.lb if a[0] == "ev" and a[1] == name]:
            del st.lb[a]
        for p in [p for p in st.cf if p[1][0] == "ev" and p[1][1] == name]:
            st.cf.discard(p)

    def set_nonzero(self, n, st, sign=None):
        """Expression n is known to be non-zero (sign '+' / '-' if known) from here on."""
        if n is None:
            return
        k = n.get("k")
        c = n.get("c") or []
        v = self.eval(n, st)
        for a in v.must:
            self.exclude(a, st)
        if v.aff is not None:
            at, off = v.aff
            lb = self.lower(at, st)
            if sign == "+":
                self.raise_lb(at, 1 - off, st)
            elif lb is not None and lb + off >= 0:
                self.raise_lb(at, 1 - off, st)
        key = self.key_of(n)
        if key is not None:
            cur = st.env.get(key, v)
            if key in st.zero or cur.const == 0:
                st.dead = True             # asserted non-zero, known to be 0: infeasible edge
            nsign = sign or (cur.sign if cur.sign in ("+", "-") else ("+" if cur.sign == "0+" else "?"))
            st.env[key] = cur._replace(alts=NZ_ALTS, sign=nsign, neg=False if nsign == "+" else cur.neg,
                                       const=None)
            st.zero.discard(key)
            for pair in list(st.cf):
                if pair[0] == key:
                    st.cf.discard(pair)
                    self.exclude(pair[1], st)
            return
        if k in CASTS and c:
            self.set_nonzero(c[0], st, sign)           # also int(x) != 0 implies x != 0
            return
        if k in ("BinaryOperator", "CallExpr", "CXXMemberCallExpr", "CXXOperatorCallExpr") and \
                n.get("op") not in ("=", ",") and not self.has_call(n):
            st.nzx[self.canon(n)] = sign or "?"
        if k == "UnaryOperator" and n.get("op") in ("-", "+") and c:
            self.set_nonzero(c[0], st, sign_neg(sign) if (sign and n.get("op") == "-") else sign)
            return
        if k == "BinaryOperator" and n.get("op") == "*":
            self.set_nonzero(c[0], st)
            self.set_nonzero(c[1], st)
            return
        if k == "BinaryOperator" and n.get("op") == "/":
            self.set_nonzero(c[0], st)
            return
        if k == "BinaryOperator" and n.get("op") == "=":
            self.set_nonzero(c[0], st, sign)
            self.set_nonzero(c[1], st, sign)
            return
        if is_call(n):
            callee = strip_targs(n.get("callee") or "")
            simple = callee.rsplit("::", 1)[-1]
            args = self.args_of(n)
            if (simple in SQRTS or simple in ABSS) and len(args) == 1:
                self.set_nonzero(args[0], st, "+" if simple in SQRTS else None)

    def set_zero(self, key, st):
        cur = st.env.get(key)
        if cur is not None and (cur.alts == NZ_ALTS or cur.sign in ("+", "-")):
            st.dead = True                 # asserted zero, known non-zero: infeasible edge
        st.zero.add(key)

    def set_nonneg(self, n, st):
        key = self.key_of(n)
        if key is not None:
            cur = st.env.get(key, self.eval(n, st))
            st.env[key] = cur._replace(sign="+" if cur.sign == "+" else "0+", neg=False)

    def raise_lb(self, atom, value, st):
        value = int(math.ceil(value - 1e-12))
        cur = st.lb.get(atom)
        if cur is None or value > cur:
            st.lb[atom] = value
        if atom[0] == "ev" and self.lower(atom, st) is not None and self.lower(atom, st) >= 1:
            self.exclude(atom, st)

    def mentions_tracked(self, n, st):
        for x in walk(n):
            key = self.key_of(x)
            if key is not None:
                v = st.env.get(key)
                if v is not None and (v.src or v.psrc or v.diff):
                    return True
            if is_call(x):
                cal = strip_targs(x.get("callee") or "")
                if cal in self.M.acc or cal in self.M.boolacc:
                    return True
        return False

    def refine(self, n, truth, st, top=None):
        """Condition n evaluated to truth: update st.  Conditions that cannot be read are remembered."""
        if n is None:
            return
        top = top if top is not None else n
        k = n.get("k")
        c = n.get("c") or []
        if k in CASTS and c:
            return self.refine(c[0], truth, st, top)
        if k == "UnaryOperator" and n.get("op") == "!" and c:
            return self.refine(c[0], not truth, st, top)
        if k == "BinaryOperator":
            op = n.get("op")
            if op == "&&":
                if truth:
                    self.refine(c[0], True, st, top)
                    self.refine(c[1], True, st, top)
                elif self.mentions_tracked(n, st):
                    st.uc.add(top["id"])
                return
            if op == "||":
                if not truth:
                    self.refine(c[0], False, st, top)
                    self.refine(c[1], False, st, top)
                elif self.mentions_tracked(n, st):
                    st.uc.add(top["id"])
                return
            if op in CMP:
                return self.refine_cmp(c[0], op if truth else NEGATE[op], c[1], st, top)
            if op == "=":
                self.refine(c[0], truth, st, top)
                return
        if k == "CXXBoolLiteralExpr" or k == "IntegerLiteral":
            return
        key = self.key_of(n)
        if key is not None and key in st.bexpr:
            b = self.bound_nodes.get(st.bexpr[key])
            if b is not None:
                return self.refine(b, truth, st, top)
        if is_call(n):
            callee = strip_targs(n.get("callee") or "")
            if callee in self.M.boolacc:
                spec = self.M.boolacc[callee]
                obj = call_object(n)
                recv = self.canon(obj) if obj is not None else ("this",)
                for name in spec.get("true_excludes" if truth else "false_excludes", []):
                    self.exclude(self.M.ev_atom(name, recv, ()), st)
                return
        # plain truthiness of a value
        if truth:
            self.set_nonzero(n, st)
        elif key is not None and key[0] == "l":
            self.set_zero(key, st)
        if key is None and self.eval(n, st).alts is None and self.mentions_tracked(n, st):
            st.uc.add(top["id"])

    def refine_cmp(self, L, op, R, st, top):
        a = self.eval(L, st)
        b = self.eval(R, st)
        if b.const is None and a.const is not None:
            L, R, a, b, op = R, L, b, a, FLIP[op]
        if b.const is None:
            # non-constant bound: only the sign of the bound helps
            done = False
            if op == ">" and b.sign in ("+", "0+"):
                self.set_nonzero(L, st, "+"); done = True
            elif op == ">=" and b.sign == "+":
                self.set_nonzero(L, st, "+"); done = True
            elif op == "<" and a.sign in ("+", "0+"):
                self.set_nonzero(R, st, "+"); done = True
            elif op == "<=" and a.sign == "+":
                self.set_nonzero(R, st, "+"); done = True
            if not done and (self.mentions_tracked(L, st) or self.mentions_tracked(R, st)) and \
                    (a.src or b.src or a.psrc or b.psrc or a.alts is not None or b.alts is not None):
                st.uc.add(top["id"])
            return
        cst = b.const
        # integer affine lower bounds
        if a.aff is not None:
            at, off = a.aff
            if op == ">":
                self.raise_lb(at, math.floor(cst - off + 1e-12) + 1, st)
            elif op == ">=":
                self.raise_lb(at, cst - off, st)
            elif op == "==":
                self.raise_lb(at, cst - off, st)
            elif op == "!=" and cst == 0:
                lb = self.lower(at, st)
                if lb is not None and lb + off >= 0:
                    self.raise_lb(at, 1 - off, st)
        if op == ">":
            if cst >= 0:
                self.set_nonzero(L, st, "+")
        elif op == ">=":
            if cst > 0:
                self.set_nonzero(L, st, "+")
            elif cst == 0:
                self.set_nonneg(L, st)
        elif op == "<":
            if cst <= 0:
                self.set_nonzero(L, st, "-")
        elif op == "<=":
            if cst < 0:
                self.set_nonzero(L, st, "-")
        elif op == "!=":
            if cst == 0:
                self.set_nonzero(L, st)
        elif op == "==":
            if cst != 0:
                self.set_nonzero(L, st, "+" if cst > 0 else "-")
            else:
                key = self.key_of(L)
                if key is not None and key[0] == "l":
                    self.set_zero(key, st)

    # ---------------------------------------------------------------- effects
    def kill(self, key, st):
        for a in [a for a in st.ex if mentions(a, key)]:
            st.ex.discard(a)
        for a in [a for a in st.lb if mentions(a, key)]:
            del st.lb[a]
        for p in [p for p in st.cf if p[0] == key or mentions(p[1], key)]:
            st.cf.discard(p)
        st.zero.discard(key)
        for x in [x for x in st.nzx if mentions(x, key)]:
            del st.nzx[x]
        for k2 in [k2 for k2, nid in st.bexpr.items()
                   if k2 == key or self.node_mentions(self.bound_nodes.get(nid), key)]:
            del st.bexpr[k2]
        for k2, v in list(st.env.items()):
            if k2 != key:
                nv = opaque_out(v, key)
                if nv is not v:
                    st.env[k2] = nv

    def node_mentions(self, n, key):
        if n is None:
            return True
        for x in walk(n):
            if self.key_of(x) == key:
                return True
        return False

    def assign(self, key, v, rhs, st):
        copies = None
        rk = self.key_of(rhs) if rhs is not None else None
        if rk is not None and rk != key and rk[0] == "l" and key[0] == "l":
            copies = rk
        v = opaque_out(v, key)
        self.kill(key, st)
        st.env[key] = v
        if key[0] == "f":
            self.field_writes.add(key[1])
        if v.const == 0 and key[0] == "l":
            st.zero.add(key)
        if copies is not None:
            for a in list(st.ex):
                if mentions(a, copies):
                    st.ex.add(subst(a, copies, key))
            for a, lbv in list(st.lb.items()):
                if mentions(a, copies):
                    st.lb[subst(a, copies, key)] = lbv
            if copies in st.zero:
                st.zero.add(key)
        if rhs is not None and key[0] == "l":
            t = self.local_types.get(key[1], "")
            if t.replace("const ", "").strip() == "bool" and rhs.get("k") not in ("CXXBoolLiteralExpr",):
                self.bound_nodes[rhs["id"]] = rhs
                st.bexpr[key] = rhs["id"]

    def callee_params(self, n):
        fn = self.M.fx.functions.get(n.get("calleeKey") or "")
        if fn is not None:
            return [p.get("t") or "" for p in fn.params]
        return None

    def declare(self, d, st):
        key = ("l", d["decl"])
        init = d.get("init")
        if init is not None:
            self.assign(key, self.eval(init, st), init, st)
        else:
            self.kill(key, st)
            st.env[key] = UNK

    def effect(self, n, st):
        k = n.get("k")
        c = n.get("c") or []
        if k == "DeclStmt":
            for d in n.get("decls", []):
                if "decl" in d:
                    self.declare(d, st)
            return
        if k == "BinaryOperator" and n.get("op") == "=":
            key = self.key_of(c[0])
            if key is not None:
                self.assign(key, self.eval(c[1], st), c[1], st)
            elif self.event_field(c[0]):
                self.kill_event(self.event_field(c[0]), st)
            return
        if k == "CompoundAssignOperator":
            key = self.key_of(c[0])
            if key is not None:
                self.assign(key, self.eval(n, st), None, st)
            elif self.event_field(c[0]):
                self.kill_event(self.event_field(c[0]), st)
            return
        if k == "UnaryOperator" and n.get("op") in ("++", "--"):
            key = self.key_of(c[0]) if c else None
            if key is not None:
                cur = st.env.get(key, UNK)
                self.assign(key, UNK._replace(sign="+" if (n.get("op") == "++" and cur.sign in ("+", "0+"))
                                              else "?"), None, st)
            return
        if is_call(n):
            self.call_effect(n, st)

    def call_effect(self, n, st):
        M = self.M
        callee = strip_targs(n.get("callee") or "")
        args = self.args_of(n) if n.get("k") not in ("CXXConstructExpr", "CXXTemporaryObjectExpr") else call_args(n)
        ptypes = self.callee_params(n)
        spec = M.outp.get(callee)
        events = {}
        if spec is not None and len(args) >= 1:
            if "last" in spec:
                idx = [len(args) - spec["last"] + i for i in range(spec["last"])]
            else:
                idx = spec["index"]
            for i, evname in zip(idx, spec["events"]):
                if 0 <= i < len(args):
                    # one event per call site; a new execution of the call yields a new value
                    events[i] = M.ev_atom(evname, ("call", n["id"]), ())
                    self.kill_atom(events[i], st)
        sig = ""
        if ptypes is None:
            c0 = (n.get("c") or [{}])[0]
            sig = c0.get("t") or ""
        for i, a in enumerate(args):
            key = self.key_of(a)
            if key is None and a.get("k") == "UnaryOperator" and a.get("op") == "&" and a.get("c"):
                key = self.key_of(a["c"][0])
                byref = True
            else:
                if ptypes is not None:
                    t = ptypes[i] if i < len(ptypes) else ""
                    byref = t.rstrip().endswith("&") and not t.startswith("const ")
                else:
                    pts = _sig_params(sig)
                    t = pts[i] if i < len(pts) else ""
                    byref = (t.rstrip().endswith("&") and not t.lstrip().startswith("const ")) or not pts
            if key is None or not byref:
                continue
            if i in events:
                self.assign(key, M.ev_av(events[i]), None, st)
            else:
                self.assign(key, UNK, None, st)

    # ---------------------------------------------------------------- sites
    def site_kind(self, n):
        """(kind, operand node) if n is a checked operation."""
        k = n.get("k")
        c = n.get("c") or []
        if k == "BinaryOperator" and n.get("op") in ("/", "%") and len(c) == 2:
            return ("div" if n["op"] == "/" else "mod"), c[1]
        if k == "CompoundAssignOperator" and n.get("op") in ("/=", "%=") and len(c) == 2:
            return ("div" if n["op"] == "/=" else "mod"), c[1]
        if k == "CallExpr":
            callee = strip_targs(n.get("callee") or "")
            simple = callee.rsplit("::", 1)[-1]
            args = call_args(n)
            if simple in FMOD and len(args) == 2:
                return "fmod", args[1]
            if simple in LOGS and len(args) == 1:
                return "log", args[0]
            if simple in SQRTS and len(args) == 1:
                return "sqrt", args[0]
        return None

    def visit_site(self, n, st):
        sk = self.site_kind(n)
        if sk is None:
            return
        kind, den = sk
        v = self.eval(den, st)
        s = Site()
        s.fn, s.node, s.kind, s.den, s.av = self.fn, n, kind, den, v
        s.order = self._order.get(n["id"], 0)
        s.uc = []
        s.shape = self.shape(den, st)
        if kind == "sqrt":
            if not v.diff and v.sg is None:
                return
            s.proven = not v.neg
            if v.sg is not None and v.sign not in ("+", "0+"):
                lb = self.lower(v.sg[0], st)
                s.proven = s.proven and v.sg[1] > 0 and lb is not None and lb >= 0
            s.blame = EMPTY
            if not s.proven:
                s.uc = self.related_conditions(den, EMPTY, st)
            self.sites.append(s)
            return
        if v.const is not None:
            return
        s.proven = self.proven(v, st)
        s.blame = EMPTY if s.proven else self.blame(v, st)
        if not s.proven:
            s.uc = self.related_conditions(den, s.blame, st)
        self.sites.append(s)

    def shape(self, n, st, depth=0):
        """Rendering of an operand that does not depend on the names of locals: a local is shown as the tabled
        sources it carries, a call as its simple name."""
        if n is None or depth > 8:
            return "_"
        k = n.get("k")
        c = n.get("c") or []
        key = self.key_of(n)
        if key is not None or (k == "DeclRefExpr"):
            v = self.eval(n, st)
            if v.src:
                return "+".join(sorted(v.src))
            if v.diff:
                return "d(" + "+".join(sorted(v.diff)) + ")"
            if v.psrc:
                return "p" + "".join(str(i + 1) for i in sorted(v.psrc))
            if v.const is not None:
                return "%g" % v.const
            return "_"
        if k in ("IntegerLiteral", "FloatingLiteral"):
            try:
                return "%g" % float(n.get("v"))
            except (TypeError, ValueError):
                return "c"
        if k in CASTS and c:
            return self.shape(c[0], st, depth + 1)
        if k in ("BinaryOperator", "CompoundAssignOperator") and len(c) == 2:
            return "(%s%s%s)" % (self.shape(c[0], st, depth + 1), n.get("op"), self.shape(c[1], st, depth + 1))
        if k == "UnaryOperator" and c:
            return "%s%s" % (n.get("op"), self.shape(c[0], st, depth + 1))
        if is_call(n):
            callee = strip_targs(n.get("callee") or "")
            if callee in self.M.acc:
                return self.M.acc[callee]["event"]
            ev = self.event_field(n)
            if ev:
                return ev
            simple = callee.rsplit("::", 1)[-1]
            args = self.args_of(n) if k not in ("CXXConstructExpr", "CXXTemporaryObjectExpr") else call_args(n)
            if k in ("CXXConstructExpr", "CXXTemporaryObjectExpr") and len(args) == 1:
                return self.shape(args[0], st, depth + 1)
            return "%s(%s)" % (simple, ",".join(self.shape(a, st, depth + 1) for a in args))
        if k == "MemberExpr":
            ev = self.event_field(n)
            return ev or "_"
        return "_"

    def related_conditions(self, den, blame, st):
        """Uninterpreted branch conditions on the way that test something the verdict depends on."""
        if not st.uc:
            return []
        names = {a[1] for a in blame if a[0] == "ev"}
        names |= {a[1][1] for a in blame if a[0] == "aff" and a[1][0] == "ev"}
        den_keys = {}
        for x in walk(den):
            key = self.key_of(x)
            if key is not None:
                v = st.env.get(key)
                if v is not None and v.alts is not None and (not blame or (atoms_of(v) & set(blame))):
                    den_keys[key] = v
        out = []
        for cid in sorted(st.uc):
            cn = self.nodes.get(cid)
            if cn is None:
                continue
            hit = False
            for x in walk(cn):
                if self.key_of(x) in den_keys:
                    hit = True
                if is_call(x):
                    cal = strip_targs(x.get("callee") or "")
                    if cal in self.M.acc and self.M.acc[cal]["event"] in names:
                        hit = True
            if hit:
                out.append(expr_text(cn))
        return out

    def visit_call(self, n, st):
        if n.get("k") in ("CXXOperatorCallExpr",) and n.get("op") in ("<<", ">>"):
            return
        ckey = n.get("calleeKey")
        if not ckey or ckey not in self.M.fx.functions:
            return
        if ckey in self.M.helpers:
            self.snapshots.append((n, st.copy()))
        args = call_args(n)
        if n.get("k") == "CXXOperatorCallExpr" and n.get("memberOp"):
            args = args[1:]
        for i, a in enumerate(args):
            v = self.eval(a, st)
            if not (v.src or v.psrc) or v.alts is None or v.const is not None:
                continue
            r = CallArg()
            r.caller, r.callee, r.k, r.node = self.fn, ckey, i, n
            r.proven = self.proven(v, st)
            r.src, r.psrc = v.src, v.psrc
            bl = EMPTY if r.proven else self.blame(v, st)
            r.blame_params = None
            if not r.proven and bl and all(x[0] in ("par", "unkf") for x in bl):
                r.blame_params = frozenset(x[1] for x in bl if x[0] == "par")
            self.callargs.append(r)

    # ---------------------------------------------------------------- fixpoint
    def translate(self, atom, callee_run, call):
        """An event of the callee's name space expressed in this (the caller's) name space, or None."""
        if atom[0] == "aff":
            t = self.translate(atom[1], callee_run, call)
            return None if t is None else ("aff", t, atom[2])
        if atom[0] != "ev":
            return None
        args = self.args_of(call) if call.get("k") not in ("CXXConstructExpr", "CXXTemporaryObjectExpr") \
            else call_args(call)
        obj = call_object(call)

        def tr(x):
            if x == ("this",):
                if call.get("k") == "CXXMemberCallExpr" and obj is not None:
                    return self.canon(obj)
                return None
            if isinstance(x, tuple) and x and x[0] == "l":
                if x[1] in callee_run.params:
                    i = callee_run.params[x[1]][0]
                    return self.canon(args[i]) if i < len(args) else None
                return None
            if isinstance(x, tuple) and x and x[0] == "f":
                if call.get("k") == "CXXMemberCallExpr" and obj is not None:
                    o = self.canon(obj)
                    return x if o == ("this",) else ("m", o, x[1])
                return None
            if isinstance(x, tuple) and x and x[0] == "c":
                return x
            return None
        recv = tr(atom[2])
        if recv is None:
            return None
        targs = []
        for a in atom[3]:
            t = tr(a)
            if t is None:
                return None
            targs.append(t)
        return ("ev", atom[1], recv, tuple(targs))

    def entry_state(self):
        st = State()
        for init in self.fn.rec.get("inits", []) or []:
            fld = init.get("field")
            val = init.get("init")
            if fld and val is not None:
                qn_owner = strip_targs(self.fn.cls or "")
                qn = "%s::%s" % (qn_owner, fld)
                if qn in self.M.nzf:
                    v = self.eval(val, st)
                    st.env[("f", fld)] = v
                    self.field_writes.add(fld)
        # never-zero fields of the own class: the invariant holds on entry of every method (it is
        # established by the constructors and preserved by every writer - both checked at their exits)
        owner = strip_targs(self.fn.cls or "")
        for qn, spec in self.M.nzf.items():
            o, fld = qn.rsplit("::", 1)
            if o != owner or ("f", fld) in st.env:
                continue
            st.env[("f", fld)] = UNK if self.fn.rec.get("ctor") else nz_av(spec.get("sign", "?"))
        return st

    def transfer(self, bid, st):
        blk = self.cfg.blocks[bid]
        for e in blk.get("el", []):
            if isinstance(e, dict) and "decl" in e:
                d = self.decl_recs.get(e["decl"])      # one declarator of a multi-declarator statement
                if d is not None:
                    self.declare(d, st)
                continue
            if not isinstance(e, int):
                continue
            n = self.nodes.get(e)
            if n is None:
                continue
            if self.recording:
                self.visit_site(n, st)
                if is_call(n):
                    self.visit_call(n, st)
            self.effect(n, st)
        return st

    def out_edges(self, bid, st):
        blk = self.cfg.blocks[bid]
        succs = [s for s in (blk.get("succ") or [])]
        cond = self.nodes.get(blk.get("cond")) if blk.get("cond") is not None else None
        tk = blk.get("termK")
        res = []
        if cond is not None and len(succs) == 2 and tk in ("IfStmt", "ConditionalOperator", "BinaryOperator",
                                                            "WhileStmt", "ForStmt", "DoStmt",
                                                            "BinaryConditionalOperator"):
            d = self.deciding(cond)
            for idx, truth in ((0, True), (1, False)):
                s = succs[idx]
                if s is None or s < 0:
                    continue
                ns = st.copy()
                ns.dead = False
                self.refine(d, truth, ns, cond)
                if not ns.dead:
                    res.append((s, ns))
            return res
        for s in succs:
            if s is None or s < 0:
                continue
            res.append((s, st.copy()))
        return res

    def run(self):
        cfg = self.cfg
        IN = {cfg.entry: self.entry_state()}
        EDGE = {}                      # (pred, succ) -> state on that edge, from pred's current IN
        work = collections.deque([cfg.entry])
        rounds = 0
        while work:
            rounds += 1
            if rounds > 8000:
                raise AnalysisBroken("R-FIN: no fixed point in %s" % self.fn.key)
            b = work.popleft()
            st = self.transfer(b, IN[b].copy())
            new = {}
            for s, ns in self.out_edges(b, st):
                if (b, s) in new:
                    new[(b, s)] = join_states(new[(b, s)], ns)
                else:
                    new[(b, s)] = ns
            touched = set()
            for key in [k for k in EDGE if k[0] == b and k not in new]:
                del EDGE[key]
                touched.add(key[1])
            for key, ns in new.items():
                old = EDGE.get(key)
                if old is None or not old.same(ns):
                    EDGE[key] = ns
                    touched.add(key[1])
            for s in touched:
                ins = [EDGE[(p, s)] for p in cfg.pred.get(s, []) if (p, s) in EDGE]
                if s == cfg.entry:
                    ins.append(self.entry_state())
                if not ins:
                    if s in IN:
                        del IN[s]
                    continue
                j = ins[0]
                for x in ins[1:]:
                    j = join_states(j, x)
                if s not in IN or not j.same(IN[s]):
                    IN[s] = j
                    if s not in work:
                        work.append(s)
        self.recording = True
        for b in sorted(IN):
            st = self.transfer(b, IN[b].copy())
            if b == cfg.exit:
                self.exit_state = st
        self.recording = False
        return self


# =========================================================================== the rule

def _fn_label(fn):
    """Function part of an instance key: no white space (known_findings.txt keys are \\S+)."""
    return fn.sig.replace(" ", "")


def _src_label(src):
    return "+".join(sorted(src)) if src else "?"


VIEWS = {
    # which instances belong to which property (the analysis and its floors are always the whole one)
    "C20": lambda f: True,
    "C09": lambda f: f in ("lib/gnu_gama/local/network.h", "lib/gnu_gama/local/network.cpp"),
    "C11": lambda f: f in ("lib/gnu_gama/local/local_linearization.cpp", "lib/gnu_gama/local/bearing.cpp",
                           "lib/gnu_gama/local/test_linearization_visitor.cpp",
                           "lib/gnu_gama/local/test_linearization_visitor.h", "lib/gnu_gama/statan.cpp",
                           "lib/gnu_gama/local/svg.cpp", "lib/gnu_gama/xml/gkfparser.cpp"),
    "C19": lambda f: f.startswith("lib/gnu_gama/g3/"),
}


def rule_fin_c09(ctx):
    return rule_fin(ctx, "C09")


def rule_fin_c11(ctx):
    return rule_fin(ctx, "C11")


def rule_fin_c19(ctx):
    return rule_fin(ctx, "C19")


def rule_fin_c20(ctx):
    return rule_fin(ctx, "C20")


def rule_fin(ctx, view=None):
    """view: None / 'C20' = every instance; 'C09', 'C11', 'C19' = the instances of that property (VIEWS).
    Never-zero field instances belong to C11 and C20."""
    fx = ctx.facts
    in_view = VIEWS[view] if view else (lambda f: True)
    M = Model(ctx)
    # anchors: every tabled accessor / field owner / out-parameter function must exist
    for qn in list(M.acc) + list(M.boolacc) + list(M.outp) + list(M.coord):
        fx.fn(qn)
    for qn in list(M.nz):
        if not fx.fns(qn):
            raise AnalysisBroken("fin.json: never-zero accessor %s not found" % qn)
    for qn in list(M.fields) + list(M.nzf):
        owner, fld = qn.rsplit("::", 1)
        rec = fx.cls(owner)
        names = [f.get("name") for f in rec.get("fields", [])] if rec.get("fields") is not None else None
        if names is not None and fld not in names:
            raise AnalysisBroken("fin.json: field %s not found" % qn)
    scope_fns = [f for f in fx.functions.values() if f.file in M.scope and f.body is not None]
    have = {f.file for f in scope_fns}
    missing = [s for s in M.scope if s not in have]
    if missing:
        raise AnalysisBroken("fin.json: scope file(s) without functions in the fact base: %s" % missing)

    runs = {}

    def analyse(fn):
        if fn.key in runs:
            return runs[fn.key]
        try:
            fn.cfg
        except AnalysisBroken:
            return None
        r = FnRun(M, fn).run()
        runs[fn.key] = r
        ctx.saw(fn)
        return r

    for f in sorted(scope_fns, key=lambda f: f.key):
        analyse(f)
    # writers of never-zero fields outside the scope files (their classes' methods)
    for qn in M.nzf:
        owner = qn.rsplit("::", 1)[0]
        for f in fx.methods_of(owner):
            if f.body is not None:
                analyse(f)

    # ---- parameters: taint and guard status from all call sites (fixpoint), callees on demand
    psrc = collections.defaultdict(set)      # (fn key, k) -> tabled sources reaching the parameter
    pbad = collections.defaultdict(list)     # (fn key, k) -> call records that pass an unguarded may-be-zero
    for _ in range(12):
        changed = False
        for r in list(runs.values()):
            for ca in r.callargs:
                src = set(ca.src)
                for j in ca.psrc:
                    src |= psrc[(ca.caller.key, j)]
                key = (ca.callee, ca.k)
                if not src <= psrc[key]:
                    psrc[key] |= src
                    changed = True
                if not ca.proven and src:
                    bad = False
                    if ca.blame_params is None:
                        bad = True
                    else:
                        bad = any(pbad[(ca.caller.key, j)] for j in ca.blame_params)
                    if bad and ca not in pbad[key]:
                        pbad[key].append(ca)
                        changed = True
        for (ckey, k), src in list(psrc.items()):
            if src and ckey not in runs and ckey in fx.functions:
                f = fx.functions[ckey]
                if f.body is not None and not f.file.startswith("/"):
                    if analyse(f) is not None:
                        changed = True
        if not changed:
            break
    else:
        raise AnalysisBroken("R-FIN: parameter taint did not stabilise")

    # ---- instances
    n_inst = 0
    n_unknown = 0
    n_param_only = 0
    per_fn = collections.defaultdict(list)
    for r in runs.values():
        for s in r.sites:
            per_fn[r.fn.key].append(s)
    kinds = collections.Counter()
    seen_templates = {}
    n_merged = 0
    for fkey in sorted(per_fn):
        sites = sorted(per_fn[fkey], key=lambda s: s.order)
        fn = sites[0].fn
        tkey = (fn.file, fn.line, fn.qn)
        if seen_templates.setdefault(tkey, fkey) != fkey:
            n_merged += 1            # another instantiation of the same template: same sites
            continue
        ordinals = collections.Counter()
        for s in sites:
            v = s.av
            src = set(v.src) if s.kind != "sqrt" else (set(v.diff) | ({v.sg[0][1]} if v.sg else set()))
            params = set(v.psrc)
            for j in params:
                src |= psrc[(fkey, j)]
            if not src:
                if v.alts is None:
                    n_unknown += 1
                else:
                    n_param_only += 1
                continue
            label = _src_label(src)
            ok = s.proven
            why = ""
            if not ok and s.kind != "sqrt":
                bl = s.blame
                hard = [x for x in bl if x[0] not in ("par", "unkf")]
                if v.alts is None:
                    n_unknown += 1
                    continue
                if hard and _callers_guard(M, runs, analyse, runs[fkey], hard):
                    ok = True                   # every caller of this helper excludes the events
                elif hard:
                    why = "operand %s can be zero (%s) and no test excludes it on every path" % (
                        expr_text(s.den), ", ".join(sorted(set(_atom_text(a) for a in hard))) or label)
                else:
                    culprits = []
                    for x in bl:
                        if x[0] == "par":
                            culprits += pbad[(fkey, x[1])]
                    if culprits:
                        c0 = culprits[0]
                        why = "operand %s comes from a parameter that can be zero (%s): unguarded call in %s" % (
                            expr_text(s.den), label, c0.caller.sig)
                    elif UNKF in bl:
                        n_unknown += 1          # only a factor of unknown provenance is left
                        continue
                    else:
                        ok = True               # every caller guards
            elif not ok and v.sg is not None and not v.neg and v.sg[1] > 0 and \
                    _callers_guard(M, runs, analyse, runs[fkey], [v.sg[0]], nonneg=True):
                ok = True
            elif not ok and v.sg is not None and not v.neg:
                why = "sqrt of %s, whose sign is that of %s: the value can be negative and only a test " \
                      "`> 0` (not `!= 0`) excludes it" % (expr_text(s.den), v.sg[0][1])
            elif not ok:
                why = "sqrt of a difference of noisy quantities (%s) without fabs / clamp / test" % label
            ordinals[(s.kind, s.shape)] += 1
            key = "%s:%s:%s#%d" % (_fn_label(fn), s.kind, s.shape, ordinals[(s.kind, s.shape)])
            if not ok and s.uc:
                rel = s.uc
                if rel:
                    raise AnalysisBroken("R-FIN: %s: verdict would be BAD but a branch condition on the way "
                                         "could not be interpreted (%s)" % (key, "; ".join(rel)))
            n_inst += 1
            kinds[s.kind] += 1
            if in_view(fn.file):
                ctx.report(RULE, key, ok, fn.where(s.node), fn.short, msg=why,
                           detail={"operand": expr_text(s.den), "sources": sorted(src), "kind": s.kind})

    # ---- never-zero fields: every writer leaves the field non-zero on every normal exit
    n_nzf = 0
    for qn, spec in sorted(M.nzf.items()):
        owner, fld = qn.rsplit("::", 1)
        writers = [r for r in runs.values() if fld in r.field_writes and strip_targs(r.fn.cls or "") == owner]
        if not writers:
            raise AnalysisBroken("R-FIN: no writer of the never-zero field %s found" % qn)
        for r in sorted(writers, key=lambda r: r.fn.key):
            st = r.exit_state
            key = "never-zero:%s:%s" % (short(qn), _fn_label(r.fn))
            n_nzf += 1
            if st is None:
                if view in (None, "C20", "C11"):
                    ctx.ok(RULE, key, r.fn.where(), r.fn.short, detail={"exit": "no normal exit"})
                continue
            v = st.env.get(("f", fld), UNK)
            ok = r.proven(v, st)
            why = ""
            if not ok:
                bl = r.blame(v, st)
                if v.alts is not None and bl and all(x[0] == "par" for x in bl):
                    # an unknown-provenance argument is not a proof either: demand a proof at every call
                    unproven = _unproven_calls(fx, runs, r.fn, [x[1] for x in bl], analyse)
                    if not unproven:
                        ok = True
                    else:
                        why = "%s is written from parameter %d and %s passes a value that is not proven non-zero" % (
                            fld, sorted(bl)[0][1] + 1, unproven[0])
                else:
                    why = "%s can be left zero at the exit of %s" % (fld, r.fn.short)
            if view in (None, "C20", "C11"):
                ctx.report(RULE, key, ok, r.fn.where(), r.fn.short, msg=why, detail={"reason": spec.get("reason")})

    ctx.note("R-FIN: %d further instantiations of already reported templates merged" % n_merged)
    ctx.note("R-FIN: %d functions analysed, %d sites with a tabled may-be-zero operand, %d denominators of "
             "unknown provenance (not decided), %d depending on parameters no tabled source reaches, "
             "%d uses of never-zero facts" % (len(runs), n_inst, n_unknown, n_param_only, len(M.nz_reliance)))
    ctx.note("R-FIN: sites by kind: %s" % dict(kinds))
    ctx.floor(RULE, 55, n_inst, "guarded-operation sites with a tabled may-be-zero operand")
    ctx.floor(RULE, 40, kinds["div"], "division sites")
    ctx.floor(RULE, 15, kinds["sqrt"], "sqrt sites (difference of noisy quantities / sign of a signed source)")
    ctx.floor(RULE, 3, n_nzf, "never-zero field writers verified")
    ctx.floor(RULE, 390, len(runs), "functions analysed")
    ctx.floor(RULE, 16, len(M.nz_reliance), "uses of never-zero facts")
    return runs


def _callers_guard(M, runs, analyse, run, atoms, nonneg=False):
    """True if `run`'s function is a helper all of whose call sites exclude every one of the given events
    (nonneg: bound the signed integer sources from below by 0 instead)."""
    key = run.fn.key
    if key not in M.helpers:
        return False
    callers = M.callers.get(key) or set()
    if not callers:
        return False
    for ck in sorted(callers):
        cf = M.fx.functions.get(ck)
        cr = analyse(cf) if cf is not None else None
        if cr is None:
            return False
        snaps = [(n, st) for n, st in cr.snapshots if n.get("calleeKey") == key]
        if not snaps:
            return False              # the call sits in unreachable code or was not seen: no proof
        for n, st in snaps:
            for a in atoms:
                t = cr.translate(a, run, n)
                if nonneg:
                    lb = cr.lower(t, st) if t is not None else None
                    good = lb is not None and lb >= 0
                else:
                    good = t is not None and cr.excluded(t, st)
                if not good:
                    # one more level: the caller is itself a helper whose callers guard
                    if t is not None and ck != key and _callers_guard(M, runs, analyse, cr, [t], nonneg):
                        continue
                    return False
    return True


def _sig_params(sig):
    """Parameter types of a function type string `R (A, B &, ...)`."""
    if "(" not in sig or ")" not in sig:
        return []
    inner = sig[sig.index("(") + 1:sig.rindex(")")]
    out, depth, cur = [], 0, ""
    for ch in inner:
        if ch in "<(":
            depth += 1
        elif ch in ">)":
            depth -= 1
        if ch == "," and depth == 0:
            out.append(cur.strip())
            cur = ""
        else:
            cur += ch
    if cur.strip():
        out.append(cur.strip())
    return out


def _atom_text(a):
    if a == OPAQUE:
        return "the value itself"
    if a == ZEROC:
        return "literal 0"
    if a[0] == "ev":
        return a[1]
    if a[0] == "aff":
        return "%s%+g" % (_atom_text(a[1]), a[2])
    if a[0] == "par":
        return "parameter %d" % (a[1] + 1)
    return str(a)


def _unproven_calls(fx, runs, fn, ks, analyse):
    """Call sites of fn (whole fact base) whose k-th argument is not proven non-zero."""
    out = []
    for g in fx.functions.values():
        if g.body is None:
            continue
        hit = [c for c in g.calls() if c.get("calleeKey") == fn.key]
        if not hit:
            continue
        r = analyse(g)
        if r is None:
            out.append(g.sig)
            continue
        # re-run recording argument proofs for exactly these calls
        rr = FnRun(r.M, g)
        proofs = {}
        orig = rr.visit_call

        def visit_call(n, st, rr=rr, proofs=proofs):
            if n.get("calleeKey") == fn.key:
                args = rr.args_of(n) if n.get("k") != "CXXConstructExpr" else call_args(n)
                for k in ks:
                    if k < len(args):
                        v = rr.eval(args[k], st)
                        proofs[(n["id"], k)] = rr.proven(v, st) and proofs.get((n["id"], k), True)
                    else:
                        proofs[(n["id"], k)] = False
        rr.visit_call = visit_call
        rr.run()
        for c in hit:
            for k in ks:
                if not proofs.get((c["id"], k), False):
                    out.append("%s (%s)" % (g.sig, expr_text(c)))
    return out
